#!/usr/bin/env python3
"""C31 - Symbol tables describe the final resolution.

Bounded-exhaustive program family (lib/symtabfam.py): every program has 4 symbols s0..s3, each with
  binding {local, global, weak, gnu-unique} x visibility {default, protected, hidden, internal} x
  type {func, object, tls, notype, absolute} x fate {retained (referenced from _start), gc
  (unreferenced, own section), xl-all / xl-lib (defined in libx.a(m.o), linked with --exclude-libs
  ALL / libx.a, referenced from the member's function xanchor), vs-local (version script `local:`),
  dyn-list (--dynamic-list), eds (--export-dynamic-symbol)}
  x a non-winning second definition of the same name: position {none, before (pre.o precedes the
  winner's object), after (dup.o follows it)} x its visibility {default, protected, hidden,
  internal}; it is weak (a smaller common when the winner is a common; type `common` is a sixth type
  value), has another marker and size, and must lose -- but its visibility must be merged into the
  result (most constraining wins; GNU ld decides).  A gnu-unique definition cannot lose under GNU ld
  (multiple-definition error against global / gnu-unique, wins against weak), so gnu-unique takes part
  as the winner.
(skipped by rule, see symtabfam.legal: local + non-default visibility; second definition for local /
archive symbols; weak winner after a weak first definition; common that is not STB_GLOBAL.)
Programs:
  (a) rows of a deterministic greedy covering array over the 24 factors (4 slots x 6 axes; strength 2
      in quick, 3 in thorough; construction in symtabfam.covering_array, verified after construction);
  (b) 121 rows in which each of the 483 legal per-symbol tuples without a second definition occurs;
  (c) the duplicate-definition sub-family, BOTH tiers, 156 programs x 4 symbols = every legal
      (winner binding, winner visibility, position, second definition's visibility) x type {func,
      object, tls, notype, abs, common} with fate retained and x {func, object, common} with fate gc.
(a) and (b) are linked as
  output {static exe, PIE, PIE --export-dynamic, -shared, -shared -Bsymbolic}
  x strip {none, --strip-debug, --strip-all} x {none, --discard-locals, --discard-all}
  (quick tier, (b) only: each strip / discard flag alone instead of the 3 x 3 product);
(c) as the 5 outputs x {no flag, --strip-all} (strip / discard flags do not interact with merging),
by the real wild (in-process server).  Dynamic outputs import imp_f / imp_o from libimp.so.

Oracle 1 (from the statement, on wild's output alone, via elfread):
  .symtab: every retained global definition exactly once; st_value points at the definition's
  unique 8-byte marker (TLS: relative to PT_TLS), absolute symbols keep their value; size and type
  as in the input definition; binding as in the input (LOCAL accepted for hidden/internal/demoted
  symbols), visibility as in the input unless the entry is LOCAL or the symbol was demoted; locals
  precede globals and sh_info is the index of the first non-local.
  .dynsym: never a local / hidden / internal symbol, never a symbol of the --exclude-libs archive,
  never a version-script-localised symbol; imp_f and imp_o present as undefined.
Oracle 2 (GNU ld 2.40 on the same program and output kind, linked once without strip/discard flags;
a sub-family shows that GNU ld's compared sets do not depend on those flags):
  .dynsym: same set of (name, binding, visibility class, defined?) over the program's own names;
  .symtab: for the program's names defined in both, same type and same (binding, visibility), where
  LOCAL binding and hidden/internal visibility form one class ("not visible outside").  Linker-
  synthesised symbols are ignored (list built from a trivial link by both linkers, recorded in the
  evidence).  Which unreferenced symbols survive GC is outside the statement.
"""
import json
import os
import subprocess
import sys

sys.path.insert(0, os.path.join(os.path.dirname(os.path.abspath(__file__)), "..", "lib"))
import vlib
import wildrun
import elfread
import symfam
import symtabfam as F

os.environ.setdefault("RUST_BACKTRACE", "0")

OUTPUTS = {"static": ["-no-pie"], "pie": ["-pie"], "pie-ed": ["-pie", "--export-dynamic"],
           "shared": ["-shared"], "shared-bsym": ["-shared", "-Bsymbolic"]}
STRIPS = [(), ("--strip-debug",), ("--strip-all",)]
DISCARDS = [(), ("--discard-locals",), ("--discard-all",)]
OWN = {"s0", "s1", "s2", "s3", "_start", "xanchor", "imp_f", "imp_o", "imp_unused"}
HELPERS = {"main.c", "m.c", "dup.c", "pre.c", ".Ltmp0", "loc_keep", "absrefs", ""}
BN = {0: "local", 1: "global", 2: "weak", 10: "unique"}
TN = {0: "notype", 1: "object", 2: "func", 3: "section", 4: "file", 6: "tls", 10: "ifunc"}
VN = {0: "default", 1: "internal", 2: "hidden", 3: "protected"}
EXP_TYPE = {"func": "func", "object": "object", "tls": "tls", "notype": "notype", "abs": "notype",
            "common": "object"}


def dp_of(x):
    return f"+dup-{x['dup']}" if x.get("dup") else ""


def via(x):
    """Suffix naming a visibility that comes from the non-winning definition."""
    return f":from-{x['vis_from']}-definition" if x.get("vis_from", "winner") != "winner" else ""


def visclass(v):
    return "hidden" if v in ("hidden", "internal") else v


def _ld(argv, cwd):
    p = subprocess.run(["ld", *argv], cwd=cwd, stdin=subprocess.DEVNULL, stdout=subprocess.PIPE,
                       stderr=subprocess.PIPE)
    return p.returncode, p.stderr.decode("utf-8", "replace")


def read_tables(path):
    """-> dict(symtab=[...]|None, sh_info, dynsym=[...], elf) with entries
    (index, name, bind, type, vis, shndx-class U/A/D, value, size)."""
    e = elfread.Elf(path)

    def conv(which):
        out = []
        for s in e.symbols(which):
            cls = "U" if s.shndx == elfread.SHN_UNDEF else ("A" if s.shndx == elfread.SHN_ABS
                                                            else "D")
            out.append((s.index, s.name, BN.get(s.bind, str(s.bind)), TN.get(s.type, str(s.type)),
                        VN[s.visibility], cls, s.value, s.size))
        return out
    sec = e._symtab_section(".symtab")
    dsec = e._sec_of_type(elfread.SHT_DYNSYM)
    return dict(elf=e, symtab=conv(".symtab") if sec is not None else None,
                sh_info=sec.sh_info if sec is not None else None,
                dynsym=conv(".dynsym") if dsec is not None else [],
                dyn_sh_info=dsec.sh_info if dsec is not None else None)


def demoted(x, flags):
    """Is this symbol demoted by the command line (statement: never exported)?"""
    if x["bind"] == "local":
        return False
    if x["where"] == "archive" and flags["exclude"]:
        return True
    return x["fate"] == "vs-local"


def fateclass(x, flags):
    if x["where"] == "archive" and flags["exclude"]:
        return "exclude-libs"
    if x["fate"] == "vs-local":
        return "vs-local"
    return (x["fate"] if x["fate"] in ("dyn-list", "eds", "gc") else "plain") + \
        (f"+dup-{x['dup']}" if x.get("dup") else "")


def oracle1(t, exp, flags, out):
    """Statement-only checks on wild's output. -> [(key, what)], set of names whose .dynsym entry
    is already flagged, set of names whose entries describe the WRONG definition (everything else
    about them is then skipped)."""
    v = []
    e = t["elf"]
    tls = [p for p in e.segments if p.p_type == elfread.PT_TLS]
    flagged_dyn = set()
    wrong = set()
    flagged_sym = set()

    def is_loser(ent, x):
        """Does this entry describe the non-winning definition (its marker / absolute value)?"""
        if not x.get("dup"):
            return False
        _i, name, _b, _ty, _vi, cls, value, _sz = ent
        if x.get("loser_value") is not None:
            hit = cls == "A" and value == x["loser_value"]
        elif x.get("loser_marker") is not None and cls == "D":
            addr = value + (tls[0].p_vaddr if x["type"] == "tls" and tls else 0)
            try:
                hit = e.read_vaddr(addr, 8).hex() == x["loser_marker"]
            except elfread.ElfError:
                hit = False
        else:
            hit = False
        if hit and name not in wrong:
            wrong.add(name)
            flagged_dyn.add(name)
            v.append((f"wrong-winner:{x['bind']}:second-definition-{x['dup']}",
                      f"{name} ({x['bind']},{x['own_vis']},{x['type']},{x['fate']}): the table "
                      f"describes the weak definition placed {x['dup']} the {x['bind']} one "
                      f"(GNU ld: the {x['bind']} definition wins)"))
        return hit

    def check_value(tabname, ent, x):
        _i, name, _b, _ty, _vi, cls, value, _sz = ent
        dp = f"+dup-{x['dup']}" if x.get("dup") else ""
        if x["type"] == "common":
            # allocated by the linker: no marker; it must be a section-relative, readable address
            try:
                ok = cls == "D" and e.read_vaddr(value, 8) is not None
            except elfread.ElfError:
                ok = False
            if not ok:
                v.append((f"{tabname}:value:common{dp}", f"{name}: common symbol has class {cls} "
                          f"value {value:#x} outside the image"))
            return
        if x["type"] == "abs":
            if cls != "A" or value != x["value"]:
                v.append((f"{tabname}:value:abs{dp}", f"{name}: absolute symbol has value {value:#x} "
                          f"class {cls}, expected {x['value']:#x} SHN_ABS"))
            return
        if cls != "D":
            v.append((f"{tabname}:value:{x['type']}{dp}", f"{name}: not section-relative "
                      f"(class {cls})"))
            return
        addr = value
        if x["type"] == "tls":
            if not tls:
                v.append((f"{tabname}:value:tls", f"{name}: TLS symbol but no PT_TLS"))
                return
            addr = tls[0].p_vaddr + value
        try:
            got = e.read_vaddr(addr, 8).hex()
        except elfread.ElfError as ex:
            got = f"unreadable ({ex})"
        if got != x["marker"]:
            v.append((f"{tabname}:value:{x['type']}{dp}", f"{name}: st_value {value:#x} does not point "
                      f"at the definition's marker (found {got}, expected {x['marker']})"))

    # ---- .symtab
    if t["symtab"] is not None:
        tab = t["symtab"]
        info = t["sh_info"]
        bad = [ent for ent in tab if (ent[0] < info) != (ent[2] == "local")]
        if bad or not 1 <= info <= len(tab):
            ent = bad[0] if bad else None
            v.append(("symtab:sh_info", f"sh_info={info} of {len(tab)} entries; first misplaced "
                      f"entry: {ent[:5] if ent else None}"))
        for name, x in exp.items():
            ents = [ent for ent in tab if ent[1] == name and ent[5] != "U"]
            if x["bind"] == "local":
                # not constrained by the statement (only its position, checked above); but if it
                # is listed its value must still be right
                for ent in ents:
                    if ent[2] == "local":
                        check_value("symtab-local", ent, x)
                continue
            if len(ents) != 1:
                if len(ents) == 0 and x["fate"] == "gc":
                    continue
                v.append((f"symtab:{'missing' if not ents else 'duplicate'}:{fateclass(x, flags)}:"
                          f"{visclass(x['vis'])}",
                          f"{name} ({x['bind']},{x['vis']},{x['type']},{x['fate']}) occurs "
                          f"{len(ents)} times in .symtab"))
                continue
            ent = ents[0]
            _i, _n, b, ty, vi, cls, value, size = ent
            if is_loser(ent, x):
                continue
            check_value("symtab", ent, x)
            if size != x["size"]:
                v.append((f"symtab:size:{x['type']}{dp_of(x)}", f"{name}: st_size {size}, input {x['size']}"))
            if ty != EXP_TYPE[x["type"]]:
                v.append((f"symtab:type:{x['type']}->{ty}", f"{name}: type {ty}"))
            may_be_local = x["vis"] in ("hidden", "internal") or demoted(x, flags)
            if b != x["bind"] and not (b == "local" and may_be_local):
                v.append((f"symtab:binding:{x['bind']}->{b}:{fateclass(x, flags)}",
                          f"{name} ({x['vis']}, {x['fate']}): binding {b}, input {x['bind']}"))
            if b != "local" and not demoted(x, flags) and vi != x["vis"]:
                flagged_sym.add(name)
                v.append((f"symtab:visibility:{x['vis']}->{vi}:" +
                          (via(x)[1:] if via(x) else fateclass(x, flags)),
                          f"{name} ({x['bind']}, {x['fate']}): visibility {vi}, input {x['vis']}"))
    # ---- .dynsym
    dyn = t["dynsym"]
    if dyn:
        info = t["dyn_sh_info"]
        bad = [ent for ent in dyn if (ent[0] < info) != (ent[2] == "local")]
        if bad:
            v.append(("dynsym:sh_info", f"sh_info={info}; misplaced entry {bad[0][:5]}"))
    for ent in dyn:
        _i, name, b, ty, vi, cls, value, size = ent
        x = exp.get(name)
        if x is None or cls == "U" or is_loser(ent, x) or name in wrong:
            continue
        why = None
        if x["bind"] == "local":
            why = "local"
        elif x["vis"] in ("hidden", "internal"):
            why = x["vis"]
        elif x["where"] == "archive" and flags["exclude"]:
            why = "exclude-libs"
        elif x["fate"] == "vs-local":
            why = "vs-local"
        if why:
            flagged_dyn.add(name)
            v.append((f"dynsym:{why}-exported:" + (via(x)[1:] if why == x['vis'] and via(x)
                                                    else out),
                      f"{name} ({x['bind']},{x['vis']},{x['type']},{x['fate']}) is exported in "
                      f".dynsym as ({b},{vi})"))
        else:
            check_value("dynsym", ent, x)
    if out != "static":
        for imp in ("imp_f", "imp_o"):
            if not any(ent[1] == imp and ent[5] == "U" for ent in dyn):
                flagged_dyn.add(imp)
                v.append((f"dynsym:import-missing:{imp}:{out}", f"undefined reference {imp} to "
                          f"libimp.so is not in .dynsym"))
    return v, flagged_dyn, wrong | flagged_sym


def ld_sets(t):
    dyn = {}
    for ent in t["dynsym"]:
        _i, name, b, ty, vi, cls, _v, _s = ent
        if name in OWN:
            dyn[name] = (b, visclass(vi), "und" if cls == "U" else "def")
    sym = {}
    for ent in (t["symtab"] or []):
        _i, name, b, ty, vi, cls, _v, _s = ent
        if name in OWN and cls != "U":
            norm = "local" if (b == "local" or vi in ("hidden", "internal")) else f"{b}.{vi}"
            sym.setdefault(name, []).append((ty, norm))
    return dyn, sym


def oracle2(t, ldref, exp, flags, out, flagged_dyn, wrong=()):
    v = []
    wdyn, wsym = ld_sets(t)
    ldyn, lsym = ldref
    for name in sorted(set(wdyn) | set(ldyn)):
        if name in flagged_dyn or wdyn.get(name) == ldyn.get(name):
            continue
        x = exp.get(name)
        cls = f"{fateclass(x, flags)}:{x['bind']}.{visclass(x['vis'])}" if x else name

        def st(d):
            return "absent" if d is None else ".".join(d)
        l_, w_ = ldyn.get(name), wdyn.get(name)
        if x and via(x) and l_ and w_ and (l_[0], l_[2]) == (w_[0], w_[2]):
            key = f"dynsym-vs-ld:visibility-merge{via(x)}:ld={l_[1]},wild={w_[1]}"
        elif x and via(x):
            key = f"dynsym-vs-ld:visibility-merge{via(x)}:ld={st(l_)},wild={st(w_)}"
        else:
            key = f"dynsym-vs-ld:{out}:{cls}:ld={st(l_)},wild={st(w_)}"
        v.append((key, f"{name} ({x['bind']},{x['own_vis']},{x['type']},{x['fate']},second "
                  f"definition {x['dup']}): GNU ld .dynsym {l_}, wild {w_}" if x else
                  f"{name}: GNU ld .dynsym {l_}, wild {w_}"))
    if t["symtab"] is not None:
        for name in sorted(set(wsym) & set(lsym)):
            x = exp.get(name)
            if x is None or name in wrong or len(wsym[name]) != 1 or len(lsym[name]) != 1:
                continue
            if out == "static" and demoted(x, flags):
                continue     # GNU ld does not localise in an output without dynamic sections
            (wty, wn), (lty, ln) = wsym[name][0], lsym[name][0]
            if wty != lty:
                v.append((f"symtab-vs-ld:type:ld={lty},wild={wty}", f"{name}: type"))
            if wn != ln:
                a, b = ln, wn
                if ln == "local":
                    b = "nonlocal"
                elif wn == "local":
                    a = "nonlocal"
                if via(x):
                    key = (f"symtab-vs-ld:visibility-merge{via(x)}:ld={a.split('.')[-1]},"
                           f"wild={b.split('.')[-1]}")
                else:
                    key = f"symtab-vs-ld:{fateclass(x, flags)}:ld={a},wild={b}"
                v.append((key,
                          f"{name} ({x['bind']},{x['vis']},{x['type']},{x['fate']}) output {out}: "
                          f"GNU ld .symtab entry is {ln}, wild's is {wn}"))
    return v


# ------------------------------------------------------------------------------------ workers
def materialise(d, row):
    os.makedirs(d, exist_ok=True)
    exps = {}
    mem = pre = dup = None
    for imports, fn in ((False, "main_s.o"), (True, "main_d.o")):
        m, mem, pre, dup, exp = F.build_program(row, imports)
        with open(os.path.join(d, fn), "wb") as f:
            f.write(m)
        exps[imports] = exp
    if mem is not None:
        symfam.write_archive(os.path.join(d, "libx.a"), [("m.o", mem)])
    for fn, blob in (("pre.o", pre), ("dup.o", dup)):
        if blob is not None:
            with open(os.path.join(d, fn), "wb") as f:
                f.write(blob)
    argv, files = F.option_files(row)
    for n, text in files.items():
        with open(os.path.join(d, n), "w") as f:
            f.write(text)
    return exps, argv, (mem is not None, pre is not None, dup is not None)


def inputs_for(out, has, libimp):
    has_archive, has_pre, has_dup = has
    inp = ["pre.o"] if has_pre else []
    inp.append("main_s.o" if out == "static" else "main_d.o")
    if has_dup:
        inp.append("dup.o")
    if has_archive:
        inp.append("libx.a")
    if out != "static":
        inp.append(libimp)
    return inp


def run_program(item):
    base, idx, row, ld_all_configs, only, reduced = item
    if reduced == "pair":
        configs = [((), ()), (("--strip-all",), ())]
    elif reduced == "star":      # every strip / discard flag alone
        configs = [(st, ()) for st in STRIPS] + [((), di) for di in DISCARDS[1:]]
    else:
        configs = [(st, di) for st in STRIPS for di in DISCARDS]
    d = os.path.join(base, f"w{os.getpid()}", f"p{idx}")
    exps, optargv, has_archive = materialise(d, row)
    flags = {"exclude": any(a.startswith("--exclude-libs") for a in optargv)}
    libimp = os.path.join(base, "libimp.so")
    res = {"idx": idx, "viol": [], "nsub": 0, "wild_links": 0, "ld_rejected": [],
           "wild_failed": [], "sigs": set(), "evals": 0, "unknown_names": set(),
           "ld_config_dependence": [], "model_vs_ld": {}}
    for out, oflags in OUTPUTS.items():
        if only and only.get("output") not in (None, out):
            continue
        exp = exps[out != "static"]
        common = ["--gc-sections", *oflags, *optargv]
        inp = inputs_for(out, has_archive, libimp)
        rc, err = _ld([*common, *inp, "-o", f"ld.{out}"], d)
        res["nsub"] += 1
        if rc != 0:
            res["ld_rejected"].append((out, err.strip().splitlines()[0][-160:] if err.strip()
                                       else ""))
            continue
        lt = read_tables(os.path.join(d, f"ld.{out}"))
        ldref = ld_sets(lt)
        # Oracle 1 is a model of the statement: cross-check it on GNU ld's own output; what it
        # flags there is excluded for this (program, output) and counted.
        ld_model_keys = {k for k, _w in oracle1(lt, exp, flags, out)[0]}
        for k in ld_model_keys:
            res["model_vs_ld"][k] = res["model_vs_ld"].get(k, 0) + 1
        nonlocal_names = {n for n, x in exp.items() if x["bind"] != "local"} | \
            {"imp_f", "imp_o", "imp_unused"}

        def restricted(ref):
            return tuple({k: v for k, v in part.items() if k in nonlocal_names} for part in ref)
        if ld_all_configs:
            for st in STRIPS[:2]:
                for di in DISCARDS:
                    if not st and not di:
                        continue
                    rc2, _e = _ld([*common, *st, *di, *inp, "-o", "ld.cfg"], d)
                    res["nsub"] += 1
                    if rc2 != 0 or restricted(ld_sets(read_tables(
                            os.path.join(d, "ld.cfg")))) != restricted(ldref):
                        res["ld_config_dependence"].append((out, st, di))
        res["sigs"].add((out, tuple(sorted(ldref[0].items())),
                         tuple(sorted((k, tuple(v)) for k, v in ldref[1].items()))))
        for st, di in configs:
            if True:
                if only and (tuple(only.get("strip", st)) != st or
                             tuple(only.get("discard", di)) != di):
                    continue
                outname = "wild.out"
                try:
                    os.unlink(os.path.join(d, outname))
                except OSError:
                    pass
                wrc, msg = wildrun.server_link([*common, *st, *di, *inp, "-o", outname], cwd=d)
                res["wild_links"] += 1
                cfg = (out, st, di)
                if wrc != 0:
                    res["wild_failed"].append((cfg, wrc, msg.strip()[-200:]))
                    continue
                try:
                    t = read_tables(os.path.join(d, outname))
                    v1, flagged, wrong = oracle1(t, exp, flags, out)
                    v2 = oracle2(t, ldref, exp, flags, out, flagged, wrong)
                except elfread.ElfError as ex:
                    res["viol"].append(("unreadable-output", str(ex), cfg))
                    continue
                res["evals"] += 1
                if st == ("--strip-all",) and t["symtab"] is not None:
                    pass   # keeping a .symtab under --strip-all is not excluded by the statement
                for ent in (t["symtab"] or []) + t["dynsym"]:
                    if ent[1] not in OWN and ent[1] not in HELPERS:
                        res["unknown_names"].add(ent[1])
                for k, w in v1 + v2:
                    if k not in ld_model_keys:
                        res["viol"].append((k, w, cfg))
    if not only:
        import shutil
        shutil.rmtree(d, ignore_errors=True)
    res["sigs"] = sorted(res["sigs"])
    res["unknown_names"] = sorted(res["unknown_names"])
    return res


def synthesised_names(base):
    """Names both linkers add on their own: a trivial program (entry + TLS + init_array) linked in
    the five output kinds by both linkers (5 GNU ld subprocesses)."""
    from elfgen import (ElfObject, SHF_ALLOC, SHF_WRITE, SHF_EXECINSTR, SHF_TLS, STT_FUNC,
                        SHT_INIT_ARRAY)
    from elfgen import SHT_NOBITS, STB_LOCAL, STT_TLS, STT_OBJECT
    o = ElfObject("x86_64")
    code = b"\x48\x8b\x05\0\0\0\0" * 3 + b"\xc3"
    t = o.section(".text", flags=SHF_ALLOC | SHF_EXECINSTR, align=16, data=code)
    o.symbol("_start", section=t, type=STT_FUNC, size=len(code))
    td = o.section(".tdata", flags=SHF_ALLOC | SHF_WRITE | SHF_TLS, align=8, data=bytes(8))
    da = o.section(".data", flags=SHF_ALLOC | SHF_WRITE, align=8, data=bytes(8))
    bs = o.section(".bss", type=SHT_NOBITS, flags=SHF_ALLOC | SHF_WRITE, align=8, size=8)
    o.reloc(t, 3, F.R_X86_64_GOTTPOFF, o.symbol("", section=td, bind=STB_LOCAL, type=STT_TLS), -4)
    o.reloc(t, 10, F.R_X86_64_GOTPCREL, o.section_symbol(da), -4)
    o.reloc(t, 17, F.R_X86_64_GOTPCREL, o.section_symbol(bs), -4)
    ia = o.section(".init_array", type=SHT_INIT_ARRAY, flags=SHF_ALLOC | SHF_WRITE, align=8,
                   data=bytes(8))
    o.reloc(ia, 0, 1, o.section_symbol(t), 0)
    o.note_gnu_stack()
    d = os.path.join(base, "trivial")
    os.makedirs(d, exist_ok=True)
    with open(os.path.join(d, "t.o"), "wb") as f:
        f.write(o.to_bytes())
    names = {"ld": set(), "wild": set()}
    nsub = 0
    for out, oflags in OUTPUTS.items():
        inp = ["t.o"] + ([] if out == "static" else [os.path.join(base, "libimp.so")])
        rc, err = _ld([*oflags, *inp, "-o", "ld.out"], d)
        nsub += 1
        wrc, msg = wildrun.server_link([*oflags, *inp, "-o", "wild.out"], cwd=d)
        if rc != 0 or wrc != 0:
            raise RuntimeError(f"trivial link failed ({out}): ld {rc} {err} wild {wrc} {msg}")
        for who, fn in (("ld", "ld.out"), ("wild", "wild.out")):
            t_ = read_tables(os.path.join(d, fn))
            for ent in (t_["symtab"] or []) + t_["dynsym"]:
                if ent[1] and ent[1] != "_start":
                    names[who].add(ent[1])
    return names, nsub


def family(thorough):
    rows = F.covering_array(3 if thorough else 2)
    n_ca = len(rows)
    rows += F.tuple_cover_rows()
    n_base = len(rows)
    rows += F.dup_subfamily_rows()          # linked with the reduced configuration set
    return rows, n_ca, n_base


def replay(chk):
    with open(chk.args.replay) as f:
        doc = json.load(f)
    rp = doc["replay"]
    row = tuple(tuple(s) for s in rp["row"])
    base = os.path.join("/dev/shm", f"verif.c31replay.{os.getpid()}")
    os.makedirs(base, exist_ok=True)
    prepare_libimp(base)
    only = {"output": rp["config"][0], "strip": rp["config"][1], "discard": rp["config"][2]}
    r = run_program((base, 0, row, False, only, False))
    d = os.path.join(base, f"w{os.getpid()}", "p0")
    print("row:", row)
    print("directory:", d)
    print("wild command:", rp.get("command"))
    print("ld rejected:", r["ld_rejected"], "wild failed:", r["wild_failed"])
    for k, w, cfg in r["viol"]:
        print("VIOLATION", k, w, cfg)
    hit = any(k == doc["key"] for k, _w, _c in r["viol"]) or \
        (doc["key"].startswith("wild-fails") and r["wild_failed"])
    print("REPRODUCED" if hit else "not reproduced")
    sys.exit(1 if hit else 0)


def prepare_libimp(base):
    with open(os.path.join(base, "imp.o"), "wb") as f:
        f.write(F.import_library_object())
    rc, err = _ld(["-shared", "-soname", "libimp.so", "imp.o", "-o", "libimp.so"], base)
    if rc != 0:
        raise RuntimeError("GNU ld could not build libimp.so: " + err)


def command_of(row, cfg):
    out, st, di = cfg
    optargv, _f = F.option_files(row)
    has = (any(s[3] in F.ARCHIVE_FATES for s in row), any(s[4] == "before" for s in row),
           any(s[4] == "after" for s in row))
    return " ".join(["wild", "--gc-sections", *OUTPUTS[out], *optargv, *st, *di,
                     *inputs_for(out, has, "../../libimp.so"), "-o", "wild.out"])


def main():
    chk = vlib.Check("C31", "exploration")
    if not chk.args.no_build:
        vlib.build("wild")
    if chk.args.replay:
        replay(chk)
    strength = 3 if chk.thorough else 2
    rows, n_ca, n_base = family(chk.thorough)
    missing = F.uncovered(rows[:n_ca], strength)
    if missing:
        chk.machinery(f"covering array construction left {missing} combinations uncovered")
    tuples_seen = {s for r in rows for s in r}
    want = {t for t in F.LEGAL if t[4] == "none"} | {s for r in F.dup_subfamily_rows() for s in r}
    if not want <= tuples_seen:
        chk.machinery("per-symbol tuple cover incomplete")
    dup_combos = {(s[0], s[1], s[2] == "common", s[4], s[5]) for r in rows[n_base:] for s in r}
    dup_legal = {(t[0], t[1], t[2] == "common", t[4], t[5]) for t in F.LEGAL if t[4] != "none"}
    if dup_combos != dup_legal:
        chk.machinery("duplicate-definition sub-family is not exhaustive")
    order = list(range(len(rows)))
    if chk.seed:
        import random
        random.Random(chk.seed).shuffle(order)
    n_ldcfg = 40 if chk.thorough else 6      # sub-family for the GNU ld flag-independence check
    nsub = 0
    tot = dict(wild_links=0, evals=0, ld_rejected=0, wild_failed=0)
    sigs = set()
    ld_reject_reasons = {}
    unknown = set()
    model_vs_ld = {}
    with vlib.scratch("c31") as base:
        try:
            prepare_libimp(base)
            synth, n = synthesised_names(base)
        except RuntimeError as ex:
            chk.machinery(str(ex))
        nsub += 1 + n
        def cfgset(i):
            if i >= n_base:
                return "pair"
            return "star" if (i >= n_ca and not chk.thorough) else False
        items = [(base, i, rows[i], k < n_ldcfg and i < n_base, None, cfgset(i))
                 for k, i in enumerate(order)]
        results = wildrun.pmap(run_program, items, chunksize=1)
        for r in results:
            row = rows[r["idx"]]
            nsub += r["nsub"]
            tot["wild_links"] += r["wild_links"]
            tot["evals"] += r["evals"]
            tot["ld_rejected"] += len(r["ld_rejected"])
            for out, reason in r["ld_rejected"]:
                reason = " ".join(w for w in reason.split() if not w.startswith(("`", "main_")))[:80]
                ld_reject_reasons[reason] = ld_reject_reasons.get(reason, 0) + 1
            for dep in r["ld_config_dependence"]:
                chk.machinery(f"GNU ld's compared sets depend on strip/discard flags: row {row} "
                              f"{dep}")
            sigs.update(map(str, r["sigs"]))
            for k, n_ in r["model_vs_ld"].items():
                model_vs_ld[k] = model_vs_ld.get(k, 0) + n_
            unknown.update(r["unknown_names"])
            for cfg, wrc, msg in r["wild_failed"]:
                tot["wild_failed"] += 1
                cls = "panic" if wrc == 101 else " ".join(
                    w for w in msg.splitlines()[0].split() if not any(c.isdigit() for c in w))[:50]
                chk.violation(f"wild-fails:{cfg[0]}:{cls}",
                              f"GNU ld links the program, wild fails (rc={wrc}): {msg}; row {row} "
                              f"config {cfg}",
                              {"row": row, "config": cfg, "command": command_of(row, cfg),
                               "how": "python3 checks/c31.py --replay <this file>"})
            for k, w, cfg in r["viol"]:
                chk.violation(k, f"{w}; config {cfg}; row {row}",
                              {"row": row, "config": cfg, "command": command_of(row, cfg),
                               "how": "python3 checks/c31.py --replay <this file> (keeps the inputs "
                                      "and outputs of both linkers in the printed directory)"})
    ignore = sorted((synth["ld"] | synth["wild"]) - OWN)
    not_ignored = sorted(unknown - set(ignore))
    chk.coverage = {
        "evaluations": tot["evals"],
        "distinct_nontrivial": len(sigs),
        "distinct_nontrivial_meaning": "distinct (output kind, GNU ld .dynsym set, GNU ld .symtab "
                                       "class set) reference outcomes",
        "programs": len(rows), "covering_array_rows": n_ca, "covering_strength": strength,
        "tuple_cover_rows": n_base - n_ca, "duplicate_definition_subfamily_programs":
            len(rows) - n_base,
        "duplicate_definition_combinations_exhausted": len(dup_combos),
        "covering_array_uncovered_combinations": missing,
        "per_symbol_tuples_covered": len(tuples_seen),
        "configurations_per_program": len(OUTPUTS) * len(STRIPS) * len(DISCARDS),
        "configurations_per_subfamily_program": len(OUTPUTS) * 2,
        "configurations_per_tuple_cover_program": len(OUTPUTS) * (9 if chk.thorough else 5),
        "wild_links": tot["wild_links"], "subprocesses": nsub,
        "program_outputs_dropped_gnu_ld_rejects": tot["ld_rejected"],
        "gnu_ld_reject_reasons": ld_reject_reasons,
        "wild_link_failures": tot["wild_failed"],
        "oracle1_rules_flagging_gnu_ld_output_excluded": model_vs_ld,
        "gnu_ld_flag_independence_checked_on_programs": n_ldcfg,
        "ignored_linker_synthesised_names": ignore,
        "names_outside_family_and_ignore_list_seen_in_wild_outputs": not_ignored,
        "rule": __doc__.split("Bounded-exhaustive program family", 1)[1].strip()[:1800],
        "samples": [{"row": rows[i]} for i in sorted({0, len(rows) // 2, len(rows) - 1})],
        "exhaustive": True,
        "thinned": "4 symbols per program as a covering array (not the full 2643^4 product); GNU ld "
                   "reference linked once per (program, output kind)",
    }
    chk.assumptions = [
        "GNU ld 2.40 is the reference for which symbols are dynamic and for .symtab binding / "
        "visibility classes; LOCAL binding and hidden/internal visibility are one class",
        "in the static output GNU ld does not localise demoted symbols; their binding/visibility "
        "is not compared there",
        "undefined entries of .symtab and the presence of local symbols are outside the statement",
        "--discard-all / --discard-locals only vary the configuration; the statement does not say "
        "which locals are kept",
    ]
    chk.finish()


if __name__ == "__main__":
    main()
