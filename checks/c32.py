#!/usr/bin/env python3
"""C32 - Symbol versions follow the version script.

Bounded-exhaustive family of version scripts (1-3 version nodes, with / without parent
dependencies, plus the anonymous form) over one fixed 6-symbol object, each linked `-shared
--version-script=<f>` by the real wild (in-process server) and by GNU ld 2.40 (the reference for the
matching precedence).  Per symbol wild must agree with GNU ld on: exported? / version node / hidden
bit (the expected assignment of every member is whatever GNU ld produced for that very script in
this run; no model of its precedence takes part in the verdict).  Independently of GNU ld, wild's
version tables are checked for internal consistency straight from the bytes (own parser below, not
elfread's lenient one).  A second small family links clients against GNU-ld-built versioned
libraries (version requirements).

Family (stated; all members enumerated, VERIF_SEED only permutes the order)
 A. every pattern at most once
  patterns P0..P5 = foo | bar | f* | * | "foobar" | extern "C++" { "ns::f()"; ns::g* }
  a script = k nodes V1..Vk, every pattern is absent or sits in exactly one list (node, global|local),
  patterns inside a list in index order, dependency form none | chain (Vi depends on Vi-1) | multi
  (V3 depends on V1 and V2).
    k=1 named      : all 3^6 = 729 assignments
    k=1 anonymous  : quick: <= 2 patterns per list (283); thorough: all 729
    k=2 (<= 2 patterns per list): quick: <= 2 patterns in total x {none, chain}; 3 patterns x none
                     where both nodes are used and two of the three patterns can match a common
                     symbol (15 of the 20 triples); thorough: every assignment x none, <= 3 patterns
                     x chain
    k=3 (<= 2 per list), thorough only: <= 3 patterns in total x {none, chain, multi}; 4 patterns with
                     no empty node x none
 B. placement of catch-all and repeated patterns (the SAME rule in several lists)
  rule classes, each in a plain and an extern "C++" form (GNU ld treats both as the same kind of
  rule but does not call them duplicates of each other):
    star  = * | extern "C++" { * }      glob = f* | extern "C++" { f* }
    exact = foo | extern "C++" { foo }
  a placement of one class = per node a state: absent | one form in global: | one form in local:
  ("single" states, 5) or any subset of {plain, extern} x {global, local} ("double" states, 16);
  placements that are empty or one plain occurrence are in A and skipped.  "crossed" = the same form
  in global: of one node and local: of another; GNU ld 2.40 rejects every crossed script
  ("duplicate expression"), which is re-measured on the members marked (+crossed).  context = zero or
  more plain patterns of the OTHER two classes, each in one (node, global|local) list.
    k=1 named + anonymous: double states (13) x context: quick none; thorough <= 2 patterns
                     + the quoted "*" (a literal for GNU ld) alone and opposite a real *
                     + extern "C" { * } alone; k=2: extern "C" { * } and * in the same section of
                     the two nodes, both orders
    k=2: quick: single states, uncrossed (16) x context <= 1 pattern, (+crossed) x no context, none;
         thorough: double states, uncrossed x context <= 1, (+crossed) x no context, none; single
         states, uncrossed x <= 1 x chain
    k=3: quick: single states, uncrossed (70) x no context x none;
         thorough: single states, uncrossed x context <= 1, (+crossed) x no context, none; uncrossed
         x no context x chain
  every script is linked by wild a second time with -soname=libt.so.1 (tables' consistency only).
  verneed family: clients referencing a subset of {f, f@V1, g, g@V1, h, k} from libv.so (f@V1,
  f@@V2, g@@V1, h unversioned) and libw.so (k@@W1), both built by GNU ld, x output {pie, shared,
  shared + own version script}.
"""
import itertools
import json
import os
import struct
import subprocess
import sys

sys.path.insert(0, os.path.join(os.path.dirname(os.path.abspath(__file__)), "..", "lib"))
import vlib
import wildrun
import elfread
import elfgen
from elfgen import (ElfObject, SHF_ALLOC, SHF_EXECINSTR, STB_GLOBAL, STT_FUNC)

os.environ.setdefault("RUST_BACKTRACE", "0")

SYMS = ["foo", "foobar", "bar", "baz", "_ZN2ns1fEv", "_ZN2ns1gEv"]
PATTERNS = ['foo', 'bar', 'f*', '*', '"foobar"', 'extern "C++" { "ns::f()"; ns::g* }']
# Which symbols a pattern can match at all, and its class (used only to NAME the failing class in
# violation keys; the verdict never depends on this table).
PCLASS = ["exact", "exact", "glob", "star", "quoted", "extern-c++"]
PMATCH = {
    0: {"foo": "exact"}, 1: {"bar": "exact"},
    2: {"foo": "glob", "foobar": "glob"},
    3: {s: "star" for s in SYMS},
    4: {"foobar": "quoted"},
    5: {"_ZN2ns1fEv": "c++exact", "_ZN2ns1gEv": "c++glob"},
}
R_X86_64_PLT32 = 4


# ------------------------------------------------------------------------------------ the family
def render(k, lists, dep, anon=False):
    """lists: per node (texts in global:, texts in local:)."""
    out = []
    for n in range(k):
        g, l = lists[n]
        body = ""
        if g:
            body += " global: " + " ".join(p + ";" for p in g)
        if l:
            body += " local: " + " ".join(p + ";" for p in l)
        parents = []
        if dep == "chain" and n > 0:
            parents = [f"V{n}"]
        elif dep == "multi" and n == 2:
            parents = ["V1", "V2"]
        head = "" if anon else f"V{n + 1} "
        out.append(f"{head}{{{body} }}{' ' + ' '.join(parents) if parents else ''};")
    return "\n".join(out) + "\n"


def script_text(k, assign, dep, anon=False):
    """assign: tuple over patterns of None | (node, 'g'|'l')."""
    return render(k, [([PATTERNS[i] for i, a in enumerate(assign) if a == (n, "g")],
                       [PATTERNS[i] for i, a in enumerate(assign) if a == (n, "l")])
                      for n in range(k)], dep, anon)


def assignments(k, cap, total=None, nonempty=False):
    slots = [None] + [(n, w) for n in range(k) for w in "gl"]
    for a in itertools.product(slots, repeat=len(PATTERNS)):
        used = [x for x in a if x is not None]
        if total is not None and not total(len(used)):
            continue
        if cap is not None and any(used.count(s) > cap for s in set(used)):
            continue
        if nonempty and len({s[0] for s in used}) < k:
            continue
        yield a


def two_overlap(a):
    """two of the patterns used by assignment a can match a common symbol"""
    used = [i for i, x in enumerate(a) if x is not None]
    return any(PMATCH[i].keys() & PMATCH[j].keys() for i, j in itertools.combinations(used, 2))


# ---- part B: catch-all / repeated patterns.  key -> (text, {symbol: label for violation keys})
DPAT = {
    "star": ('*', {s: "star" for s in SYMS}),
    "xstar": ('extern "C++" { * }', {s: "c++star" for s in SYMS}),
    "glob": ('f*', {"foo": "glob", "foobar": "glob"}),
    "xglob": ('extern "C++" { f* }', {"foo": "c++glob", "foobar": "c++glob"}),
    "exact": ('foo', {"foo": "exact"}),
    "xexact": ('extern "C++" { foo }', {"foo": "c++exact"}),
    "qstar": ('"*"', {}),
    "cstar": ('extern "C" { * }', {s: "c-star" for s in SYMS}),
}
DORDER = {key: i for i, key in enumerate(DPAT)}
CLASSES = {"star": ("star", "xstar"), "glob": ("glob", "xglob"), "exact": ("exact", "xexact")}


def placements(cls, k, doubles):
    """-> (placement, crossed); placement = per node a tuple of (form key, 'g'|'l')."""
    occ = [(f, w) for f in CLASSES[cls] for w in "gl"]
    if doubles:
        states = [c for r in range(len(occ) + 1) for c in itertools.combinations(occ, r)]
    else:
        states = [()] + [(o,) for o in occ]
    for pl in itertools.product(states, repeat=k):
        flat = [o for st in pl for o in st]
        if not flat or (len(flat) == 1 and flat[0][0] == CLASSES[cls][0]):
            continue      # already in part A
        crossed = any(f1 == f2 and w1 != w2
                      for (n1, st1), (n2, st2) in itertools.combinations(enumerate(pl), 2)
                      for f1, w1 in st1 for f2, w2 in st2)
        yield pl, crossed


def contexts(cls, k, depth):
    """-> tuples of (plain pattern key of another class, node, 'g'|'l'), at most one per class."""
    others = [CLASSES[c][0] for c in CLASSES if c != cls]
    slots = [(n, w) for n in range(k) for w in "gl"]
    out = [()]
    if depth >= 1:
        out += [((o, n, w),) for o in others for n, w in slots]
    if depth >= 2:
        out += [((others[0], n0, w0), (others[1], n1, w1)) for n0, w0 in slots for n1, w1 in slots]
    return out


def dup_lists(k, pl, ctx):
    lists = []
    for n in range(k):
        here = list(pl[n]) + [(key, w) for key, nn, w in ctx if nn == n]
        lists.append(tuple(tuple(sorted((key for key, w in here if w == sec), key=DORDER.get))
                           for sec in "gl"))
    return tuple(lists)


def dup_family(thorough):
    fam = []

    def add(kinds, k, doubles, depth, deps, with_crossed, crossed_depth=None):
        for cls in CLASSES:
            for pl, crossed in placements(cls, k, doubles):
                if crossed and not with_crossed:
                    continue
                d = depth if not crossed or crossed_depth is None else crossed_depth
                for ctx in contexts(cls, k, d):
                    for kind in kinds:
                        for dep in deps:
                            fam.append((kind, k, dup_lists(k, pl, ctx), dep))

    add(("dup", "dup-anon"), 1, True, 2 if thorough else 0, ("none",), False)
    for kind in ("dup", "dup-anon"):
        for lists in ((("qstar",), ()), ((), ("qstar",)), (("qstar",), ("star",)),
                      (("star",), ("qstar",))):
            fam.append((kind, 1, (lists,), "none"))
        for w in (0, 1):      # extern "C" { * }: the same rule as * for GNU ld (a duplicate of it)
            fam.append((kind, 1, (tuple(("cstar",) if i == w else () for i in (0, 1)),), "none"))
    for w in (0, 1):
        for first, second in (("cstar", "star"), ("star", "cstar")):
            fam.append(("dup", 2, tuple(tuple((key,) if i == w else () for i in (0, 1))
                                        for key in (first, second)), "none"))
    if thorough:
        add(("dup",), 2, True, 1, ("none",), True, crossed_depth=0)
        add(("dup",), 2, False, 1, ("chain",), False)
        add(("dup",), 3, False, 1, ("none",), True, crossed_depth=0)
        add(("dup",), 3, False, 0, ("chain",), False)
    else:
        add(("dup",), 2, False, 1, ("none",), True, crossed_depth=0)
        add(("dup",), 3, False, 0, ("none",), False)
    return fam


def family(thorough):
    fam = []   # (kind, k, assign, dep)
    for a in assignments(1, None):
        fam.append(("named", 1, a, "none"))
    for a in assignments(1, None if thorough else 2):
        fam.append(("anon", 1, a, "none"))
    if thorough:
        for a in assignments(2, 2):
            fam.append(("named", 2, a, "none"))
        for a in assignments(2, 2, total=lambda m: m <= 3):
            fam.append(("named", 2, a, "chain"))
        for a in assignments(3, 2, total=lambda m: m <= 3):
            for dep in ("none", "chain", "multi"):
                fam.append(("named", 3, a, dep))
        for a in assignments(3, 2, total=lambda m: m == 4, nonempty=True):
            fam.append(("named", 3, a, "none"))
    else:
        for a in assignments(2, 2, total=lambda m: m <= 2):
            fam.append(("named", 2, a, "none"))
            fam.append(("named", 2, a, "chain"))
        for a in assignments(2, 2, total=lambda m: m == 3, nonempty=True):
            if two_overlap(a):
                fam.append(("named", 2, a, "none"))
    return fam + dup_family(thorough)


def is_dup(m):
    return m[0].startswith("dup")


def member_text(m):
    kind, k, a, dep = m
    if is_dup(m):
        return render(k, [tuple([DPAT[key][0] for key in sec] for sec in node) for node in a], dep,
                      anon=(kind == "dup-anon"))
    return script_text(k, a, dep, anon=(kind == "anon"))


def the_object():
    o = ElfObject("x86_64")
    for i, name in enumerate(SYMS):
        t = o.section(".text." + name, flags=SHF_ALLOC | SHF_EXECINSTR, align=16,
                      data=bytes([0xc3, 0x90 + i]))
        o.symbol(name, section=t, type=STT_FUNC, size=2, bind=STB_GLOBAL)
    o.note_gnu_stack()
    return o.to_bytes()


# ------------------------------------------------------------------------------------ table checks
def _cstr(buf, off):
    if off >= len(buf):
        return None
    end = buf.find(b"\0", off)
    if end < 0:
        return None
    return buf[off:end].decode("utf-8", "replace")


def structure_violations(e, outname):
    """Internal consistency of .gnu.version / .gnu.version_d / .gnu.version_r, from the bytes.
    -> list of (what-class, description)."""
    v = []
    dd = e.dynamic_dict()
    dyn = e.dynamic()
    sec_sym = e._sec_of_type(elfread.SHT_DYNSYM)
    sec_vs = e._sec_of_type(elfread.SHT_GNU_VERSYM)
    sec_vd = e._sec_of_type(elfread.SHT_GNU_VERDEF)
    sec_vn = e._sec_of_type(elfread.SHT_GNU_VERNEED)
    ndyn = sec_sym.sh_size // 24 if sec_sym is not None else 0
    for sec, tag, nm in ((sec_vs, elfread.DT_VERSYM, "VERSYM"), (sec_vd, elfread.DT_VERDEF, "VERDEF"),
                         (sec_vn, elfread.DT_VERNEED, "VERNEED")):
        if (sec is None) != (tag not in dd):
            v.append((f"dt-{nm.lower()}-vs-section", f"DT_{nm} present={tag in dd} but section "
                      f"present={sec is not None}"))
        elif sec is not None and dd[tag] != sec.sh_addr:
            v.append((f"dt-{nm.lower()}-address", f"DT_{nm}={dd[tag]:#x} section at {sec.sh_addr:#x}"))
    n_tag = {t: sum(1 for a, _b in dyn if a == t) for t in (elfread.DT_VERDEFNUM,
                                                           elfread.DT_VERNEEDNUM)}
    for t, n in n_tag.items():
        if n > 1:
            v.append(("duplicate-dt", f"tag {elfread.DT[t]} occurs {n} times"))

    def strtab_of(sec):
        if not 0 <= sec.sh_link < len(e.sections) or \
                e.sections[sec.sh_link].sh_type != elfread.SHT_STRTAB:
            return None
        return e.sections[sec.sh_link].data

    defs = {}      # index -> name
    defnames = []
    if sec_vd is not None:
        raw, strs = sec_vd.data, strtab_of(sec_vd)
        if strs is None:
            v.append(("verdef-link", "sh_link of .gnu.version_d is not a string table"))
            strs = b""
        if sec_vs is not None and sec_vd.sh_link != (sec_sym.sh_link if sec_sym else -1):
            v.append(("verdef-link", "sh_link of .gnu.version_d is not .dynsym's string table"))
        pos, count, seen_pos, parents_all = 0, 0, set(), []
        nbase = 0
        while True:
            if pos in seen_pos or pos + 20 > len(raw):
                v.append(("vd_next-chain", f"vd_next chain leaves the section / loops at {pos:#x}"))
                break
            seen_pos.add(pos)
            ver, flags, ndx, cnt, vhash, aux, nxt = struct.unpack_from("<HHHHIII", raw, pos)
            count += 1
            if ver != 1:
                v.append(("vd_version", f"vd_version={ver} at {pos:#x}"))
            names, apos, aseen = [], pos + aux, set()
            if cnt < 1:
                v.append(("vd_cnt", f"vd_cnt=0 at {pos:#x}"))
            for j in range(cnt):
                if apos in aseen or apos + 8 > len(raw):
                    v.append(("vda_next-chain", f"verdaux chain of entry at {pos:#x} leaves the "
                              f"section / loops"))
                    break
                aseen.add(apos)
                vda_name, vda_next = struct.unpack_from("<II", raw, apos)
                nm = _cstr(strs, vda_name)
                if nm is None:
                    v.append(("vda_name", f"vda_name {vda_name:#x} outside the string table"))
                    nm = "?"
                names.append(nm)
                if j == cnt - 1:
                    if vda_next != 0:
                        v.append(("vda_next-chain", f"last verdaux of entry at {pos:#x} has "
                                  f"vda_next={vda_next}"))
                elif vda_next == 0:
                    v.append(("vd_cnt", f"entry at {pos:#x}: vd_cnt={cnt} but the verdaux chain "
                              f"ends after {j + 1}"))
                    break
                apos += vda_next
            if names:
                if vhash != elfread.elf_hash(names[0]):
                    v.append(("vd_hash", f"vd_hash of {names[0]!r} is {vhash:#x}, expected "
                              f"{elfread.elf_hash(names[0]):#x}"))
                idx = ndx & 0x7fff
                if idx in defs or idx < 1:
                    v.append(("vd_ndx", f"version index {idx} of {names[0]!r} is 0 or reused"))
                defs.setdefault(idx, names[0])
                defnames.append(names[0])
                parents_all.append((names[0], names[1:]))
                if flags & elfread.VER_FLG_BASE:
                    nbase += 1
                    want = e.soname() or outname
                    if idx != 1 or names[0] != want:
                        v.append(("base", f"base version has index {idx} name {names[0]!r}, "
                                  f"expected index 1 name {want!r}"))
                elif idx == 1:
                    v.append(("base", f"index 1 ({names[0]!r}) lacks VER_FLG_BASE"))
            if nxt == 0:
                break
            pos += nxt
        if nbase != 1:
            v.append(("base", f"{nbase} entries carry VER_FLG_BASE"))
        if count != sec_vd.sh_info:
            v.append(("verdef-count", f"{count} entries in the chain, sh_info={sec_vd.sh_info}"))
        if dd.get(elfread.DT_VERDEFNUM) != count:
            v.append(("DT_VERDEFNUM", f"DT_VERDEFNUM={dd.get(elfread.DT_VERDEFNUM)} but "
                      f"{count} entries"))
        if len(set(defnames)) != len(defnames):
            v.append(("verdef-duplicate-name", f"names {defnames}"))
        for nm, ps in parents_all:
            for p in ps:
                if p not in defnames:
                    v.append(("parent", f"version {nm!r} names parent {p!r}, which is not defined"))
    elif elfread.DT_VERDEFNUM in dd:
        v.append(("DT_VERDEFNUM", "DT_VERDEFNUM without a version definition section"))

    needs = {}
    if sec_vn is not None:
        raw, strs = sec_vn.data, strtab_of(sec_vn)
        if strs is None:
            v.append(("verneed-link", "sh_link of .gnu.version_r is not a string table"))
            strs = b""
        pos, count, seen_pos = 0, 0, set()
        needed = set(e.needed())
        while True:
            if pos in seen_pos or pos + 16 > len(raw):
                v.append(("vn_next-chain", f"vn_next chain leaves the section / loops at {pos:#x}"))
                break
            seen_pos.add(pos)
            ver, cnt, vfile, aux, nxt = struct.unpack_from("<HHIII", raw, pos)
            count += 1
            if ver != 1:
                v.append(("vn_version", f"vn_version={ver}"))
            fname = _cstr(strs, vfile)
            if fname not in needed:
                v.append(("vn_file", f"vn_file {fname!r} is not a DT_NEEDED entry {sorted(needed)}"))
            apos, aseen = pos + aux, set()
            if cnt < 1:
                v.append(("vn_cnt", f"vn_cnt=0 for {fname!r}"))
            for j in range(cnt):
                if apos in aseen or apos + 16 > len(raw):
                    v.append(("vna_next-chain", f"vernaux chain of {fname!r} leaves the section"))
                    break
                aseen.add(apos)
                vhash, flags, other, vna_name, vna_next = struct.unpack_from("<IHHII", raw, apos)
                nm = _cstr(strs, vna_name)
                if nm is None:
                    v.append(("vna_name", f"vna_name {vna_name:#x} outside the string table"))
                    nm = "?"
                elif vhash != elfread.elf_hash(nm):
                    v.append(("vna_hash", f"vna_hash of {nm!r} is {vhash:#x}"))
                idx = other & 0x7fff
                if idx < 2 or idx in needs or idx in defs:
                    v.append(("index-collision", f"vna_other {idx} of {fname}:{nm} is reserved or "
                              f"already used by {defs.get(idx) or needs.get(idx)!r}"))
                needs.setdefault(idx, (fname, nm))
                if j == cnt - 1:
                    if vna_next != 0:
                        v.append(("vna_next-chain", f"last vernaux of {fname!r} has vna_next != 0"))
                elif vna_next == 0:
                    v.append(("vn_cnt", f"{fname!r}: vn_cnt={cnt}, chain ends after {j + 1}"))
                    break
                apos += vna_next
            if nxt == 0:
                break
            pos += nxt
        if count != sec_vn.sh_info:
            v.append(("verneed-count", f"{count} entries in the chain, sh_info={sec_vn.sh_info}"))
        if dd.get(elfread.DT_VERNEEDNUM) != count:
            v.append(("DT_VERNEEDNUM", f"DT_VERNEEDNUM={dd.get(elfread.DT_VERNEEDNUM)} but "
                      f"{count} entries"))
    elif elfread.DT_VERNEEDNUM in dd:
        v.append(("DT_VERNEEDNUM", "DT_VERNEEDNUM without a version requirement section"))

    if sec_vs is not None:
        raw = sec_vs.data
        if len(raw) != 2 * ndyn:
            v.append(("versym-count", f".gnu.version has {len(raw) // 2} entries for {ndyn} "
                      f"dynamic symbols"))
        if sec_sym is not None and sec_vs.sh_link != sec_sym.index:
            v.append(("versym-link", "sh_link of .gnu.version is not .dynsym"))
        for i, (x,) in enumerate(struct.iter_unpack("<H", raw[:len(raw) & ~1])):
            idx = x & 0x7fff
            if idx > 1 and idx not in defs and idx not in needs:
                v.append(("versym-index", f".gnu.version[{i}] = {idx} refers to no verdef / "
                          f"vernaux entry"))
    elif sec_vd is not None or sec_vn is not None:
        v.append(("versym-missing", "version tables without .gnu.version"))
    return v


def observe(path, names):
    """-> {name: None (not exported) | (version|'<base>'|'<ndx0>', hidden)} for defined dynsyms."""
    e = elfread.Elf(path)
    versym = e.versym()
    out = {n: None for n in names}
    dup = []
    for s in e.symbols(".dynsym"):
        if s.name in out and s.shndx != elfread.SHN_UNDEF and s.index:
            if out[s.name] is not None:
                dup.append(s.name)
            ver = s.version
            if ver is None:
                raw = (versym[s.index] & 0x7fff) if versym else 1
                ver = "<base>" if raw == 1 else "<ndx0>"
            out[s.name] = (ver, bool(s.version_hidden))
    return e, out, dup


# ------------------------------------------------------------------------------------ key naming
def matchers(m, sym):
    """[(node, label)] of the (pattern, list) pairs of member m that can match sym."""
    kind, k, a, dep = m
    out = []
    if is_dup(m):
        for n, node in enumerate(a):
            for sec, keys in zip("gl", node):
                for key in keys:
                    if sym in DPAT[key][1]:
                        out.append((n, f"{DPAT[key][1][sym]}.{sec}"))
    else:
        for i, slot in enumerate(a):
            if slot is not None and sym in PMATCH[i]:
                out.append((slot[0], f"{PMATCH[i][sym]}.{slot[1]}"))
    out.sort()
    return out


def followed(ms, kind, state):
    """positions in ms of the rules a linker can have followed to give the symbol this state"""
    if state is None:
        return [i for i, (_n, l) in enumerate(ms) if l.endswith(".l")]
    ver = state[0]
    if ver.startswith("V") and ver[1:].isdigit():
        return [i for i, (n, l) in enumerate(ms) if n == int(ver[1:]) - 1 and l.endswith(".g")]
    if kind == "dup-anon" and ver == "<base>":
        return [i for i, (_n, l) in enumerate(ms) if l.endswith(".g")]
    return []


def reduced(ms, kind, ld_state, wild_state):
    """Part B scripts repeat rules, so the full chain of matching rules would give one root cause
    dozens of keys.  Keep the rules GNU ld and wild can have followed (of these only the narrowest
    kind); of several equal rules that all lie on one side (earlier / later nodes) of the other
    linker's rules keep the nearest.  Naming only: the verdict is taken before this is called."""
    fl, fw = followed(ms, kind, ld_state), followed(ms, kind, wild_state)
    if not fl or not fw:
        return ms

    def rank(i):     # exact < glob < star: every linker lets the narrower kind of rule win
        lab = ms[i][1]
        return 2 if "star" in lab else 1 if "glob" in lab else 0
    fl = [i for i in fl if rank(i) == min(map(rank, fl))]
    fw = [i for i in fw if rank(i) == min(map(rank, fw))]

    def thin(mine, other):
        lo, hi = min(ms[i][0] for i in other), max(ms[i][0] for i in other)
        out = []
        for lab in sorted({ms[i][1] for i in mine}):
            grp = [i for i in mine if ms[i][1] == lab]
            if all(ms[i][0] > hi for i in grp):
                grp = grp[:1]
            elif all(ms[i][0] < lo for i in grp):
                grp = grp[-1:]
            out += grp
        return out

    keep = sorted(set(thin(fl, fw)) | set(thin(fw, fl)))
    return [ms[i] for i in keep]


def cause_key(m, sym, ld_state, wild_state):
    """<family>:<the rules that can match the symbol, in node order; '<' = in a later node, '=' =
    in the same node>:ld=<the rule GNU ld followed>,wild=<the rule wild followed>.  A rule that
    occurs several times in the chain is named with its 1-based position among its equals (#n)."""
    ms = matchers(m, sym)
    kind, k, a, dep = m
    if is_dup(m):
        ms = reduced(ms, kind, ld_state, wild_state)
    if not ms:
        cls = "unmatched"
    else:
        parts = [ms[0][1]]
        for (n0, _l0), (n1, l1) in zip(ms, ms[1:]):
            parts.append(("=" if n0 == n1 else "<") + l1)
        cls = "".join(parts)

    def pick(state):
        if state is None:
            return "local"
        ver, hidden = state
        if ver == "<base>":
            return "base"
        if ver == "<ndx0>":
            return "ndx0"
        n = int(ver[1:]) - 1 if ver.startswith("V") and ver[1:].isdigit() else -1
        at = [i for i, (nn, l) in enumerate(ms) if nn == n and l.endswith(".g")]
        if len(at) != 1:
            name = f"node{n}"
        else:
            name = ms[at[0]][1]
            same = [i for i, (_nn, l) in enumerate(ms) if l == name]
            if len(same) > 1:
                name += f"#{same.index(at[0]) + 1}"
        return name + ("+hidden" if hidden else "")

    anon = kind in ("anon", "dup-anon")
    fam = "anon" if anon else "precedence"
    if any(l.startswith("c++") for _n, l in ms):
        fam = "extern-c++" if not anon else "anon-extern-c++"
    return f"{fam}:{cls}:ld={pick(ld_state)},wild={pick(wild_state)}"


# ------------------------------------------------------------------------------------ workers
def _ld(argv, cwd):
    p = subprocess.run(["ld", *argv], cwd=cwd, stdin=subprocess.DEVNULL, stdout=subprocess.PIPE,
                       stderr=subprocess.PIPE)
    return p.returncode, p.stderr.decode("utf-8", "replace")


def run_script_member(item):
    base, idx, m = item
    d = os.path.join(base, f"w{os.getpid()}")
    os.makedirs(d, exist_ok=True)
    text = member_text(m)
    with open(os.path.join(d, "v.map"), "w") as f:
        f.write(text)
    for n in ("ld.so", "wild.so"):
        try:
            os.unlink(os.path.join(d, n))
        except OSError:
            pass
    obj = os.path.join(base, "t.o")
    res = {"idx": idx, "viol": [], "ld_rc": None, "wild_rc": None, "sig": None, "nsub": 1}
    rc, err = _ld(["-shared", "--version-script=v.map", obj, "-o", "ld.so"], d)
    res["ld_rc"] = rc
    if rc != 0:
        res["ld_err"] = err.strip().splitlines()[0][-120:] if err.strip() else ""
    wrc, wmsg = wildrun.server_link(["-shared", "--version-script=v.map", obj, "-o", "wild.so"],
                                    cwd=d)
    res["wild_rc"] = wrc
    if wrc != 0:
        res["wild_err"] = wmsg.strip()[-300:]
        return res
    try:
        we, wobs, wdup = observe(os.path.join(d, "wild.so"), SYMS)
        sv = structure_violations(we, "wild.so")
    except elfread.ElfError as ex:
        res["viol"].append(("verdef-structure:unreadable", str(ex)))
        return res
    for s in wdup:
        res["viol"].append(("dynsym-duplicate", f"{s} is exported twice by wild"))
    for cls, what in sv:
        res["viol"].append((f"verdef-structure:{cls}", what))
    # the same script with a DT_SONAME: only the tables' consistency is judged (base version name)
    w2, m2 = wildrun.server_link(["-shared", "--version-script=v.map", "-soname=libt.so.1", obj,
                                  "-o", "wild2.so"], cwd=d)
    if w2 != 0:
        res["soname_rejected"] = m2.strip()[-200:]
    else:
        try:
            e2 = elfread.Elf(os.path.join(d, "wild2.so"))
            for cls, what in structure_violations(e2, "wild2.so"):
                if not any(c == cls for c, _w in sv):
                    res["viol"].append((f"verdef-structure:with-soname:{cls}", what))
        except elfread.ElfError as ex:
            res["viol"].append(("verdef-structure:with-soname:unreadable", str(ex)))
    if rc != 0:
        return res
    le, lobs, _ldup = observe(os.path.join(d, "ld.so"), SYMS)
    # the structure rules are a model of "internally consistent": what they flag in GNU ld's own
    # output is excluded for this member and counted
    ld_flagged = {f"verdef-structure:{c}" for c, _w in structure_violations(le, "ld.so")}
    if ld_flagged:
        res["model_vs_ld"] = sorted(ld_flagged)
        res["viol"] = [x for x in res["viol"] if x[0] not in ld_flagged]
    res["sig"] = tuple(lobs[s] for s in SYMS)
    for s in SYMS:
        if lobs[s] != wobs[s]:
            res["viol"].append((cause_key(m, s, lobs[s], wobs[s]),
                                f"symbol {s}: GNU ld {fmt_state(lobs[s])}, wild {fmt_state(wobs[s])}"))
    return res


def fmt_state(st):
    if st is None:
        return "not exported"
    return f"exported version={st[0]}{' (hidden bit)' if st[1] else ''}"


# ------------------------------------------------------------------------------------ verneed
REFS = ["f", "f@V1", "g", "g@V1", "h", "k"]
LIBV_S = """
.text
.globl f_v1, f_v2, g, h
.type f_v1,@function
.type f_v2,@function
.type g,@function
.type h,@function
f_v1: ret
f_v2: ret
g: ret
h: ret
.symver f_v1, f@V1, remove
.symver f_v2, f@@V2, remove
"""
LIBW_S = """
.text
.globl k
.type k,@function
k: ret
"""
OUTPUTS = {"pie": ["-pie"], "shared": ["-shared"],
           "shared+vs": ["-shared", "--version-script=client.map"]}


def client_object(refs):
    o = ElfObject("x86_64")
    code = b"".join(b"\xe8\0\0\0\0" for _ in refs) + b"\xc3"
    t = o.section(".text", flags=SHF_ALLOC | SHF_EXECINSTR, align=16, data=code)
    o.symbol("_start", section=t, type=STT_FUNC, size=len(code))
    o.symbol("own", section=t, value=len(code) - 1, type=STT_FUNC, size=1)
    for i, r in enumerate(refs):
        o.reloc(t, 5 * i + 1, R_X86_64_PLT32, o.symbol(r), -4)
    o.note_gnu_stack()
    return o.to_bytes()


def prepare_verneed(base):
    d = os.path.join(base, "vn")
    os.makedirs(d, exist_ok=True)
    nsub = 0
    for name, src, script in (("libv", LIBV_S, "V1 { global: g; };\nV2 { } V1;\n"),
                              ("libw", LIBW_S, "W1 { global: k; };\n")):
        obj = vlib.assemble(src)
        with open(os.path.join(d, name + ".map"), "w") as f:
            f.write(script)
        rc, err = _ld(["-shared", f"--version-script={name}.map", "-soname", name + ".so", obj,
                       "-o", name + ".so"], d)
        nsub += 1
        if rc != 0:
            raise RuntimeError(f"GNU ld could not build {name}.so: {err}")
    with open(os.path.join(d, "client.map"), "w") as f:
        f.write("C1 { global: _start; };\nC2 { global: own; } C1;\n")
    return d, nsub


def verneed_family():
    fam = []
    for mask in range(1, 1 << len(REFS)):
        refs = tuple(r for i, r in enumerate(REFS) if mask >> i & 1)
        for out in OUTPUTS:
            fam.append((refs, out))
    return fam


def observe_needs(path):
    e = elfread.Elf(path)
    und = {}
    versym = e.versym()
    for s in e.symbols(".dynsym"):
        if s.index and s.shndx == elfread.SHN_UNDEF:
            ver = s.version
            if ver is None and versym:
                ver = {0: "<ndx0>", 1: "<base>"}.get(versym[s.index] & 0x7fff)
            und[s.name] = (ver, bool(s.version_hidden))
    needs = sorted((f, n) for f, items in e.verneeds() for _o, n, _fl in items)
    # which file each undefined symbol's version index belongs to
    by_idx = {o & 0x7fff: (f, n) for f, items in e.verneeds() for o, n, _fl in items}
    files = {}
    for s in e.symbols(".dynsym"):
        if s.index and s.shndx == elfread.SHN_UNDEF and versym:
            files[s.name] = by_idx.get(versym[s.index] & 0x7fff)
    own = {}
    for s in e.symbols(".dynsym"):
        if s.index and s.shndx != elfread.SHN_UNDEF and s.name in ("_start", "own"):
            own[s.name] = (s.version, bool(s.version_hidden))
    return e, und, needs, files, own


def run_verneed_member(item):
    d, idx, (refs, out) = item
    w = os.path.join(d, f"w{os.getpid()}")
    os.makedirs(w, exist_ok=True)
    with open(os.path.join(w, "c.o"), "wb") as f:
        f.write(client_object(refs))
    for n in ("client.map", "libv.so", "libw.so"):
        if not os.path.exists(os.path.join(w, n)):
            os.symlink(os.path.join(d, n), os.path.join(w, n))
    for n in ("ld.out", "wild.out"):
        try:
            os.unlink(os.path.join(w, n))
        except OSError:
            pass
    argv = [*OUTPUTS[out], "c.o", "libv.so", "libw.so"]
    res = {"idx": idx, "viol": [], "nsub": 1, "sig": None}
    rc, err = _ld(argv + ["-o", "ld.out"], w)
    res["ld_rc"] = rc
    if rc != 0:
        res["ld_err"] = err.strip().splitlines()[0][-120:] if err.strip() else ""
    wrc, wmsg = wildrun.server_link(argv + ["-o", "wild.out"], cwd=w)
    res["wild_rc"] = wrc
    if wrc != 0:
        res["wild_err"] = wmsg.strip()[-300:]
        return res
    try:
        we, wund, wneeds, wfiles, wown = observe_needs(os.path.join(w, "wild.out"))
        sv = structure_violations(we, "wild.out")
    except elfread.ElfError as ex:
        res["viol"].append(("verneed-structure:unreadable", str(ex)))
        return res
    for cls, what in sv:
        res["viol"].append((f"verneed-structure:{out}:{cls}", what))
    if rc != 0:
        return res
    le, lund, lneeds, lfiles, lown = observe_needs(os.path.join(w, "ld.out"))
    ld_flagged = {f"verneed-structure:{out}:{c}" for c, _w in structure_violations(le, "ld.out")}
    if ld_flagged:
        res["model_vs_ld"] = sorted(ld_flagged)
        res["viol"] = [x for x in res["viol"] if x[0] not in ld_flagged]
    res["sig"] = (tuple(sorted(lund.items())), tuple(lneeds))
    for r in refs:
        name = r.split("@")[0]
        if lund.get(name) != wund.get(name) or lfiles.get(name) != wfiles.get(name):
            res["viol"].append((f"verneed:{out}:ref={r}",
                                f"undefined {name}: GNU ld version {lund.get(name)} from "
                                f"{lfiles.get(name)}, wild {wund.get(name)} from {wfiles.get(name)} "
                                f"(refs {list(refs)})"))
    if set(lneeds) != set(wneeds):
        res["viol"].append((f"verneed:{out}:table", f"version requirements: GNU ld {lneeds}, wild "
                            f"{wneeds} (refs {list(refs)})"))
    if lown != wown:
        res["viol"].append((f"verneed:{out}:own-definitions", f"own exported definitions: GNU ld "
                            f"{lown}, wild {wown}"))
    return res


# ------------------------------------------------------------------------------------ main
def replay(chk):
    with open(chk.args.replay) as f:
        doc = json.load(f)
    rp = doc["replay"]
    base = os.path.join("/dev/shm", f"verif.c32replay.{os.getpid()}")
    os.makedirs(base, exist_ok=True)
    if rp["family"] == "script":
        kind, k, a, dep = rp["member"]
        if kind.startswith("dup"):
            m = (kind, k, tuple(tuple(tuple(sec) for sec in node) for node in a), dep)
        else:
            m = (kind, k, tuple(None if x is None else (x[0], x[1]) for x in a), dep)
        with open(os.path.join(base, "t.o"), "wb") as f:
            f.write(the_object())
        r = run_script_member((base, 0, m))
        d = os.path.join(base, f"w{os.getpid()}")
        print("script:\n" + member_text(m))
        print(f"directory: {d}\ncommands: cd {d} && {vlib.WILD} -shared --version-script=v.map "
              f"../t.o -o wild.so && ld -shared --version-script=v.map ../t.o -o ld.so && "
              f"readelf --dyn-syms -V wild.so ld.so")
    else:
        d, _n = prepare_verneed(base)
        refs, out = rp["member"]
        r = run_verneed_member((d, 0, (tuple(refs), out)))
        w = os.path.join(d, f"w{os.getpid()}")
        print(f"directory: {w}\ncommands: cd {w} && {vlib.WILD} {' '.join(OUTPUTS[out])} c.o "
              f"libv.so libw.so -o wild.out && ld {' '.join(OUTPUTS[out])} c.o libv.so libw.so "
              f"-o ld.out && readelf --dyn-syms -V wild.out ld.out")
    print("ld rc:", r.get("ld_rc"), r.get("ld_err", ""), " wild rc:", r.get("wild_rc"),
          r.get("wild_err", ""))
    for k, w in r["viol"]:
        print("VIOLATION", k, w)
    hit = any(k == doc["key"] for k, _w in r["viol"]) or \
        (doc["key"].startswith("wild-crashes") and r.get("wild_rc") not in (0, 1))
    print("REPRODUCED" if hit else "not reproduced")
    sys.exit(1 if hit else 0)


def wild_error_class(msg):
    msg = msg.strip().splitlines()[0] if msg.strip() else "?"
    out = []
    for tok in msg.replace("`", " ").replace("'", " ").split():
        if any(c.isdigit() for c in tok) or "/" in tok:
            continue
        out.append(tok)
    return " ".join(out)[:60]


def main():
    chk = vlib.Check("C32", "exploration")
    if not chk.args.no_build:
        vlib.build("wild")
    if chk.args.replay:
        replay(chk)
    fam = family(chk.thorough)
    vfam = verneed_family()
    if chk.seed:
        import random
        random.Random(chk.seed).shuffle(fam)
        random.Random(chk.seed).shuffle(vfam)
    nsub = 0
    counts = {"ld_rejected": 0, "wild_rejected_ld_accepts": 0, "wild_accepts_ld_rejects": 0,
              "compared": 0, "both_rejected": 0}
    ld_reject_reasons, wild_reject_reasons = {}, {}
    wild_reject_examples = []
    sigs, vsigs = set(), set()
    per_shape = {}
    part_b = {"members": 0, "compared": 0, "gnu_ld_rejects": 0, "wild_rejects": 0,
              "with_2_or_more_catch_alls": 0, "distinct_gnu_ld_outcomes": set()}
    model_vs_ld = {}
    with vlib.scratch("c32") as base:
        with open(os.path.join(base, "t.o"), "wb") as f:
            f.write(the_object())
        results = wildrun.pmap(run_script_member, [(base, i, m) for i, m in enumerate(fam)],
                               chunksize=16)
        for r in results:
            m = fam[r["idx"]]
            nsub += r["nsub"]
            shape = f"{m[0]}/k={m[1]}/{m[3]}"
            per_shape[shape] = per_shape.get(shape, 0) + 1
            if is_dup(m):
                part_b["members"] += 1
                part_b["compared"] += r["ld_rc"] == 0 and r["wild_rc"] == 0
                part_b["gnu_ld_rejects"] += r["ld_rc"] != 0
                part_b["wild_rejects"] += r["wild_rc"] != 0
                part_b["with_2_or_more_catch_alls"] += sum(
                    key in CLASSES["star"] for node in m[2] for sec in node for key in sec) >= 2
                if r["sig"] is not None:
                    part_b["distinct_gnu_ld_outcomes"].add(r["sig"])
            rp = {"family": "script", "member": m, "script": member_text(m),
                  "how": "python3 checks/c32.py --replay <this file>"}
            if r["ld_rc"] != 0:
                counts["ld_rejected"] += 1
                reason = wild_error_class(r.get("ld_err", "").split("ld:")[-1])
                ld_reject_reasons[reason] = ld_reject_reasons.get(reason, 0) + 1
                if r["wild_rc"] == 0:
                    counts["wild_accepts_ld_rejects"] += 1
                else:
                    counts["both_rejected"] += 1
            elif r["wild_rc"] != 0:
                counts["wild_rejected_ld_accepts"] += 1
                cls = "panic" if r["wild_rc"] == 101 else wild_error_class(r.get("wild_err", ""))
                cls = f"{m[0]}/{m[3]}: {cls}"
                wild_reject_reasons[cls] = wild_reject_reasons.get(cls, 0) + 1
                # A failed link produces no shared object, so the statement (about the output) says
                # nothing: counted and listed in the evidence, never a violation -- except a panic.
                if r["wild_rc"] not in (1,):
                    chk.violation(f"wild-crashes:{m[0]}",
                                  f"wild rc={r['wild_rc']} on a script GNU ld links: "
                                  f"{r.get('wild_err', '')[:200]} script: {member_text(m)!r}", rp)
                elif len(wild_reject_examples) < 5 and cls not in {c for c, _s in
                                                                   wild_reject_examples}:
                    wild_reject_examples.append((cls, member_text(m)))
            else:
                counts["compared"] += 1
                sigs.add(r["sig"])
            for k in r.get("model_vs_ld", []):
                model_vs_ld[k] = model_vs_ld.get(k, 0) + 1
            if "soname_rejected" in r:
                cls = "with -soname: " + wild_error_class(r["soname_rejected"])
                wild_reject_reasons[cls] = wild_reject_reasons.get(cls, 0) + 1
            for key, what in r["viol"]:
                chk.violation(key, f"{what}; script: {member_text(m)!r}", rp)
        # ---- verneed family
        try:
            vd, n = prepare_verneed(base)
        except RuntimeError as ex:
            chk.machinery(str(ex))
        nsub += n
        vres = wildrun.pmap(run_verneed_member, [(vd, i, m) for i, m in enumerate(vfam)],
                            chunksize=4)
        vcompared = 0
        for r in vres:
            m = vfam[r["idx"]]
            nsub += r["nsub"]
            rp = {"family": "verneed", "member": m,
                  "how": "python3 checks/c32.py --replay <this file>"}
            if r["ld_rc"] != 0:
                chk.machinery(f"GNU ld rejects verneed member {m}: {r.get('ld_err')}")
            if r["wild_rc"] != 0:
                cls = f"verneed/{m[1]}: " + wild_error_class(r.get("wild_err", ""))
                wild_reject_reasons[cls] = wild_reject_reasons.get(cls, 0) + 1
                counts["wild_rejected_ld_accepts"] += 1
                if r["wild_rc"] != 1:
                    chk.violation(f"wild-crashes:verneed:{m[1]}",
                                  f"wild rc={r['wild_rc']} on verneed member {m}: "
                                  f"{r.get('wild_err', '')[:200]}", rp)
                continue
            vcompared += 1
            vsigs.add(r["sig"])
            for k in r.get("model_vs_ld", []):
                model_vs_ld[k] = model_vs_ld.get(k, 0) + 1
            for key, what in r["viol"]:
                chk.violation(key, what, rp)
    if counts["compared"] < len(fam) // 2:
        chk.machinery(f"only {counts['compared']} of {len(fam)} scripts were comparable")
    chk.coverage = {
        "evaluations": counts["compared"] + vcompared,
        "distinct_nontrivial": len(sigs) + len(vsigs),
        "distinct_nontrivial_meaning": "distinct per-symbol outcome vectors (exported?, version, "
                                       "hidden bit) in GNU ld's outputs (scripts) + distinct "
                                       "(undefined-symbol versions, requirement table) outcomes "
                                       "(verneed family)",
        "scripts_enumerated": len(fam), "scripts_by_shape": per_shape,
        "scripts_compared": counts["compared"],
        "scripts_dropped_gnu_ld_rejects": counts["ld_rejected"],
        "gnu_ld_reject_reasons": ld_reject_reasons,
        "scripts_wild_rejects_but_gnu_ld_accepts": counts["wild_rejected_ld_accepts"],
        "wild_reject_reasons": wild_reject_reasons,
        "wild_reject_examples": wild_reject_examples,
        "scripts_wild_accepts_but_gnu_ld_rejects": counts["wild_accepts_ld_rejects"],
        "structure_rules_flagging_gnu_ld_output_excluded": model_vs_ld,
        "part_B_catch_all_and_repeated_patterns": dict(
            part_b, distinct_gnu_ld_outcomes=len(part_b["distinct_gnu_ld_outcomes"])),
        "verneed_members": len(vfam), "verneed_compared": vcompared,
        "subprocesses": nsub,
        "rule": __doc__.split("Family (stated", 1)[1].strip()[:4000],
        "samples": [{"script": member_text(fam[i])} for i in
                    sorted({0, len(fam) // 3, len(fam) // 2, len(fam) - 1})] +
                   [{"script": member_text(m)} for m in
                    [x for x in fam if is_dup(x) and x[1] == 2][:400:133]] +
                   [{"verneed": list(vfam[len(vfam) // 2])}],
        "exhaustive": True,
        "thinned": "patterns inside one list are always in index order (no permutations); lists "
                   "hold <= 2 patterns in multi-node scripts; dependency forms and 3-node scripts "
                   "as stated in the rule; quick tier, part A: the 3-patterns-in-2-nodes scripts "
                   "are limited to those using both nodes with two patterns that can meet on a "
                   "symbol; part B: one rule class repeated per script, context <= 1 pattern "
                   "(k=2) / none (k=1, k=3), both forms in one node only for k=1, scripts GNU ld "
                   "is known to reject (crossed) only for k=2 without context",
    }
    chk.assumptions = [
        "GNU ld 2.40 is the reference for matching precedence; scripts it rejects are dropped "
        "(counted)",
        "a script that wild refuses with a diagnostic produces no output and is outside the "
        "statement: counted (scripts_wild_rejects_but_gnu_ld_accepts, wild_reject_reasons), not a "
        "violation; a crash is reported",
        "a symbol's state is read from .dynsym/.gnu.version with elfread; GNU ld's absolute "
        "version-name symbols (V1, V2, ...) are not part of the comparison",
        "internal consistency is judged from wild's output alone (own table walker)",
    ]
    chk.finish()


if __name__ == "__main__":
    main()
