#!/usr/bin/env python3
"""C33 - --wrap redirects references exactly as GNU ld does.

Bounded-exhaustive family of x86-64 programs, every member linked by the real wild (in-process
server) and by GNU ld 2.40 with the same inputs and the same command line
(`--wrap=S [--wrap=T] main.o [a.o] b.o c.o [libl.so] [liba.so] --start-group [liba.a] [libm.a]
--end-group`).

Base family (one wrapped symbol S):
  D  where S is defined   obj (a.o) | arch (liba.a(a.o), member also pulled by main's reference to
                          anchor_A) | lazy (liba.a(a.o), only a reference to S / __real_S can pull
                          it) | so (liba.so) | undef (nowhere; a.o exists without S)
  W  __wrap_S defined     yes (in b.o) | no
  R  __real_S referenced  from b.o | from a.o | nowhere
  X  S referenced from    A (a.o: the defining object unless D=undef) | C (c.o) | M (libm.a(m.o),
                          pulled by main) | L (libl.so, a prebuilt shared library with an
                          undefined S)
  bind                    strong | weak   (binding of the definition; for D=undef: of every
                          reference to S and __real_S)
  out                     exe (non-PIE) | pie | shared (-shared: undefined symbols are allowed and
                          default-visibility definitions are preemptible, so bindings show as
                          the NAME the dynamic relocation refers to)
  (D=so with X=A or R=A is not applicable - those sites would live inside liba.so - and dropped.)
Interaction family (--wrap=S --wrap=T): b.o defines __wrap_S and __wrap_T and refers to S, T
(and, axis, to __real_S, __real_T); a.o and c.o refer to S and T; D(S) x bind x D(T) in {a.o, c.o,
undef(weak refs)} x real refs {yes,no} x out.
Thorough tier: x symbol type {func, object} x {default flags, --gc-sections, --no-gc-sections}.

Every definition starts with a 5-byte marker (func: `mov $0x4d52<id>,%eax`), every reference site
is a tagged word pair `.quad SITE|id, <symbol>` in a data section that its object's definitions
keep alive (wild collects garbage by default).
Observable (static, independent of the outputs' .symtab): the output image is scanned for site
tags; the word after a tag is resolved to the marker found at the address it holds (directly, or
through its R_X86_64_RELATIVE / RELR relocation), or to the name of the dynamic symbol its dynamic
relocation (or canonical PLT / copied symbol) refers to, or zero, or absent (object not loaded).
For X=L the site is in libl.so: the observable is what the output's .dynsym offers under the name
S (marker of the definition / undefined / absent).
Oracle: GNU ld on the same member: link status and the binding of every site must be equal."""
import itertools
import json
import os
import re
import subprocess
import sys
import time

sys.path.insert(0, os.path.join(os.path.dirname(os.path.abspath(__file__)), "..", "lib"))
import vlib
import wildrun
import elfread
import elfgen
import bindkit

DS = ["obj", "arch", "lazy", "so", "undef"]
WS = [1, 0]
RS = ["B", "A", "none"]
XS = ["A", "C", "M", "L"]
BINDS = ["strong", "weak"]
OUTS = ["exe", "pie", "shared"]
STYPS = ["func", "object"]
GCS = ["default", "--gc-sections", "--no-gc-sections"]
DTS = ["A", "C", "undef"]

MARK = {("A", "S"): 1, ("A", "T"): 2, ("B", "__wrap_S"): 3, ("B", "__wrap_T"): 4, ("C", "T"): 5,
        ("SO", "S"): 6, ("A", "anchor_A"): 10, ("B", "anchor_B"): 11, ("C", "anchor_C"): 12,
        ("M", "anchor_M"): 13, ("L", "anchor_L"): 14, ("SO", "anchor_SO"): 15}
MARK_NAME = {v: f"{k[0]}:{k[1]}" for k, v in MARK.items()}
SITE = {("A", "S"): 1, ("A", "__real_S"): 2, ("B", "__real_S"): 3, ("C", "S"): 4, ("M", "S"): 5,
        ("L", "S"): 6, ("B", "S"): 7, ("B", "T"): 8, ("B", "__real_T"): 9, ("A", "T"): 10,
        ("C", "T"): 11}
SITE_NAME = {v: f"{k[0]}->{k[1]}" for k, v in SITE.items()}


# ------------------------------------------------------------------------------------ objects
def build_obj(role, defs, sites, styp, weak_refs=False):
    """defs: [(name, 'strong'|'weak')] (anchor_<role> is added, always a strong function);
    sites: [target symbol name]. -> bytes"""
    o = elfgen.ElfObject("x86_64")
    sdata = bytearray(8)
    for tgt in sites:
        sdata += (bindkit.SITE_TAG | SITE[(role, tgt)]).to_bytes(8, "little") + bytes(8)
    ssec = o.section(".data.sites", flags=elfgen.SHF_ALLOC | elfgen.SHF_WRITE, align=8,
                     data=bytes(sdata))
    slocal = o.symbol(f"sites_{role}", section=ssec, bind=elfgen.STB_LOCAL, type=elfgen.STT_OBJECT)
    funcs = [(f"anchor_{role}", "strong")] + (defs if styp == "func" else [])
    objs = defs if styp == "object" else []
    code = bytearray()
    for name, _b in funcs:
        code += bindkit.marker_bytes(MARK[(role, name)]) + b"\x48\x8d\x15\0\0\0\0\xc3\xcc\xcc\xcc"
    t = o.section(".text", flags=elfgen.SHF_ALLOC | elfgen.SHF_EXECINSTR, align=16,
                  data=bytes(code))
    syms = {}
    for k, (name, b) in enumerate(funcs):
        syms[name] = o.symbol(name, section=t, value=16 * k, size=16, type=elfgen.STT_FUNC,
                              bind=elfgen.STB_WEAK if b == "weak" else elfgen.STB_GLOBAL)
        o.reloc(t, 16 * k + 8, 2, slocal, -4)               # R_X86_64_PC32
    if objs:
        ddata = bytearray()
        for name, _b in objs:
            ddata += bindkit.marker_bytes(MARK[(role, name)]) + bytes(11)
        dsec = o.section(".data.defs", flags=elfgen.SHF_ALLOC | elfgen.SHF_WRITE, align=16,
                         data=bytes(ddata))
        for k, (name, b) in enumerate(objs):
            syms[name] = o.symbol(name, section=dsec, value=16 * k, size=16, type=elfgen.STT_OBJECT,
                                  bind=elfgen.STB_WEAK if b == "weak" else elfgen.STB_GLOBAL)
            o.reloc(dsec, 16 * k + 8, 1, slocal, 0)          # R_X86_64_64
    for k, tgt in enumerate(sites):
        if tgt not in syms:
            syms[tgt] = o.symbol(tgt, bind=elfgen.STB_WEAK if weak_refs else elfgen.STB_GLOBAL)
        o.reloc(ssec, 8 + 16 * k + 8, 1, syms[tgt], 0)      # R_X86_64_64
    o.note_gnu_stack()
    return o.to_bytes()


def obj_asm(role, defs, sites, styp, weak_refs=False):
    """Assembler source equivalent to build_obj (for hand reproduction)."""
    out = []
    funcs = [(f"anchor_{role}", "strong")] + (defs if styp == "func" else [])
    objs = defs if styp == "object" else []
    out.append(".text\n.p2align 4")
    for name, b in funcs:
        out.append(f".{'weak' if b == 'weak' else 'globl'} {name}\n.type {name},@function\n"
                   f"{name}: mov $0x4d52{MARK[(role, name)]:04x}, %eax\n lea sites_{role}(%rip), "
                   f"%rdx\n ret\n .p2align 4, 0xcc\n.size {name}, 16")
    if objs:
        out.append('.section .data.defs,"aw"\n.p2align 4')
        for name, b in objs:
            out.append(f".{'weak' if b == 'weak' else 'globl'} {name}\n.type {name},@object\n"
                       f"{name}: .byte 0xb8\n .short {MARK[(role, name)]}\n .ascii \"RM\"\n"
                       f" .zero 3\n .quad sites_{role}\n.size {name}, 16")
    out.append(f'.section .data.sites,"aw"\n.p2align 3\nsites_{role}: .quad 0')
    for tgt in sites:
        if weak_refs and tgt not in [d for d, _b in defs]:
            out.append(f".weak {tgt}")
        out.append(f" .quad {hex(bindkit.SITE_TAG | SITE[(role, tgt)])}, {tgt}")
    out.append('.section .note.GNU-stack,"",@progbits')
    return "\n".join(out) + "\n"


def build_main(anchors):
    o = elfgen.ElfObject("x86_64")
    code = bytearray()
    for _a in anchors:
        code += b"\x48\x8b\x05\0\0\0\0"                # mov anchor@GOTPCREL(%rip), %rax
    code += b"\xc3"
    t = o.section(".text", flags=elfgen.SHF_ALLOC | elfgen.SHF_EXECINSTR, align=16,
                  data=bytes(code))
    o.symbol("_start", section=t, value=0, size=len(code), type=elfgen.STT_FUNC)
    for k, a in enumerate(anchors):
        o.reloc(t, 7 * k + 3, 9, o.symbol(a), -4)   # R_X86_64_GOTPCREL
    o.note_gnu_stack()
    return o.to_bytes()


def main_asm(anchors):
    return (".globl _start\n.text\n_start:\n" + "".join(f" mov {a}@GOTPCREL(%rip), %rax\n" for a in anchors)
            + ' ret\n.section .note.GNU-stack,"",@progbits\n')


# ------------------------------------------------------------------------------------ members
def plan(m):
    """member -> dict(objs {role: (defs, sites, weak_refs)}, archives {name: role}, dsos [...],
    main anchors, wraps, cmdline template)."""
    fam = m[0]
    objs, dso = {}, {}
    if fam == "base":
        _f, D, W, R, X, bind, out, styp, gc = m
        weak_refs = D == "undef" and bind == "weak"
        a_defs = [("S", bind)] if D in ("obj", "arch", "lazy") else []
        a_sites = (["S"] if X == "A" else []) + (["__real_S"] if R == "A" else [])
        if D != "so":
            objs["A"] = (a_defs, a_sites, weak_refs)
        else:
            dso["SO"] = ([("S", bind)], [], False)
        objs["B"] = ([("__wrap_S", "strong")] if W else [], ["__real_S"] if R == "B" else [],
                     weak_refs)
        objs["C"] = ([], ["S"] if X == "C" else [], weak_refs)
        if X == "M":
            objs["M"] = ([], ["S"], weak_refs)
        if X == "L":
            dso["L"] = ([], ["S"], weak_refs)
        wraps = ["S"]
    else:
        _f, D, bind, DT, real, out, styp, gc = m
        weak_s = D == "undef" and bind == "weak"
        # one weak_refs flag per object: weak when either wrapped symbol is undefined everywhere
        weak_refs = weak_s or DT == "undef"
        a_defs = ([("S", bind)] if D in ("obj", "arch", "lazy") else []) + \
                 ([("T", "strong")] if DT == "A" else [])
        if D != "so":
            objs["A"] = (a_defs, ["S", "T"], weak_refs)
        else:
            dso["SO"] = ([("S", bind)], [], False)
        objs["B"] = ([("__wrap_S", "strong"), ("__wrap_T", "strong")],
                     ["S", "T"] + (["__real_S", "__real_T"] if real else []), weak_refs)
        objs["C"] = ([("T", "strong")] if DT == "C" else [], ["S", "T"], weak_refs)
        wraps = ["S", "T"]
    arch = {}
    files = ["main.o"]
    anchors = ["anchor_B", "anchor_C"]
    if "A" in objs:
        if D in ("arch", "lazy"):
            arch["liba.a"] = "A"
        else:
            files.append("a.o")
        if D != "lazy":
            anchors.insert(0, "anchor_A")
    files += ["b.o", "c.o"]
    if "M" in objs:
        arch["libm.a"] = "M"
        anchors.append("anchor_M")
    files += [f"lib{r.lower()}.so" if r == "L" else "liba.so" for r in dso]
    if arch:
        files += ["--start-group"] + sorted(arch) + ["--end-group"]
    flags = [f"--wrap={w}" for w in wraps] + ({"pie": ["-pie"], "shared": ["-shared"]}.get(out, [])) + \
            ([gc] if gc != "default" else [])
    return dict(objs=objs, dso=dso, arch=arch, anchors=anchors, files=files, flags=flags,
                styp=styp, wraps=wraps)


FILE_OF = {"A": "a.o", "B": "b.o", "C": "c.o", "M": "m.o"}
DSO_CACHE = os.path.join(vlib.VERIF, ".build", "refcache", "c33-dso")


def input_key(kind, spec, styp):
    return vlib.sha(repr((kind, spec, styp)))[:16]


def materialise(m, base, made):
    """Write the inputs of member m below base/in (content-addressed; `made` memoises).
    -> (argv without -o, number of subprocesses spawned)."""
    p = plan(m)
    nsub = 0
    ind = os.path.join(base, "in")
    os.makedirs(ind, exist_ok=True)
    paths = {}

    def obj(role, spec, pic_so=False):
        nonlocal nsub
        k = input_key(role, spec, p["styp"])
        path = os.path.join(ind, f"{role}_{k}.o")
        if path not in made:
            with open(path, "wb") as f:
                f.write(build_obj(role, list(spec[0]), list(spec[1]), p["styp"], spec[2]))
            made.add(path)
        return path

    mk = input_key("main", tuple(p["anchors"]), "")
    mp = os.path.join(ind, f"main_{mk}.o")
    if mp not in made:
        with open(mp, "wb") as f:
            f.write(build_main(p["anchors"]))
        made.add(mp)
    paths["main.o"] = mp
    for role, spec in p["objs"].items():
        op = obj(role, spec)
        if role in p["arch"].values():
            an = [n for n, r in p["arch"].items() if r == role][0]
            ap = op[:-2] + ".a"
            if ap not in made:
                with open(op, "rb") as f:
                    data = f.read()
                bindkit.write_ar(ap, [(FILE_OF[role], data, [f"anchor_{role}"] +
                                       [d for d, _b in spec[0]])])
                made.add(ap)
            paths[an] = ap
        else:
            paths[FILE_OF[role]] = op
    for role, spec in p["dso"].items():
        op = obj(role, spec)
        soname = "libl.so" if role == "L" else "liba.so"
        sp = op[:-2] + ".so"
        if sp not in made:
            # Prebuilt once by GNU ld (a tool here, not the referee); both linkers get this file.
            cached = os.path.join(DSO_CACHE, bindkit.file_digest(op)[:24] + ".so")
            if not os.path.exists(cached):
                os.makedirs(DSO_CACHE, exist_ok=True)
                r = subprocess.run(["ld", "-shared", "-soname", soname, op, "-o",
                                    cached + f".{os.getpid()}"], stdout=subprocess.PIPE,
                                   stderr=subprocess.PIPE)
                nsub += 1
                if r.returncode != 0:
                    raise RuntimeError(f"building {soname} failed: {r.stderr.decode()}")
                os.replace(cached + f".{os.getpid()}", cached)
            with open(cached, "rb") as f, open(sp, "wb") as g:
                g.write(f.read())
            made.add(sp)
        paths[soname] = sp
    argv = p["flags"] + [paths.get(f, f) for f in p["files"]]
    return argv, nsub


def describe(m):
    if m[0] == "base":
        _f, D, W, R, X, bind, out, styp, gc = m
        return {"family": "base", "S_defined_in": D, "wrap_S_defined": bool(W),
                "real_S_referenced_from": R, "S_referenced_from": X, "binding": bind,
                "output": out, "symbol_type": styp, "gc_flag": gc}
    _f, D, bind, DT, real, out, styp, gc = m
    return {"family": "two-wraps", "S_defined_in": D, "binding": bind, "T_defined_in": DT,
            "real_refs": bool(real), "output": out, "symbol_type": styp, "gc_flag": gc}


# ------------------------------------------------------------------------------------ observation
def show(t):
    if t[0] == "mark":
        return "def:" + MARK_NAME.get(t[1], f"?marker{t[1]}")
    if t[0] == "name":
        return "dyn:" + t[1]
    return ":".join(str(x) for x in t)


def observe(path, m):
    """-> {site name: binding string}"""
    img = bindkit.Image(path)
    out = {}
    for sid, addrs in sorted(bindkit.find_sites(img.e).items()):
        name = SITE_NAME.get(sid, f"?site{sid}")
        if len(addrs) != 1:
            out[name] = f"site-found-{len(addrs)}-times"
            continue
        out[name] = show(img.target(addrs[0]))
    p = plan(m)
    if "L" in p["dso"]:
        ent = [s for s in img.e.symbols(".dynsym") if s.name == "S"]
        if not ent or ent[0].shndx == elfread.SHN_UNDEF:
            out["L->S(dynsym of output)"] = "not-defined-here"
        else:
            out["L->S(dynsym of output)"] = show(img._addr_target(ent[0].value))
    return out


REF_SCHEMA = "c33-v2"
REF_CACHE = os.path.join(vlib.VERIF, ".build", "refcache", "c33")
USE_CACHE = os.environ.get("VERIF_NO_REFCACHE", "") == ""


def gnu_side(argv, m, d, ldver, use_cache):
    files = [a for a in argv if a.startswith("/")]
    flags = [a for a in argv if not a.startswith("/")]
    key = bindkit.ref_key(REF_SCHEMA, ldver, flags, files, repr(m))
    if use_cache:
        val = bindkit.ref_get(REF_CACHE, key)
        if val is not None:
            return val, 0
    gout = os.path.join(d, "gnu.out")
    r = subprocess.run(["ld", *argv, "-o", gout], cwd=d, stdout=subprocess.PIPE,
                       stderr=subprocess.PIPE)
    val = {"rc": r.returncode, "msg": r.stderr.decode("utf-8", "replace")[-600:]}
    if r.returncode == 0:
        try:
            val["obs"] = observe(gout, m)
        except elfread.ElfError as ex:
            val["obs_error"] = str(ex)
    if use_cache and "obs_error" not in val:
        bindkit.ref_put(REF_CACHE, key, val)
    return val, 1


SYMS = ["__wrap_S", "__real_S", "__wrap_T", "__real_T", "S", "T"]


def mentioned(msg):
    found = []
    for s in SYMS:
        if re.search(r"(?<![A-Za-z0-9_])" + re.escape(s) + r"(?![A-Za-z0-9_])", msg):
            found.append(s)
    return "+".join(found) or "none"


def site_role(site, m):
    D = m[1]
    two = "two:" if m[0] == "two" else ""
    src, tgt = site.split("->")
    tgt = tgt.split("(")[0]
    if tgt.startswith("__real_"):
        kind = "real"
        role = {"B": "ref-from-wrapper-object", "A": "ref-from-object-A"}[src]
    else:
        kind = "wrap"
        role = {"A": "ref-from-defining-object" if D in ("obj", "arch", "lazy") and tgt == "S"
                or (m[0] == "two" and tgt == "T" and m[3] == "A") else "ref-from-object-A",
                "B": "ref-from-wrapper-object",
                "C": "ref-from-defining-object" if m[0] == "two" and tgt == "T" and m[3] == "C"
                else "ref-from-other-object",
                "M": "ref-from-archive-member", "L": "ref-from-shared-library"}[src]
    return f"{two}{kind}:{role}:{tgt}"


def run_member(item):
    base, m, argv, keep, ldver = item
    d = os.path.join(base, keep) if keep else os.path.join(base, f"w{os.getpid()}")
    os.makedirs(d, exist_ok=True)
    wout = os.path.join(d, "wild.out")
    for p in (wout, os.path.join(d, "gnu.out")):
        try:
            os.unlink(p)
        except OSError:
            pass
    res = dict(m=m, viol=[], status="ok", g=None, w=None)
    gv, res["nsub"] = gnu_side(argv, m, d, ldver, USE_CACHE and not keep)
    wrc, wmsg = wildrun.server_link(argv + ["-o", wout], cwd=d)
    if "obs_error" in gv:
        res["status"] = "machinery"
        res["msg"] = f"GNU ld output unreadable: {gv['obs_error']}"
        return res
    if gv["rc"] != 0 and wrc != 0:
        res["status"] = "both-reject"
        return res
    if gv["rc"] != 0:
        res["status"] = "gnu-rejects-wild-accepts"
        res["viol"].append((f"status:gnu-rejects-wild-accepts:gnu-complains-about="
                            f"{mentioned(gv['msg'])}",
                            f"GNU ld: {gv['msg'][-300:]!r}; wild linked it"))
        try:
            res["w"] = observe(wout, m)
        except elfread.ElfError:
            pass
        return res
    if wrc != 0:
        res["status"] = "gnu-accepts-wild-rejects"
        res["viol"].append((f"status:gnu-accepts-wild-rejects:wild-complains-about="
                            f"{mentioned(wmsg)}:rc={wrc}",
                            f"wild: {wmsg[-300:]!r}; GNU ld linked it with bindings {gv['obs']}"))
        res["g"] = gv["obs"]
        return res
    g = gv["obs"]
    try:
        w = observe(wout, m)
    except elfread.ElfError as ex:
        res["viol"].append(("output-malformed", str(ex)))
        return res
    res["g"], res["w"] = g, w
    weak_refs = (m[0] == "base" and m[1] == "undef" and m[5] == "weak") or \
                (m[0] == "two" and ((m[1] == "undef" and m[2] == "weak") or m[3] == "undef"))
    res["weak_policy"] = []
    for site in sorted(set(g) | set(w)):
        gb, wb = g.get(site, "absent"), w.get(site, "absent")
        if gb == "zero" and wb.startswith("dyn:") and weak_refs:
            # An unresolved weak reference: GNU ld stores 0 in an executable, wild leaves a
            # dynamic relocation that finds nothing at load time. That policy is not C33's
            # business; the name wild looks up is recorded in the coverage.
            res["weak_policy"].append(f"{site} {wb}")
            continue
        if gb != wb:
            res["viol"].append((f"{site_role(site, m)}:gnu={gb}:wild={wb}",
                                f"site {site}: GNU ld binds it to {gb}, wild to {wb}"))
    return res


# ------------------------------------------------------------------------------------ families
def family(thorough):
    fam = []
    na = 0
    variants = list(itertools.product(STYPS, GCS)) if thorough else [("func", "default")]
    for styp, gc in variants:
        for D, W, R, X, bind, out in itertools.product(DS, WS, RS, XS, BINDS, OUTS):
            if D == "so" and (X == "A" or R == "A"):
                na += 1
                continue
            fam.append(("base", D, W, R, X, bind, out, styp, gc))
        for D, bind, DT, real, out in itertools.product(DS, BINDS, DTS, (1, 0), OUTS):
            if D == "so" and DT == "A":
                na += 1
                continue
            fam.append(("two", D, bind, DT, real, out, styp, gc))
    return fam, na


AXES = {"base": {"def": 1, "wrapdef": 2, "bind": 5, "out": 6, "type": 7, "gc": 8},
        "two": {"def": 1, "bind": 2, "tdef": 3, "realrefs": 4, "out": 5, "type": 6, "gc": 7}}


def qualify(viols, status):
    """viols: [(base key, what, m)]; status: {member: status}. Every base key gets ONE final key:
    for each axis, if the members showing the key take only some of the values that judged members
    (not rejected by both linkers) of that family take, `:<axis>=<v1|v2..>` is appended. A defect
    that is uniform along an axis is not split along it; one that needs particular values names
    them."""
    allvals = {}
    for e, st in status.items():
        if st == "both-reject":
            continue
        for axis, idx in AXES[e[0]].items():
            allvals.setdefault((e[0], axis), set()).add(e[idx])
    vals = {}
    for key, _what, m in viols:
        for axis, idx in AXES[m[0]].items():
            vals.setdefault((key, axis), set()).add(m[idx])
    out = []
    for key, what, m in viols:
        q = []
        for axis in AXES[m[0]]:
            v = vals[(key, axis)]
            if v != allvals.get((m[0], axis), v):
                q.append(f"{axis}=" + "|".join(str(x) for x in sorted(v, key=str)))
        out.append((key + "".join(":" + x for x in q), what, m))
    return out


def replay_dict(m, argv):
    p = plan(m)
    d = describe(m)
    d["member"] = list(m)
    src = {"main.s": main_asm(p["anchors"])}
    for role, spec in list(p["objs"].items()) + list(p["dso"].items()):
        src[{"SO": "a_so.s", "L": "l_so.s"}.get(role, FILE_OF.get(role, role)[:-2] + ".s")] = \
            obj_asm(role, list(spec[0]), list(spec[1]), p["styp"], spec[2])
    d["sources"] = src
    d["command"] = " ".join(p["flags"] + p["files"])
    d["how"] = ("python3 checks/c33.py --replay <this file>; by hand: gcc -c *.s; "
                "ar rc liba.a a.o / ar rc libm.a m.o as the command names them; "
                "ld -shared -soname liba.so a_so.o -o liba.so; ld -shared -soname libl.so l_so.o "
                "-o libl.so; /verif/.build/bin/wild <command> -o w.out; ld <command> -o g.out; "
                "in both outputs find the SITE tags (0x53495445000000NN) in .data and compare the "
                "word that follows (objdump -s -j .data; nm -n; readelf -r)")
    return d


def replay(chk):
    with open(chk.args.replay) as f:
        doc = json.load(f)
    m = tuple(doc["replay"]["member"])
    base = os.path.join("/dev/shm", f"verif.c33replay.{os.getpid()}")
    os.makedirs(base, exist_ok=True)
    argv, _n = materialise(m, base, set())
    res = run_member((base, m, argv, "replay", bindkit.ld_version()))
    print("directory:", os.path.join(base, "replay"))
    print("wild:", vlib.WILD, " ".join(argv), "-o wild.out")
    print("GNU : ld", " ".join(argv), "-o gnu.out")
    print("status:", res["status"], res.get("msg", ""))
    print("GNU ld bindings:", res["g"])
    print("wild bindings  :", res["w"])
    for k, w in res["viol"]:
        print("VIOLATION", k, w)
    hit = any(doc["key"] == k or doc["key"].startswith(k + ":") for k, _w in res["viol"])
    print("REPRODUCED" if hit else "not reproduced")
    sys.exit(1 if hit else 0)


def main():
    chk = vlib.Check("C33", "exploration")
    if not chk.args.no_build:
        vlib.build("wild")
    if chk.args.replay:
        replay(chk)
    fam, n_na = family(chk.thorough)
    if chk.seed:
        import random
        random.Random(chk.seed).shuffle(fam)
    stats = dict(both_reject=0, both_accept=0, gnu_rejects_wild_accepts=0,
                 gnu_accepts_wild_rejects=0, sites_compared=0, ref_cached=0)
    nsub = 1
    outcomes = set()
    binding_values = {}
    samples = []
    viols = []
    weak_policy = {}
    per_out = {}
    status_of = {}
    with vlib.scratch("c33") as base:
        made = set()
        items = []
        ldver = bindkit.ld_version()
        argvs = {}
        for m in fam:
            argv, n = materialise(m, base, made)
            nsub += n
            argvs[m] = argv
            items.append((base, m, argv, None, ldver))
        results = wildrun.pmap(run_member, items, chunksize=4)
        for res in results:
            m = res["m"]
            nsub += res["nsub"]
            stats["ref_cached"] += res["nsub"] == 0
            if res["status"] == "machinery":
                chk.machinery(f"{res['msg']} on {describe(m)}")
            st = res["status"]
            status_of[m] = st
            per_out.setdefault(describe(m)["output"], {}).setdefault(st, 0)
            per_out[describe(m)["output"]][st] += 1
            if st == "both-reject":
                stats["both_reject"] += 1
            elif st == "gnu-rejects-wild-accepts":
                stats["gnu_rejects_wild_accepts"] += 1
            elif st == "gnu-accepts-wild-rejects":
                stats["gnu_accepts_wild_rejects"] += 1
            else:
                stats["both_accept"] += 1
            g = res["g"] or {}
            stats["sites_compared"] += len(g)
            for site, b in g.items():
                binding_values.setdefault(site, set()).add(b)
            # non-trivial: GNU ld accepted the member and at least one site is bound to something
            # other than a plain same-name definition (i.e. --wrap changed the outcome), or the
            # link status itself is the observation (GNU ld rejects)
            sig = (m, st, tuple(sorted(g.items())))
            if st != "ok" or any(("__wrap_" in b) or (s.split("->")[1].startswith("__real_"))
                                 for s, b in g.items()):
                outcomes.add(sig)
            for key, what in res["viol"]:
                viols.append((key, what, m))
            for wp in res.get("weak_policy", []):
                weak_policy[wp] = weak_policy.get(wp, 0) + 1
            if len(samples) < 3 and g and len(g) >= 2 and any("__wrap_" in b for b in g.values()) \
                    and (not samples or samples[-1]["family"] != describe(m)["family"]):
                samples.append(dict(describe(m), command=" ".join(plan(m)["flags"] +
                                                                   plan(m)["files"]),
                                    gnu_ld_bindings=g, wild_bindings=res["w"]))
        for key, what, m in qualify(viols, status_of):
            chk.violation(key, f"{what}; member {describe(m)}", replay_dict(m, argvs[m]))
    for o, d in per_out.items():
        if d.get("ok", 0) * 4 < sum(d.values()):
            chk.machinery(f"output kind {o}: only {d.get('ok', 0)} of {sum(d.values())} members "
                          f"are accepted by both linkers - the family is vacuous there: {d}")
    if not samples:
        samples.append(describe(fam[0]))
    chk.coverage = {
        "evaluations": len(fam),
        "distinct_nontrivial": len(outcomes),
        "rule": "member = (family, where S is defined, __wrap_S defined?, where __real_S is "
                "referenced, where S is referenced, binding, output kind, symbol type, gc flag) "
                "resp. the two-wraps tuple; every member is linked by wild and by GNU ld; "
                "non-trivial = GNU ld rejects it (status is the observation) or some site is bound "
                "to a __wrap_ definition or is a __real_ reference; distinct = distinct (member, "
                "status, GNU ld bindings)",
        "samples": samples,
        "exhaustive": True,
        "family": "base: 5 def sites x 2 x 3 x 4 ref sites x 2 bindings x 3 outputs (minus "
                  "not-applicable: D=so with X=A or R=A); two-wraps: 5 x 2 x 3 x 2 x 3 (minus "
                  "D=so & T in a.o)" + ("; x {func,object} x {default,--gc-sections,"
                                        "--no-gc-sections}" if chk.thorough else
                                        "; symbol type func, default flags"),
        "thinning": "none" if chk.thorough else "symbol type func and default gc flag only",
        "not_applicable_dropped": n_na,
        "gnu_ld_verdicts": len(fam), "wild_links": len(fam),
        "gnu_ld_verdicts_from_cache": stats["ref_cached"],
        "gnu_ld_cache": "GNU ld's status and observation per member are memoised on (ld version, "
                        "flags, input bytes) under .build/refcache/c33 (VERIF_NO_REFCACHE=1 "
                        "disables); wild is never cached",
        "subprocesses": nsub,
        "both_accept": stats["both_accept"], "both_reject": stats["both_reject"],
        "gnu_rejects_wild_accepts": stats["gnu_rejects_wild_accepts"],
        "gnu_accepts_wild_rejects": stats["gnu_accepts_wild_rejects"],
        "sites_compared": stats["sites_compared"],
        "status_per_output_kind": per_out,
        "unresolved_weak_sites_gnu_zero_wild_dynamic_lookup_not_judged": weak_policy,
        "bindings_seen_per_site_in_gnu_ld": {k: sorted(v) for k, v in binding_values.items()},
    }
    chk.assumptions = [
        "GNU ld 2.40 is the referee for link status and for every binding",
        "a binding is identified by the marker at the address the word refers to, or by the name "
        "of the dynamic symbol when the word is resolved at load time; whether a load-time "
        "binding is expressed as a dynamic relocation, a canonical PLT entry or a copy relocation "
        "is not compared",
        "libl.so / liba.so are prebuilt once by GNU ld and given unchanged to both linkers",
    ]
    chk.finish()


if __name__ == "__main__":
    main()
