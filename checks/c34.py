#!/usr/bin/env python3
"""C34 - linker-diff is quiet on equal binaries and catches broken relocations.

Subjects: 4 small x86-64 programs (C compiled with gcc + one assembly file with the relocation
kinds compilers do not emit: calls, data pointers, pointer tables in .data/.rodata/.data.rel.ro,
jump tables, strings, GOT/PLT, all TLS models, IFUNC, init/fini arrays, a shared-library
dependency) x 3 output kinds (static / PIE / -shared; non-PIE dynamic for the program with the
library), linked by the real wild as a subprocess with WILD_WRITE_LAYOUT=1 WILD_WRITE_TRACE=1 and
by GNU ld (reference); thorough adds 4 AArch64 pairs (wild vs ld.lld).

(a) quiet: `linker-diff [--wild-defaults] --ref X X` and `--ref X copy-of-X` (side files copied)
    must exit 0 for every subject.
(b) catches: every RELA record of every input section that wild's .layout file places in the
    output is a site; for each site every materialisation of the reference in the output (the
    relocated field itself; the GOT slot it loads; the GOT/.got.plt slot behind its PLT stub; the
    dynamic relocation that fills the field) is redirected ALONE, in a copy of wild's binary, to
    {the next function/object, +8, address 0}, and
    `linker-diff --wild-defaults --ref <GNU ld output> <corrupted copy>` must report a problem.
    A corruption that goes unreported is a violation keyed
    missed:<section[>got|>gotplt]>:<relocation>:<referent class>:<mechanism>:<redirection>."""
import collections
import json
import os
import random
import re
import shutil
import struct
import subprocess
import sys
import time

sys.path.insert(0, os.path.join(os.path.dirname(os.path.abspath(__file__)), "..", "lib"))
import vlib
import wildrun
import elfread as E
import ldiffmut as M

# ------------------------------------------------------------------------------------ sources

START_C = r"""
int run(void);
__attribute__((force_align_arg_pointer)) void _start(void) {
  int r = run();
  __asm__ volatile("syscall" :: "a"(60), "D"(r & 0x7f) : "rcx", "r11", "memory");
  for (;;);
}
"""

START_A64 = r"""
int run(void);
void _start(void) {
  register long x0 __asm__("x0") = run() & 0x7f;
  register long x8 __asm__("x8") = 93;
  __asm__ volatile("svc 0" :: "r"(x0), "r"(x8) : "memory");
  for (;;);
}
"""

BASIC_A = r"""
extern int b_val; extern int b_arr[8]; int b_fn(int); int b_fn2(int); int b_sw(int);
extern int *const b_ctab[3];
int g1 = 1, g2; static int s1 = 3; static int sarr[4] = {5,6,7,8}; static int sbss[4];
int arr[8] = {1,2,3,4,5,6,7,8};
int *ptr = &arr[1]; int *ptr2 = &g1; int *ptr3 = &b_arr[2]; static int *sptr = &sarr[1];
__attribute__((noinline)) int f1(int x) { sbss[x&3] += x; return x + g1 + s1 + sarr[x&3] + sbss[1]; }
__attribute__((noinline)) int f2(int x) { return f1(x) * g2 + b_fn(x); }
__attribute__((noinline)) int f3(int x) { sptr++; return x + *ptr + *ptr2 + *ptr3 + sptr[-1] + b_val + *b_ctab[x%3]; }
static __attribute__((noinline)) int sf(int x) { return x * 3 + s1++; }
int (*fp)(int) = f2; int (*fps[3])(int) = { f1, sf, b_fn2 };
__attribute__((noinline)) const char *str(void) { return "hello world"; }
const char *names[] = { "alpha", "beta", "gamma" };
int run(void) {
  int t = 0; g2 = f2(3); t += str()[1]; t += fp(1); t += f3(2);
  for (int i = 0; i < 3; i++) t += fps[i](i) + names[i][0];
  t += b_sw(t & 7); return t + g2;
}
"""

BASIC_B = r"""
extern int g1, arr[8]; int f1(int);
int b_val = 11; int b_arr[8] = {9,8,7,6,5,4,3,2};
int *const b_ctab[3] = { &g1, &arr[3], &b_arr[1] };
int b_fn(int x) { return f1(x) + b_val; }
int b_fn2(int x) { return x ^ b_arr[x & 7]; }
int b_sw(int x) {
  switch (x) {
    case 0: return f1(1); case 1: return b_fn2(2); case 2: return g1; case 3: return arr[2];
    case 4: return b_val * 3; case 5: return 77; case 6: return b_arr[3]; default: return -1;
  }
}
"""

# Compiled with -ffunction-sections -fdata-sections: hidden/protected/weak/common symbols, structs
# with pointer members (addends), pointer-to-pointer, const tables.
SECT_A = r"""
struct node { struct node *next; int *val; int (*fn)(int); const char *name; };
int va = 10, vb = 20, vc[6] = {1,2,3,4,5,6};
__attribute__((visibility("hidden"))) int hid = 5;
__attribute__((visibility("protected"))) int prot = 6;
__attribute__((weak)) int wk = 7;
int com1, com2[4];
static int st1 = 2, st2[3] = {7,8,9};
extern struct node n2, n3;
__attribute__((noinline)) int fa(int x) { return x + va + hid; }
__attribute__((noinline)) int fb(int x) { return x * vb + prot + wk; }
__attribute__((visibility("hidden"), noinline)) int fh(int x) { return x - vc[x & 3] + com1; }
static __attribute__((noinline)) int fs(int x) { st1 += x; return st1 + st2[x % 3] + com2[1]; }
__attribute__((weak, noinline)) int fw(int x) { return x + 100; }
struct node n1 = { &n2, &va, fa, "one" };
struct node n2 = { &n3, &vc[2], fb, "two" };
struct node n3 = { &n1, &st2[1], fs, "three" };
static struct node *const heads[] = { &n1, &n2, &n3 };
int **pp = (int **)&n2.val;
int (*const ftab[])(int) = { fa, fb, fh, fs, fw };
extern int asm_probe(int);
int run(void) {
  int t = 0; const struct node *n = heads[1];
  for (int i = 0; i < 5; i++) { t += ftab[i](i) + *n->val + n->fn(i) + n->name[0]; n = n->next; }
  return t + **pp + asm_probe(t);
}
"""

# Relocation kinds compilers do not emit; `KIND` selects what the output kind can hold.
def sect_asm(kind):
    s = r"""
        .text
        .globl asm_probe
        .type asm_probe,@function
asm_probe:
        movq va@GOTPCREL(%rip), %rax
        movl (%rax), %eax
        movq fa@GOTPCREL(%rip), %rcx
        addl hid(%rip), %eax
        call *fb@GOTPCREL(%rip)
        pushq vb@GOTPCREL(%rip)         # not relaxable: a real GOT slot in every output kind
        popq %rdx
        addl (%rdx), %eax
        pushq hid@GOTPCREL(%rip)
        popq %rdx
        addl (%rdx), %eax
        leaq asm_tab(%rip), %rdx
        addl (%rdx), %eax
        leaq asm_local(%rip), %rdx
        addl (%rdx), %eax
"""
    if kind == "static":
        s += r"""
        movl $vb, %edx
        addl (%rdx), %eax
        movq $vc, %rdx
        addl 4(%rdx), %eax
        movabsq $com1, %rdx
        addl (%rdx), %eax
        movl vc(,%rdi,4), %edx
"""
    else:
        s += r"""
        leaq _GLOBAL_OFFSET_TABLE_(%rip), %rdx
        movabsq $hid@GOTOFF, %rcx
        addl (%rdx,%rcx), %eax
"""
    s += r"""
        ret
        .size asm_probe, .-asm_probe
        # A relaxable GOT-indirect jump that is the LAST instruction of its input section: the
        # window a relaxation may rewrite ends exactly at the end of the section.
        .section .text.asm_tail,"ax",@progbits
        .globl asm_tail
        .hidden asm_tail
        .type asm_tail,@function
asm_tail:
        jmp *fb@GOTPCREL(%rip)
        .size asm_tail, .-asm_tail
        .section .rodata.asm,"a",@progbits
        .globl asm_tab
        .hidden asm_tab
        .type asm_tab,@object
asm_tab:
        .long 17
        .long hid - .
        .long fh - .
        .long asm_local - .
        .long asm_tail - .
        .size asm_tab, .-asm_tab
        .data
        .type asm_local,@object
asm_local:
        .long 3
        .size asm_local, 4
        .globl asm_data
        .type asm_data,@object
        .balign 8
asm_data:
        .quad hid - .
        .quad asm_local + 2
        .quad fh
        .size asm_data, .-asm_data
"""
    return s


TLS_A = r"""
__thread int t1 = 4; __thread int t2; static __thread char tb[45]; static __thread int ts = 7;
extern __thread int t_ext; extern __thread long long t_big[5];
__attribute__((noinline)) int use_tls(void) { tb[3]++; ts++; return t1 + t2 + tb[3] + t_ext + ts + (int)t_big[1]; }
__attribute__((noinline)) int *tls_addr(void) { return &t2; }
static int impl_a(int x) { return x + 1; }
static int impl_b(int x) { return x + 2; }
static void *resolver(void) { return (void *)impl_a; }
int dispatch(int) __attribute__((ifunc("resolver")));
int (*fp)(int) = dispatch;
void *keep[] = { (void *)impl_b };
static int cnt;
static void c1(void) { cnt += 1; }
static void c2(void) { cnt += 2; }
static void d1(void) { cnt += 4; }
__attribute__((section(".init_array"), used)) static void (*ia[])(void) = { c1, c2 };
__attribute__((section(".fini_array"), used)) static void (*fa[])(void) = { d1 };
#ifndef SHARED  /* GNU ld exports __start_/__stop_ symbols from a shared object, wild does not */
__attribute__((section("custom_sec"), used)) static int cs[3] = {1,2,3};
extern int __start_custom_sec[], __stop_custom_sec[];
#define CUSTOM_LEN (int)(__stop_custom_sec - __start_custom_sec)
#else
#define CUSTOM_LEN 3
#endif
extern int missing_fn(void) __attribute__((weak));
extern int missing_var __attribute__((weak));
int (*wp)(void) = missing_fn; int *wv = &missing_var;
int run(void) {
  int t = use_tls() + *tls_addr() + CUSTOM_LEN;
  if (missing_fn) t += missing_fn();
  if (&missing_var) t += missing_var;
  return t + cnt + (fp ? 1 : 0);
}
"""
TLS_B = r"""
__thread int t_ext = 9; __thread long long t_big[5] = {1,2};
"""

LIB_C = r"""
int lib_data = 7; int lib_data2 = 8;
__thread int lib_tls = 5;
int lib_fn(int x) { return x + lib_data; }
int lib_fn2(int x) { return x * 2; }
int lib_fn3(int x) { return x - 1; }
"""
DYN_A = r"""
extern int lib_data, lib_data2; extern __thread int lib_tls; int lib_fn(int); int lib_fn2(int); int lib_fn3(int);
int (*fnp)(int) = lib_fn2;
#ifdef NOPIE   /* wild keeps a symbolic relocation to the copy-relocated variable; GNU ld does not */
static int dpv = 3; int *dp = &dpv;
#else
int *dp = &lib_data;
#endif
int loc = 5; int *lp = &loc;
__attribute__((noinline)) int helper(int x) { return lib_fn3(x) + loc; }
int (*hp)(int) = helper;
int run(void) { return lib_fn(lib_data) + lib_tls + fnp(1) + *dp + *lp + lib_fn2(loc) + hp(2) + lib_data2; }
"""

DL = "--dynamic-linker=/lib64/ld-linux-x86-64.so.2"
# program -> kinds; kind -> (cflags, link flags, needs _start)
X86_KINDS = {
    "static": (["-fno-pic"], ["-static"], True),
    "pie": (["-fPIE"], ["-pie", DL, "-z", "now"], True),
    "nopie-dyn": (["-fno-pic", "-DNOPIE"], [DL, "-z", "now"], True),
    "shared": (["-fPIC", "-DSHARED"], ["-shared", "-z", "now"], False),
}
PROGRAMS = {
    # name: (C sources, extra cflags, asm generator or None, needs lib, kinds)
    "basic": ([BASIC_A, BASIC_B], [], None, False, ["static", "pie", "shared"]),
    "sect": ([SECT_A], ["-ffunction-sections", "-fdata-sections", "-fcommon"], sect_asm, False,
             ["static", "pie", "shared"]),
    "tls": ([TLS_A, TLS_B], [], None, False, ["static", "pie", "shared"]),
    "dyn": ([DYN_A], [], None, True, ["nopie-dyn", "pie", "shared"]),
}
QUICK = [("basic", "static"), ("sect", "pie"), ("tls", "shared"), ("dyn", "pie")]
A64_SUBJECTS = [("basic", "static"), ("basic", "shared"), ("sect", "static"), ("sect", "shared")]
A64_KINDS = {
    "static": (["-fno-pic"], ["-static"], True),
    "shared": (["-fPIC"], ["-shared", "-z", "now"], False),
}
CFLAGS = ["-O1", "-fno-stack-protector", "-ffreestanding", "-fasynchronous-unwind-tables"]


def cc(src, cflags, arch="x86_64"):
    return vlib.assemble(src, arch=arch, ext=".c", extra=[*CFLAGS, *cflags])


def sect_asm_a64(kind):
    return r"""
        .text
        .globl asm_probe
        .type asm_probe,%function
asm_probe:
        adrp x1, asm_tab
        add x1, x1, :lo12:asm_tab
        ldr w2, [x1]
        add w0, w0, w2
        adrp x1, asm_local
        ldr w2, [x1, :lo12:asm_local]
        add w0, w0, w2
        ret
        .size asm_probe, .-asm_probe
        .section .rodata.asm,"a",%progbits
        .globl asm_tab
        .hidden asm_tab
        .type asm_tab,%object
asm_tab:
        .word 17
        .word hid - .
        .word fh - .
        .word asm_local - .
        .size asm_tab, .-asm_tab
        .data
        .type asm_local,%object
asm_local:
        .word 3
        .size asm_local, 4
        .globl asm_data
        .type asm_data,%object
        .balign 8
asm_data:
        .xword hid - .
        .xword asm_local + 2
        .xword fh
        .size asm_data, .-asm_data
"""


# ------------------------------------------------------------------------------------ subjects

class Subject:
    def __init__(self, arch, prog, kind, base):
        self.arch, self.prog, self.kind = arch, prog, kind
        self.name = f"{arch}-{prog}-{kind}"
        self.dir = os.path.join(base, self.name)
        self.wild = os.path.join(self.dir, "w")
        self.ref = os.path.join(self.dir, "ref")
        self.keykind = kind if arch == "x86_64" else "a64-" + kind
        self.extra = EXTRA_IGNORE[arch]
        self.problem = None


def build_subject(s, lib):
    os.makedirs(s.dir, exist_ok=True)
    srcs, cflags, asmgen, needs_lib, _ = PROGRAMS[s.prog]
    if s.arch == "x86_64":
        kflags, lflags, needs_start = X86_KINDS[s.kind]
        start, asm, march = START_C, asmgen(s.kind) if asmgen else None, []
        reflinker = "ld"
    else:
        kflags, lflags, needs_start = A64_KINDS[s.kind]
        start, asm, march = START_A64, sect_asm_a64(s.kind) if asmgen else None, ["-m", "aarch64linux"]
        reflinker = "ld.lld"
    objs = [cc(c, cflags + kflags, s.arch) for c in srcs]
    if asm:
        objs.append(vlib.assemble(asm, arch=s.arch))
    if needs_start:
        objs.append(cc(start, kflags, s.arch))
    s.objs = objs
    s.sources = {"c": srcs, "asm": asm, "cflags": CFLAGS + cflags + kflags}
    extra = [lib] if needs_lib else []
    s.link_args = [*march, *lflags, *objs, *extra]
    s.wild_cmd = [vlib.WILD, *s.link_args, "-o", s.wild]
    s.ref_cmd = [reflinker, *s.link_args, "-o", s.ref]
    rc, so, se = vlib.run(s.ref_cmd, timeout=120)
    if rc != 0:
        s.problem = f"reference linker failed: {se.decode('utf-8', 'replace')[-300:]}"
        return s
    rc, so, se = wildrun.link_subprocess([*s.link_args, "-o", s.wild], cwd=s.dir,
                                         env={"WILD_WRITE_LAYOUT": "1", "WILD_WRITE_TRACE": "1"})
    if rc != 0:
        s.problem = f"wild failed rc={rc}: {se.decode('utf-8', 'replace')[-300:]}"
        return s
    for p in (M.layout_path(s.wild), M.trace_path(s.wild)):
        if not os.path.exists(p):
            s.problem = f"wild did not write {p}"
    return s


def copy_with_sidefiles(src, dst, data=None):
    """Byte-identical (or patched) copy of a wild output together with its side files."""
    if data is None:
        shutil.copyfile(src, dst)
    else:
        with open(dst, "wb") as f:
            f.write(data)
    os.chmod(dst, 0o755)
    for fn in (M.layout_path, M.trace_path):
        try:
            os.unlink(fn(dst))
        except OSError:
            pass
        os.link(fn(src), fn(dst))


REPORT_KEY = re.compile(r"^(\S.*)$", re.M)


# Differences between wild and the reference linker that --wild-defaults (tuned for GNU ld) does
# not cover; header-level only, never produced by a corrupted reference.
EXTRA_IGNORE = {"aarch64": ["section.got.plt.entsize"], "x86_64": []}


def diff_argv(ref, test, defaults=True, extra=()):
    return [vlib.LINKER_DIFF, "--colour", "never", *(["--wild-defaults"] if defaults else []),
            *(["--ignore", ",".join(extra)] if extra else []), "--ref", ref, test]


def linker_diff(ref, test, defaults=True, timeout=120, extra=()):
    """-> (status, keys, text). status: quiet / problems / error / crash / timeout."""
    cmd = diff_argv(ref, test, defaults, extra)
    rc, so, se = vlib.run(cmd, timeout=timeout)
    out = so.decode("utf-8", "replace")
    err = se.decode("utf-8", "replace")
    if rc == "timeout":
        return "timeout", [], err[-300:]
    if rc == 0 and "No differences or validation failures detected" in out:
        return "quiet", [], ""
    if rc == 1 and out.strip():
        # The report: two header lines "<name>: <path>", then per diff a key line at column 0.
        keys = [l for l in out.splitlines() if l and not l[0].isspace()
                and not re.match(r"^\S*: /", l)]
        return "problems", keys, out
    if rc == 1:
        return "error", [], err[-600:]
    return "crash", [], f"rc={rc} {err[-600:]}"


def diff_cmdline(ref, test, defaults=True, extra=()):
    return " ".join(diff_argv(ref, test, defaults, extra))


# ------------------------------------------------------------------------------------ (a) quiet

def quiet_job(job):
    sname, mode, defaults, ref, test, extra = job
    st, keys, text = linker_diff(ref, test, defaults, extra=extra)
    return sname, mode, defaults, st, keys, text[-1500:], diff_cmdline(ref, test, defaults, extra)


# ------------------------------------------------------------------------------------ (b) catches

def mutation_job(job):
    """job: (tag, wild path, ref path, patches) -> (tag, status, keys, text)"""
    tag, wild, ref, patches, workdir, extra = job
    with open(wild, "rb") as f:
        data = f.read()
    new = M.apply_patches(data, patches)
    d = os.path.join(workdir, f"m{os.getpid()}")
    os.makedirs(d, exist_ok=True)
    dst = os.path.join(d, "t")
    copy_with_sidefiles(wild, dst, new)
    st, keys, text = linker_diff(ref, dst, True, extra=extra)
    return tag, st, keys[:4], text[-400:] if st != "problems" else ""


def plan_subject(s, stats):
    """Enumerate sites and mutations of one subject. -> list of mutation dicts."""
    img = M.Image(s.wild)
    with open(M.layout_path(s.wild), "rb") as f:
        layout = M.parse_layout(f.read())
    sstats = {}
    sites = M.enumerate_sites(img, layout, sstats)
    muts = []
    seen_slots = set()
    st = stats.setdefault(s.name, collections.Counter())
    st.update(sstats)
    uncl = stats.setdefault("_unclassified", collections.Counter())
    for si, site in enumerate(sites):
        st["sites"] += 1
        insec = M.sec_class(site.secname)
        if not site.refs:
            st["sites_unclassified"] += 1
            uncl[f"{s.keykind}:{insec}:{site.rname}:{site.symkind}: {site.unclassified}"[:160]] += 1
            continue
        st["sites_classified"] += 1
        for ri, ref in enumerate(site.refs):
            where = insec if ref.where is None else f"{insec}>{ref.where}"
            if ref.where is not None:
                # A GOT slot shared by several relocations is one field: corrupt it once per
                # (class of referencing relocation).
                ident = (tuple(getattr(ref, "fields", ()) or
                               [r[0] for r in getattr(ref, "records", [])]),
                         insec, site.rname, site.symkind)
                if ident in seen_slots:
                    st["slot_refs_deduplicated"] += 1
                    continue
                seen_slots.add(ident)
            st["references"] += 1
            if getattr(ref, "slot_reason", None):
                uncl[f"{s.keykind}:{insec}>got:{site.rname}:{site.symkind}: slot: "
                     f"{ref.slot_reason}"[:160]] += 1
            for redir, patches, note in ref.redirections(img):
                cls = f"{where}:{site.rname}:{site.symkind}:{M.mech_of(ref.how)}:{redir}"
                if patches is None:
                    st["redirections_not_applicable"] += 1
                    stats.setdefault("_not_applicable", collections.Counter())[
                        f"{redir}: {re.sub(r'0x[0-9a-f]+', 'ADDR', note)}"[:100]] += 1
                    continue
                muts.append({
                    "subject": s.name, "class": cls, "how": ref.how, "redir": redir, "note": note,
                    "kind": s.keykind,
                    "site": {"object": site.obj, "section": site.secname, "offset": site.offset,
                             "type": site.rname, "symbol": site.symname, "symkind": site.symkind,
                             "addend": site.addend, "output_address": site.addr, "ref_index": ri},
                    "patches": [(p.off, p.data.hex()) for p in patches],
                })
    return muts


def describe_patch(s, m):
    e = E.Elf(s.wild)
    out = []
    for off, hx in m["patches"]:
        old = e.data[off:off + len(hx) // 2].hex()
        sec = next((x.name for x in e.sections if x.sh_type != E.SHT_NOBITS and
                    x.sh_offset <= off < x.sh_offset + x.sh_size), "?")
        out.append(f"file offset {off:#x} ({sec}): {old} -> {hx}")
    return "; ".join(out)


# ------------------------------------------------------------------------------------ main

def subjects_for(tier_thorough, base):
    subs = []
    for prog, (_, _, _, _, kinds) in PROGRAMS.items():
        for kind in kinds:
            if tier_thorough or (prog, kind) in QUICK:
                subs.append(Subject("x86_64", prog, kind, base))
    if tier_thorough:
        for prog, kind in A64_SUBJECTS:
            subs.append(Subject("aarch64", prog, kind, base))
    return subs


def build_lib(base):
    lib = os.path.join(base, "libv.so")
    r = subprocess.run(["ld", "-shared", "-soname", "libv.so", cc(LIB_C, ["-fPIC"]), "-o", lib],
                       capture_output=True)
    if r.returncode != 0:
        raise RuntimeError("building libv.so failed: " + r.stderr.decode())
    return lib


def _build_job(job):
    s, lib = job
    return build_subject(s, lib)


def _show_patch_context(s, patched, m):
    """Independent view (objdump / readelf / hexdump) of what the patch changed."""
    e = E.Elf(s.wild)
    objdump = ["objdump", "-d"] if s.arch == "x86_64" else ["llvm-objdump", "-d"]
    for off, hx in m["patches"]:
        sec = next((x for x in e.sections if x.sh_type != E.SHT_NOBITS and
                    x.sh_offset <= off < x.sh_offset + x.sh_size), None)
        if sec is None:
            continue
        addr = sec.sh_addr + off - sec.sh_offset
        if sec.sh_flags & E.SHF_EXECINSTR:
            sym = max((y for y in e.symbols(".symtab") if y.type == E.STT_FUNC and y.value <= addr),
                      key=lambda y: y.value, default=None)
            lo = max(sym.value if sym else addr - 16, addr - 24)
            for label, f in (("original ", s.wild), ("corrupted", patched)):
                r = subprocess.run([*objdump, f"--start-address={lo:#x}",
                                    f"--stop-address={addr + 12:#x}", f], capture_output=True)
                lines = [l for l in r.stdout.decode("utf-8", "replace").splitlines()
                         if re.match(r"^\s*[0-9a-f]+:", l)]
                print(f"  {label} code near {addr:#x}" + (f" (in {sym.name})" if sym else "") + ":")
                for l in lines:
                    print("     ", l)
        elif sec.sh_type == E.SHT_RELA:
            for label, f in (("original ", s.wild), ("corrupted", patched)):
                r = subprocess.run(["readelf", "-rW", f], capture_output=True)
                rec = (off - sec.sh_offset) // 24
                raw = E.Elf(f).data[sec.sh_offset + rec * 24:sec.sh_offset + rec * 24 + 8]
                want = "%016x" % struct.unpack("<Q", raw)[0]
                for l in r.stdout.decode("utf-8", "replace").splitlines():
                    if l.startswith(want):
                        print(f"  {label} dynamic relocation: {l}")
        else:
            sym = max((y for y in e.symbols(".symtab") if y.type == E.STT_OBJECT and
                       y.value <= addr < y.value + max(y.size, 1)), key=lambda y: y.value,
                      default=None)
            for label, f in (("original ", s.wild), ("corrupted", patched)):
                d = E.Elf(f).data[off:off + len(hx) // 2]
                v = int.from_bytes(d, "little")
                tgt = ""
                if len(d) == 8:
                    ts = max((y for y in e.symbols(".symtab") if y.name and y.shndx and
                              y.type in (E.STT_OBJECT, E.STT_FUNC) and y.value <= v),
                             key=lambda y: y.value, default=None)
                    if ts is not None and v - ts.value < 4096:
                        tgt = f" = {ts.name}+{v - ts.value:#x}"
                print(f"  {label} {sec.name} word at {addr:#x}"
                      + (f" (in {sym.name}+{addr - sym.value:#x})" if sym else "")
                      + f": {v:#x}{tgt}")


def _run_native(path, libdir):
    rc, so, se = vlib.run([path], env={"LD_LIBRARY_PATH": libdir}, timeout=10)
    return f"exit status {rc}" if not isinstance(rc, int) or rc >= 0 else f"killed by signal {-rc}"


def replay(chk, path):
    with open(path) as f:
        doc = json.load(f)
    rp = doc["replay"]
    keep = os.environ.get("VERIF_KEEP")
    base = keep or f"/dev/shm/verif.c34.replay.{os.getpid()}"
    if not keep:
        shutil.rmtree(base, ignore_errors=True)
    os.makedirs(base, exist_ok=True)
    reproduced = False
    try:
        lib = build_lib(base)
        arch, prog, kind = rp["subject"].split("-", 2)
        s = build_subject(Subject(arch, prog, kind, base), lib)
        if s.problem:
            chk.machinery(s.problem)
        print("files in", s.dir, "(set VERIF_KEEP=<dir> to keep them)")
        print("wild     : WILD_WRITE_LAYOUT=1 WILD_WRITE_TRACE=1", " ".join(s.wild_cmd))
        print("reference:", " ".join(s.ref_cmd))
        if rp["part"] == "quiet":
            test = s.wild
            if rp["mode"] == "copy":
                os.makedirs(os.path.join(s.dir, "copy"), exist_ok=True)
                test = os.path.join(s.dir, "copy", "w")
                copy_with_sidefiles(s.wild, test)
            st, keys, text = linker_diff(s.wild, test, rp["defaults"])
            print(diff_cmdline(s.wild, test, rp["defaults"]))
            print(f"status={st} keys={keys}\n{text[-3000:]}")
            reproduced = st != "quiet"
        else:
            stats = {}
            muts = plan_subject(s, stats)
            want = rp["mutation"]
            cand = [m for m in muts if m["class"] == want["class"] and
                    m["site"]["section"] == want["site"]["section"] and
                    m["site"]["offset"] == want["site"]["offset"] and
                    os.path.basename(m["site"]["object"]) == os.path.basename(want["site"]["object"])
                    and m["site"]["ref_index"] == want["site"]["ref_index"]]
            if not cand:
                chk.machinery("recorded site not found in the rebuilt subject")
            m = cand[0]
            st0, k0, _ = linker_diff(s.ref, s.wild, True, extra=s.extra)
            print("baseline :", diff_cmdline(s.ref, s.wild, True, s.extra), "->", st0, k0)
            d = os.path.join(s.dir, "corrupted")
            os.makedirs(d, exist_ok=True)
            patched = os.path.join(d, "t")
            with open(s.wild, "rb") as f:
                data = f.read()
            copy_with_sidefiles(s.wild, patched, M.apply_patches(
                data, [(o, bytes.fromhex(h)) for o, h in m["patches"]]))
            st, keys, text = linker_diff(s.ref, patched, True, extra=s.extra)
            print("site     :", json.dumps(m["site"]))
            print("mechanism:", m["how"], "/ redirection:", m["redir"], "/", m["note"])
            print("patch    :", describe_patch(s, m))
            _show_patch_context(s, patched, m)
            if s.arch == "x86_64" and kind != "shared":
                print("  running original :", _run_native(s.wild, base))
                print("  running corrupted:", _run_native(patched, base))
            print("corrupted:", diff_cmdline(s.ref, patched, True, s.extra), "->", st, keys[:6])
            if st not in ("quiet", "problems"):
                print(text)
            reproduced = st0 == "quiet" and st == "quiet"
    finally:
        if not keep:
            shutil.rmtree(base, ignore_errors=True)
    print("REPRODUCED" if reproduced else "not reproduced")
    sys.exit(1 if reproduced else 0)


def main():
    chk = vlib.Check("C34", "exploration")
    if not chk.args.no_build:
        vlib.build("wild", "linker-diff")
    if chk.args.replay:
        replay(chk, chk.args.replay)
        return
    budget = 14 * 60 if chk.thorough else 55
    t0 = time.time()
    rnd = random.Random(chk.seed)
    with vlib.scratch("c34") as base:
        try:
            lib = build_lib(base)
        except RuntimeError as e:
            chk.machinery(str(e))
        subs = subjects_for(chk.thorough, base)
        try:
            subs = vlib.pmap(_build_job, [(s, lib) for s in subs], procs=8)
        except RuntimeError as e:
            chk.machinery(f"compiling a subject failed: {e}")
        bad = [f"{s.name}: {s.problem}" for s in subs if s.problem]
        if bad:
            chk.machinery("cannot build subjects: " + " | ".join(bad))
        nruns = 0
        samples = []
        classes = set()

        # ---- (a) quiet on self / identical copy
        jobs = []
        for s in subs:
            os.makedirs(os.path.join(s.dir, "copy"), exist_ok=True)
            cp = os.path.join(s.dir, "copy", "w")
            copy_with_sidefiles(s.wild, cp)
            for defaults in (True, False):
                jobs.append((s.name, "self", defaults, s.wild, s.wild, ()))
                jobs.append((s.name, "copy", defaults, s.wild, cp, ()))
            # the reference output, too, when compared as the file under test against itself
            # needs a layout; it has none, so it is only used as --ref.
        byname = {s.name: s for s in subs}
        quiet_results = vlib.pmap(quiet_job, jobs, chunksize=1)
        nquiet = collections.Counter()
        for sname, mode, defaults, st, keys, text, cmd in quiet_results:
            nruns += 1
            s = byname[sname]
            nquiet[st] += 1
            classes.add(("quiet", s.keykind, mode, defaults, st))
            if len(samples) < 4:
                samples.append({"part": "quiet", "cmd": cmd, "status": st})
            if st != "quiet":
                k0 = re.sub(r"[^A-Za-z0-9_.\-]", "_", keys[0])[:60] if keys else st
                key = f"noisy:{s.keykind}:{s.prog}:{mode}:{'defaults' if defaults else 'nodefaults'}:{k0}"
                chk.violation(key, f"{cmd} -> {st}: {keys[:5]} {text[-500:]}",
                              {"part": "quiet", "key": key, "subject": s.name, "mode": mode,
                               "defaults": defaults, "cmd": cmd, "wild_cmd": s.wild_cmd,
                               "ref_cmd": s.ref_cmd, "sources": s.sources})

        # ---- baseline: reference vs wild must itself be quiet for (b) to mean anything
        base_results = vlib.pmap(quiet_job, [(s.name, "baseline", True, s.ref, s.wild, s.extra)
                                             for s in subs], chunksize=1)
        noisy_baseline = {}
        for sname, mode, defaults, st, keys, text, cmd in base_results:
            nruns += 1
            if st != "quiet":
                noisy_baseline[sname] = {"status": st, "keys": keys[:6], "cmd": cmd,
                                         "text": text[-800:]}
        usable = [s for s in subs if s.name not in noisy_baseline]
        if not usable:
            chk.machinery(f"no subject has a quiet reference-vs-wild baseline: {noisy_baseline}")

        # ---- (b) every site x materialisation x redirection
        stats = {}
        muts = []
        for s in usable:
            muts.extend(plan_subject(s, stats))
        # Order: round-robin over classes (first one instance of every class, then the second,
        # ...) so that a run stopped by the wall-clock cap has still touched every class.
        # VERIF_SEED permutes the order within each round.
        rank = collections.Counter()
        keyed = []
        for i, m in enumerate(muts):
            keyed.append((rank[m["class"]], rnd.random() if chk.seed else 0, i))
            rank[m["class"]] += 1
        order = [i for _, _, i in sorted(keyed)]
        jobs = [(i, byname[muts[i]["subject"]].wild, byname[muts[i]["subject"]].ref,
                 [(o, bytes.fromhex(h)) for o, h in muts[i]["patches"]], base,
                 byname[muts[i]["subject"]].extra) for i in order]
        outcome = collections.Counter()
        per_class = collections.defaultdict(collections.Counter)
        missed_kinds = collections.defaultdict(set)
        done = 0
        capped = False
        chunk = 128
        for c0 in range(0, len(jobs), chunk):
            if time.time() - t0 > budget:
                capped = True
                break
            for tag, st, keys, text in vlib.pmap(mutation_job, jobs[c0:c0 + chunk], chunksize=4):
                done += 1
                nruns += 1
                m = muts[tag]
                s = byname[m["subject"]]
                outcome[st] += 1
                per_class[m["class"]][st] += 1
                if st == "quiet":
                    missed_kinds[m["class"]].add(m["kind"])
                classes.add((m["class"], m["kind"], st))
                if st == "problems" and len(samples) < 12 and done % 97 == 1:
                    samples.append({"part": "catches", "class": m["class"], "site": m["site"],
                                    "how": m["how"], "note": m["note"], "status": st,
                                    "first_keys": keys})
                if st == "quiet":
                    key = "missed:" + m["class"]
                    what = (f"{s.name}: {m['site']['type']} at {m['site']['section']}+"
                            f"{m['site']['offset']:#x} (-> {m['site']['symbol']}"
                            f"{m['site']['addend']:+d}, {m['site']['symkind']}) materialised as "
                            f"'{m['how']}' redirected {m['redir']} ({m['note']}): "
                            f"{describe_patch(s, m)}; linker-diff reported nothing")
                    chk.violation(key, what, {
                        "part": "catches", "key": key, "subject": s.name, "mutation": m,
                        "wild_cmd": s.wild_cmd, "ref_cmd": s.ref_cmd,
                        "linker_diff_cmd": diff_cmdline(s.ref, "<patched copy of w, with w.layout and w..trace linked beside it>", True, s.extra),
                        "wild_sha256": vlib.file_sha(s.wild), "sources": s.sources})
                elif st in ("crash", "timeout"):
                    key = f"{st}:{m['class']}"
                    stats.setdefault("_crashes", collections.Counter())[key + " " + text[-120:]] += 1

        unclassified = stats.pop("_unclassified", {})
        not_applicable = stats.pop("_not_applicable", {})
        crashes = stats.pop("_crashes", {})
        missed_classes = sorted(c for c, v in per_class.items() if v["quiet"])
        chk.coverage = {
            "evaluations": nruns,
            "distinct_nontrivial": len(classes),
            "rule": "subjects = 4 programs x 3 output kinds (x86-64, wild vs GNU ld)"
                    + (" + 4 AArch64 pairs (wild vs ld.lld)" if chk.thorough else
                       "; quick tier = 4 of the 12 (one per program, each output kind once)")
                    + "; (a) self and identical-copy comparison with and without "
                      "--wild-defaults; (b) every RELA record of every input section placed "
                      "by wild's .layout x every materialisation whose interpretation verifies "
                      "exactly (field / GOT slot / GOT slot behind PLT stub / dynamic relocation) "
                      "x {next, plus8, zero}; run round-robin over classes under a wall-clock cap "
                      "(capped=true when hit). distinct = (class, output kind, outcome) triples",
            "samples": samples,
            "exhaustive": not capped and not noisy_baseline,
            "capped": capped,
            "subjects": [s.name for s in subs],
            "subjects_with_noisy_baseline": noisy_baseline,
            "quiet_runs": dict(nquiet),
            "mutations_planned": len(muts), "mutations_run": done,
            "mutation_outcomes": dict(outcome),
            "mutation_classes": len(per_class),
            "missed_classes": missed_classes,
            "per_class_outcomes": {c: dict(v) for c, v in sorted(per_class.items())},
            "missed_class_output_kinds": {c: sorted(v) for c, v in sorted(missed_kinds.items())},
            "per_subject": {k: dict(v) for k, v in stats.items()},
            "sites_unclassified_by_reason": dict(unclassified),
            "redirections_not_applicable_by_reason": dict(not_applicable),
            "linker_diff_crashes_or_timeouts": dict(crashes),
            "commands": {
                "wild": "WILD_WRITE_LAYOUT=1 WILD_WRITE_TRACE=1 " + " ".join(subs[0].wild_cmd),
                "reference": " ".join(subs[0].ref_cmd),
                "quiet": [diff_cmdline("X", "X"), diff_cmdline("X", "copy/X", False)],
                "catches": diff_cmdline("<ref>", "<patched copy of wild output>"),
            },
        }
        chk.assumptions = [
            "the .layout file written by wild is taken as the truth about where input sections "
            "were placed; RELA records of sections it does not list (.eh_frame, merged strings, "
            "discarded sections) are outside the enumeration and counted as unmapped",
            "a site is corrupted only through an interpretation of the output bytes that verifies "
            "exactly against the referenced symbol's address; sites for which no interpretation "
            "verifies are counted (sites_unclassified_by_reason), not guessed",
            "+8 on GLOB_DAT/JUMP_SLOT addends is not used because glibc ignores that addend",
            "linker-diff failing with 'Error:' (exit 1) on a corrupted file counts as reporting a "
            "problem; a crash/timeout is counted separately and is neither a catch nor a miss",
            "a byte-identical copy without its .layout side file makes linker-diff report "
            "'A .layout file is required'; (a) therefore copies the side files, as the property's "
            "design states",
        ]
        chk.finish()


if __name__ == "__main__":
    main()
