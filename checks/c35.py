#!/usr/bin/env python3
"""C35 - Jobserver tokens are conserved.

Fault / configuration enumeration against the real wild binary run as a real process under a
harness-owned GNU make jobserver (MAKEFLAGS=--jobserver-auth=R,W or fifo:PATH).

Member = (jobserver kind, tokens initially in the pipe, --threads, fork / --no-fork, outcome,
competing client k).  Outcomes: success; natural errors (missing input, undefined symbol,
linker-script ASSERT); exits that bypass the normal return path (--help, --version,
WILD_SAVE_SKIP_LINKING); a panic injected at phase points (main and worker threads); process death
by signal (class `uncatchable`, never a violation).

Oracle (2) conservation: after wild and every descendant of it have exited (the harness is a child
subreaper and reaps the background child itself), the pipe holds the same multiset of bytes as
before.
Oracle (1) thread bound: while the linking process is paused at `enter:Layout`, the number of
threads other than its main thread is <= tokens acquired + 1 (tokens acquired = tokens available to
wild - bytes left in the pipe at that moment); with an explicit `--threads=N` the allowance is N.
An excess is only reported when a separate probe run of the same configuration shows that a second
non-main thread executes link phases while the first one is blocked (so the extra threads are
*used*, not merely present)."""
import array
import ctypes
import fcntl
import json
import os
import shutil
import subprocess
import sys
import termios
import time

sys.path.insert(0, os.path.join(os.path.dirname(os.path.abspath(__file__)), "..", "lib"))
import vlib

SRC = {
    "a.o": '.section .text._start,"ax",@progbits\n.globl _start\n_start:\n  call fa\n  call fb\n'
           '  ret\n',
    "b.o": '.section .text.fa,"ax",@progbits\n.globl fa\nfa: ret\n'
           '.section .text.fb,"ax",@progbits\n.globl fb\nfb: ret\n',
    "c.o": '.section .text.fc,"ax",@progbits\n.globl fc\nfc: ret\n',
    "d.o": '.section .text.fd,"ax",@progbits\n.globl fd\nfd: ret\n',
    "u.o": '.section .text.fa,"ax",@progbits\n.globl fa\nfa: call nosuch\n ret\n'
           '.section .text.fb,"ax",@progbits\n.globl fb\nfb: ret\n',
}
ASSERT_LD = 'ASSERT(0, "c35 boom")\n'

OK_ARGS = ["a.o", "b.o", "c.o", "d.o", "-o", "out"]
SIGNAL_ACTIONS = ("kill9", "abort", "segv", "term", "allocfail")
RAYON_ABORT = "Rayon: detected unexpected panic; aborting"

# name -> (argv, extra env, pause at enter:Layout allowed)
NATURAL = {
    "success": (OK_ARGS, {}),
    "err-missing-input": (["a.o", "b.o", "nonexistent.o", "-o", "out"], {}),
    "err-undefined-symbol": (["a.o", "u.o", "-o", "out"], {}),
    "err-script-assert": (["a.o", "b.o", "-T", "assert.ld", "-o", "out"], {}),
    "exit-help": (["--help"], {}),
    "exit-version": (["--version"], {}),
    "exit-save-skip-linking": (OK_ARGS, {"WILD_SAVE_DIR": "{dir}/sd",
                                         "WILD_SAVE_SKIP_LINKING": "1"}),
}
QUICK_PANIC_POINTS = [
    "enter:Activate thread pool", "enter:Parse file", "after-load-inputs", "enter:Layout",
    "enter:Activate group", "enter:Create output file", "enter:Write group",
    "child:after-inform", "enter:Drop layout", "parent:before-wait",
]
SIGNAL_POINTS = [("enter:Layout", a) for a in SIGNAL_ACTIONS] + [
    ("enter:Activate thread pool", "kill9"), ("enter:Write group", "kill9"),
    ("parent:before-wait", "kill9"), ("child:after-inform", "kill9")]

_libc = None


def become_subreaper():
    # The attribute is not inherited over fork(), so it is set once per process.
    global _libc
    if _libc != os.getpid():
        if ctypes.CDLL(None, use_errno=True).prctl(36, 1, 0, 0, 0) != 0:  # PR_SET_CHILD_SUBREAPER
            raise RuntimeError("prctl(PR_SET_CHILD_SUBREAPER) failed")
        _libc = os.getpid()


def fionread(fd):
    buf = array.array("i", [0])
    fcntl.ioctl(fd, termios.FIONREAD, buf)
    return buf[0]


def make_inputs(d):
    os.makedirs(d, exist_ok=True)
    for name, src in SRC.items():
        shutil.copyfile(vlib.assemble(src), os.path.join(d, name))
    with open(os.path.join(d, "assert.ld"), "w") as f:
        f.write(ASSERT_LD)


def read_log(path):
    """Returns list of (name, count, pid, on_main)."""
    out = []
    try:
        with open(path) as f:
            for line in f:
                p = line.rstrip("\n").split("\t")
                if len(p) != 3:
                    continue
                name, _, cnt = p[0].rpartition("#")
                out.append((name, int(cnt), int(p[1][4:]), p[2] == "main=true"))
    except OSError:
        pass
    return out


def run_member(m):
    """Runs one member. m: dict(idx, base, inputs, wild, kind, tokens, threads, mode, outcome,
    k, at, do, pause). Returns observations."""
    become_subreaper()
    t_start = time.time()
    d = os.path.join(m["base"], f"m{m['idx']}")
    shutil.rmtree(d, ignore_errors=True)
    os.makedirs(d)
    pd = os.path.join(d, "pause")
    os.makedirs(pd)
    log = os.path.join(d, "phaselog")
    initial = bytes(0x41 + i for i in range(m["tokens"]))
    pass_fds = ()
    if m["kind"] == "pipe":
        r, w = os.pipe()
        auth = f"{r},{w}"
        pass_fds = (r, w)
    else:
        path = os.path.join(d, "jobfifo")
        os.mkfifo(path)
        r = os.open(path, os.O_RDWR | os.O_NONBLOCK)
        w = r
        auth = "fifo:" + path
    obs = dict(idx=m["idx"], initial=initial.decode(), machinery=None)
    try:
        if initial:
            os.write(w, initial)
        argv, xenv = NATURAL[m["outcome"]] if m["outcome"] in NATURAL else NATURAL["success"]
        argv = list(argv)
        if m["mode"] == "nofork":
            argv.append("--no-fork")
        if m["threads"] is not None:
            argv.append(f"--threads={m['threads']}")
        env = dict(os.environ)
        for k in list(env):
            if k.startswith("WILD_") or k in ("MAKEFLAGS", "MFLAGS", "CARGO_MAKEFLAGS"):
                del env[k]
        env["RUST_BACKTRACE"] = "0"
        env["MAKEFLAGS"] = f" -j{m['tokens'] + 1} --jobserver-auth={auth}"
        env["WILD_VERIF_PHASELOG"] = log
        for k, v in xenv.items():
            env[k] = v.replace("{dir}", d)
        pause_at = None
        if m.get("k"):
            pause_at = "enter:Activate thread pool"
        elif m.get("pause"):
            pause_at = m["pause"]
        if pause_at:
            env["WILD_VERIF_AT"] = pause_at
            env["WILD_VERIF_DO"] = "pause:" + pd
        elif m.get("at"):
            env["WILD_VERIF_AT"] = m["at"]
            env["WILD_VERIF_DO"] = m["do"]
        obs["argv"] = argv
        obs["env"] = {k: env[k] for k in env if k.startswith("WILD_") or k == "MAKEFLAGS"}
        p = subprocess.Popen([m["wild"], *argv], env=env, cwd=m["inputs"], pass_fds=pass_fds,
                             stdin=subprocess.DEVNULL, stdout=subprocess.DEVNULL,
                             stderr=subprocess.PIPE)
        grabbed = b""
        if pause_at:
            reached = os.path.join(pd, "reached")
            t0 = time.time()
            while not os.path.exists(reached) and p.poll() is None and time.time() - t0 < 30:
                time.sleep(0.001)
            if os.path.exists(reached):
                obs["paused"] = True
                lg = read_log(log)
                hits = [e for e in lg if e[0] == pause_at.split("#")[0]]
                lpid = hits[-1][2] if hits else None
                if m.get("k"):
                    try:
                        grabbed = os.read(r, m["k"]) if fionread(r) else b""
                    except BlockingIOError:
                        grabbed = b""
                    obs["grabbed"] = grabbed.decode()
                elif pause_at == "enter:Layout" and lpid:
                    tasks = os.listdir(f"/proc/{lpid}/task")
                    oncpu = 0
                    for t in tasks:
                        if int(t) == lpid:
                            continue
                        try:
                            with open(f"/proc/{lpid}/task/{t}/schedstat") as f:
                                if int(f.read().split()[0]) > 0:
                                    oncpu += 1
                        except OSError:
                            pass
                    left = fionread(r)
                    obs["layout"] = dict(workers=len(tasks) - 1, workers_with_cpu_time=oncpu,
                                         left=left, acquired=m["tokens"] - left,
                                         offmain_points=sum(1 for e in lg if e[2] == lpid
                                                            and not e[3]))
                elif pause_at.startswith("enter:Parse file"):
                    # Probe: one worker is blocked inside the hook. Any later off-main line in
                    # the log comes from a different non-main thread.
                    t1 = time.time()
                    seen = 0
                    while time.time() - t1 < 10.0:
                        lg = read_log(log)
                        ix = max(i for i, e in enumerate(lg) if e[0] == "enter:Parse file"
                                 and e[1] == 1)
                        seen = sum(1 for e in lg[ix + 1:] if not e[3] and e[2] == lpid)
                        if seen:
                            break
                        time.sleep(0.005)
                    obs["probe_second_worker_points"] = seen
                    obs["probe_left"] = fionread(r)
            with open(os.path.join(pd, "go"), "w"):
                pass
        try:
            _, err = p.communicate(timeout=60)
        except subprocess.TimeoutExpired:
            p.kill()
            p.communicate()
            obs["machinery"] = "wild did not exit within 60 s"
            err = b""
        obs["rc"] = p.returncode
        obs["stderr"] = err.decode("utf-8", "replace")[-400:]
        obs["rayon_abort"] = RAYON_ABORT in err.decode("utf-8", "replace")
        # Reap every descendant (the background child is re-parented to us).
        orphans = []
        t0 = time.time()
        while True:
            try:
                pid, st = os.waitpid(-1, os.WNOHANG)
            except ChildProcessError:
                break
            if pid == 0:
                if time.time() - t0 > 60:
                    obs["machinery"] = "a descendant of wild did not exit within 60 s"
                    break
                time.sleep(0.001)
                continue
            orphans.append(-os.WTERMSIG(st) if os.WIFSIGNALED(st) else os.WEXITSTATUS(st))
        obs["orphans"] = orphans
        if grabbed:
            os.write(w, grabbed)
        n = fionread(r)
        os.set_blocking(r, False)
        final = os.read(r, 4096) if n else b""
        obs["final"] = final.decode("latin-1")
        lg = read_log(log)
        act = [e for e in lg if e[0] == "enter:Activate thread pool"]
        obs["link_pid_is_child"] = bool(act) and any(e[0] == "child:after-fork" for e in lg)
        link_pid = act[-1][2] if act else None
        if m.get("at"):
            name, _, cnt = m["at"].partition("#")
            cnt = int(cnt or 1)
            hit = [e for e in lg if e[0] == name and e[1] == cnt]
            obs["fault_fired"] = bool(hit)
            obs["fault_in_link_process"] = bool(hit) and (hit[0][2] == link_pid or (
                link_pid is None and name != "parent:before-wait"
                and not name.endswith("Parse args")))
            obs["fault_on_main"] = hit[0][3] if hit else None
        obs["points"] = sorted({e[0] for e in lg})
        obs["reached_layout"] = any(e[0] == "enter:Layout" for e in lg)
        obs["finished_layout"] = any(e[0] == "exit:Layout" for e in lg)
    finally:
        os.close(r)
        if w != r:
            os.close(w)
        shutil.rmtree(d, ignore_errors=True)
    obs["wall"] = round(time.time() - t_start, 3)
    return obs


def member_label(m):
    s = (f"{m['kind']}/tokens={m['tokens']}/threads={m['threads'] or 'absent'}/{m['mode']}/"
         f"{m['outcome']}")
    if m.get("at"):
        s += f"[{m['do']}@{m['at']}]"
    if m.get("k"):
        s += f"/competitor={m['k']}"
    return s


def build_members(thorough, points_by_mode):
    kinds = ["pipe", "fifo"]
    tokens = [0, 1, 2, 3, 7]
    threads = [None, 2]
    modes = ["fork", "nofork"]
    members = []

    def add(**kw):
        members.append(kw)

    quick_signal = [(pt, do) for pt, do in SIGNAL_POINTS
                    if pt in ("enter:Layout", "parent:before-wait")]
    for kind in kinds:
        for tk in tokens:
            for th in threads:
                for mode in modes:
                    cfg = dict(kind=kind, tokens=tk, threads=th, mode=mode)
                    full = thorough or kind == "pipe"
                    for o in NATURAL:
                        if not full and o not in ("success", "exit-save-skip-linking"):
                            continue
                        add(**cfg, outcome=o, pause="enter:Layout")
                        if tk >= 1 and o not in ("exit-help", "exit-version") and (
                                thorough or (full and o in ("success", "err-undefined-symbol"))):
                            add(**cfg, outcome=o, k=1)
                    # With an explicit --threads wild never touches the pipe: the quick tier runs
                    # the fault outcomes only where tokens are actually taken.
                    if not full or (not thorough and th is not None):
                        continue
                    pts = points_by_mode[mode] if thorough else [
                        p for p in QUICK_PANIC_POINTS if p in points_by_mode[mode]]
                    for pt in pts:
                        add(**cfg, outcome="panic", at=pt, do="panic")
                    for pt, do in (SIGNAL_POINTS if thorough else quick_signal):
                        if pt in points_by_mode[mode]:
                            add(**cfg, outcome="signal", at=pt, do=do)
    return members


def evaluate(m, o, twins):
    """Returns list of (kind, key, what). kind: 'violation' | 'uncatchable' | 'note'."""
    res = []
    initial = sorted(o["initial"])
    final = sorted(o["final"])
    signal_evidence = None
    if m.get("do") in SIGNAL_ACTIONS and o.get("fault_fired") and o.get("fault_in_link_process"):
        signal_evidence = f"injected {m['do']} in the linking process"
    elif isinstance(o["rc"], int) and o["rc"] < 0 and not o["link_pid_is_child"]:
        signal_evidence = f"linking process died by signal {-o['rc']}"
    elif any(x < 0 for x in o["orphans"]):
        signal_evidence = f"background child died by signal {[x for x in o['orphans'] if x < 0]}"
    elif o.get("rayon_abort") and m["mode"] == "fork":
        tw = twins.get((m["kind"], m["tokens"], m["threads"], m.get("at"), m.get("do")))
        if tw is not None and isinstance(tw["rc"], int) and tw["rc"] < 0:
            signal_evidence = (f"child printed '{RAYON_ABORT}' and the --no-fork twin of this "
                               f"member died by signal {-tw['rc']}")
    if final != initial:
        desc = (f"{member_label(m)}: pipe held {o['initial']!r} before, {o['final']!r} after wild "
                f"(exit {o['rc']}) and all descendants exited")
        if signal_evidence:
            res.append(("uncatchable", None, desc + " - " + signal_evidence))
        else:
            what = "lost" if len(final) < len(initial) else (
                "added" if len(final) > len(initial) else "changed")
            where = m["outcome"] if not m.get("at") else f"{m['do']}@{m['at']}"
            res.append(("violation", f"tokens-{what}:{where}:{m['mode']}", desc))
    elif signal_evidence:
        res.append(("note", "signal-but-intact", ""))
    return res


def main():
    chk = vlib.Check("C35", "fault_enumeration")
    if not chk.args.no_build:
        vlib.build("wild")
    if chk.args.replay:
        return replay(chk)
    with vlib.scratch("c35") as base:
        inputs = os.path.join(base, "in")
        make_inputs(inputs)
        common = dict(base=base, inputs=inputs, wild=vlib.WILD)
        # Baseline: which phase points exist in each mode (one point is excluded, see
        # assumptions).
        points_by_mode = {}
        for i, mode in enumerate(("fork", "nofork")):
            o = run_member(dict(common, idx=f"b{i}", kind="pipe", tokens=3, threads=None,
                                mode=mode, outcome="success"))
            if o["machinery"] or o["rc"] != 0:
                chk.machinery(f"baseline {mode} link failed: {o}")
            points_by_mode[mode] = [p for p in o["points"] if p != "exit:Activate thread pool"]
            if "enter:Layout" not in points_by_mode[mode]:
                chk.machinery("phase log has no enter:Layout")
        members = build_members(chk.thorough, points_by_mode)
        if chk.seed:
            import random
            random.Random(chk.seed).shuffle(members)
        for i, m in enumerate(members):
            m.update(common, idx=i)
        obs = vlib.pmap(run_member, members, chunksize=4)
        by_cfg = {}
        twins = {}
        for m, o in zip(members, obs):
            if o["machinery"]:
                chk.machinery(f"{member_label(m)}: {o['machinery']}")
            if m["mode"] == "nofork" and m.get("at"):
                twins[(m["kind"], m["tokens"], m["threads"], m["at"], m["do"])] = o
            by_cfg.setdefault((m["kind"], m["tokens"], m["threads"], m["mode"]), {})[
                (m["outcome"], m.get("k", 0))] = (m, o)

        # Second phase: a "use" probe for every configuration whose pool exceeds its allowance.
        need = []
        for m, o in zip(members, obs):
            lay = o.get("layout")
            if m.get("pause") == "enter:Layout" and m["outcome"] == "success" and not lay:
                chk.machinery(f"{member_label(m)}: enter:Layout was not reached within 30 s")
            if lay and m["outcome"] == "success" and lay["workers"] > lay["acquired"] + 1 and \
                    not (m["threads"] is not None and lay["workers"] <= m["threads"]):
                need.append(dict(common, idx=f"p{len(need)}", kind=m["kind"], tokens=m["tokens"],
                                 threads=m["threads"], mode=m["mode"], outcome="probe",
                                 pause="enter:Parse file"))
        for pm, po in zip(need, vlib.pmap(run_member, need, chunksize=1)):
            if po["machinery"]:
                chk.machinery(f"{member_label(pm)}: {po['machinery']}")
            by_cfg[(pm["kind"], pm["tokens"], pm["threads"], pm["mode"])][("probe", 0)] = (pm, po)
        members = members + need
        obs = obs + [po for _, po in [by_cfg[(pm["kind"], pm["tokens"], pm["threads"],
                                              pm["mode"])][("probe", 0)] for pm in need]]

        counts = dict(runs=len(members), use_probes=len(need), conserved=0, uncatchable=0, signal_but_intact=0,
                      fault_not_reached=0, thread_bound_evaluated=0, thread_bound_held=0,
                      explicit_threads_exceeding_tokens=0, competitor_runs=0,
                      unconfirmed_pool_excess=0)
        nontrivial = set()
        samples = []
        uncatchable_samples = []
        thread_table = {}
        for m, o in zip(members, obs):
            label = member_label(m)
            cfgkey = (m["kind"], m["tokens"], m["threads"], m["mode"])
            if m.get("at") and not o.get("fault_fired"):
                counts["fault_not_reached"] += 1
            if m.get("k"):
                counts["competitor_runs"] += 1
                if o.get("grabbed", "") == "" or not o.get("paused"):
                    chk.machinery(f"{label}: competitor could not take a token")
            verdicts = evaluate(m, o, twins)
            if not any(v[0] in ("violation", "uncatchable") for v in verdicts):
                counts["conserved"] += 1
            for kind, key, what in verdicts:
                if kind == "violation":
                    chk.violation(key, what, replay_dict(m))
                elif kind == "uncatchable":
                    counts["uncatchable"] += 1
                    if len(uncatchable_samples) < 6:
                        uncatchable_samples.append(what)
                else:
                    counts["signal_but_intact"] += 1
            # Thread bound (clause 1).
            lay = o.get("layout")
            if lay:
                counts["thread_bound_evaluated"] += 1
                acquired = lay["acquired"]
                if m["threads"] is None and m["outcome"] == "success":
                    if acquired != m["tokens"]:
                        chk.machinery(f"{label}: wild took {acquired} of {m['tokens']} tokens - "
                                      f"jobserver not discovered?")
                if acquired > 0:
                    nontrivial.add(label)
                if m["outcome"] == "success":
                    thread_table[f"{m['kind']}/tokens={m['tokens']}/threads="
                                 f"{m['threads'] or 'absent'}/{m['mode']}"] = lay
                allowed = acquired + 1
                if lay["workers"] <= allowed:
                    counts["thread_bound_held"] += 1
                elif m["threads"] is not None and lay["workers"] <= m["threads"]:
                    counts["explicit_threads_exceeding_tokens"] += 1
                else:
                    probe = by_cfg[cfgkey].get(("probe", 0))
                    used = probe and probe[1].get("probe_second_worker_points", 0) > 0
                    if used and allowed == 1:
                        chk.violation(
                            f"workers-exceed-tokens:acquired={acquired}:threads-arg="
                            f"{m['threads'] or 'absent'}",
                            f"{label}: paused at enter:Layout the linking process has "
                            f"{lay['workers']} threads besides main "
                            f"({lay['workers_with_cpu_time']} with CPU time) but acquired "
                            f"{acquired} token(s) (allowance {allowed}); probe run: with one "
                            f"worker blocked in `Parse file`, "
                            f"{probe[1]['probe_second_worker_points']} further phase points ran "
                            f"on other non-main threads", replay_dict(m))
                    else:
                        counts["unconfirmed_pool_excess"] += 1
            elif m["tokens"] > 0 and m["threads"] is None and m["outcome"] != "probe" and (
                    o.get("fault_fired") or not m.get("at")):
                # Members of a configuration whose paused success run showed acquisition.
                suc = by_cfg[cfgkey].get(("success", 0))
                if suc and suc[1].get("layout", {}).get("acquired", 0) > 0 and \
                        "enter:Activate thread pool" in o["points"]:
                    nontrivial.add(label)
            if len(samples) < 8 and (m.get("at") or m.get("k") or lay) and m["tokens"] in (2, 3):
                samples.append({"member": label, "argv": o["argv"], "env": o["env"],
                                "rc": o["rc"], "pipe_before": o["initial"],
                                "pipe_after": o["final"], "at_layout": lay})
        chk.coverage = {
            "evaluations": len(members), "distinct_nontrivial": len(nontrivial),
            "rule": "member = jobserver kind x initial tokens x --threads x fork/no-fork x outcome "
                    "(natural, early-exit, panic@phase point, signal@phase point) x competitor k; "
                    "non-trivial = distinct member in which wild demonstrably held >= 1 token "
                    "(measured: pipe drained while paused at enter:Layout in this member or in the "
                    "success member of the same configuration, and the member reached the "
                    "acquisition point)",
            "samples": samples, "exhaustive": True, **counts,
            "panic_points": {k: len(v) for k, v in points_by_mode.items()} if chk.thorough
            else {"quick_list": QUICK_PANIC_POINTS},
            "threads_at_layout": thread_table,
            "uncatchable_samples": uncatchable_samples,
            "thinned": None if chk.thorough else
            "quick: fifo kind runs only success / skip-linking; panic at 10 "
                       "representative points instead of every phase point; signals "
                       "at 2 points; panic / signal outcomes only for --threads absent; competitor "
                       "only with success and undefined-symbol outcomes",
        }
        chk.assumptions = [
            "no panic is injected at `exit:Activate thread pool`: `exit:` points fire inside "
            "PhaseGuard::drop, i.e. after activate_thread_pool has moved the acquired tokens "
            "into its return value, and a panic in a local's destructor leaks the in-flight "
            "return value (rust-lang/rust#47949; observed: tokens lost) - a property of where the "
            "hook sits, not a path wild's own code can take",
            "a process killed by a signal cannot return tokens (class uncatchable, counted)",
            "explicit --threads=N is taken as the user's allowance (wild then acquires no tokens "
            "and uses N workers); counted as explicit_threads_exceeding_tokens, not a violation",
            "threads are counted while the main thread is paused at enter:Layout; 16-CPU host",
        ]
    chk.finish()


def replay_dict(m):
    r = {k: m[k] for k in ("kind", "tokens", "threads", "mode", "outcome") if k in m}
    for k in ("k", "at", "do", "pause"):
        if m.get(k):
            r[k] = m[k]
    r["sources"] = SRC
    r["assert.ld"] = ASSERT_LD
    r["how"] = ("python3 checks/c35.py --replay <this file>; or by hand: create a pipe, write "
                "`tokens` bytes, run wild with MAKEFLAGS=' -jN --jobserver-auth=R,W' and the "
                "outcome's argv/env (see NATURAL in c35.py), wait for all descendants, count "
                "bytes left")
    return r


def replay(chk):
    with open(chk.args.replay) as f:
        doc = json.load(f)
    m = doc["replay"]
    with vlib.scratch("c35r") as base:
        inputs = os.path.join(base, "in")
        make_inputs(inputs)
        common = dict(base=base, inputs=inputs, wild=vlib.WILD)
        mm = dict(m, **common, idx=0)
        mm.setdefault("threads", None)
        o = run_member(mm)
        print(json.dumps({k: v for k, v in o.items() if k != "points"}, indent=1))
        bad = False
        if doc["key"].startswith("workers-exceed-tokens"):
            p = run_member(dict(mm, idx=1, outcome="probe", pause="enter:Parse file"))
            print("probe:", p.get("probe_second_worker_points"))
            lay = o.get("layout") or {}
            bad = lay.get("workers", 0) > lay.get("acquired", 0) + 1 and \
                p.get("probe_second_worker_points", 0) > 0
        else:
            bad = sorted(o["final"]) != sorted(o["initial"])
        print("REPRODUCED" if bad else "not reproduced")
        sys.exit(1 if bad else 0)


if __name__ == "__main__":
    main()
