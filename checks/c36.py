#!/usr/bin/env python3
"""C36 - Stack and GNU property notes are merged as in GNU ld.

Bounded-exhaustive families of tiny x86-64 links; all inputs are written with elfgen (no assembler),
every member is linked by the real wild (in-process server) and by GNU ld 2.40 (subprocess), and both
outputs are read back with the independent reader elfread.

  stack    1..3 input objects, each with `.note.GNU-stack` in {a: absent, n: present, x: present with
           SHF_EXECINSTR} (3 + 9 + 27 = 39 combinations) x Z in {none, -z execstack, -z noexecstack
           [, both in either order: thorough]} x output kind {exe, -shared, -r}.
           Observable (exe, -shared): "PT_GNU_STACK is executable" = the segment exists and has PF_X
           (the presence of a non-executable segment is counted, not judged: the statement speaks
           of executability only). Observable (-r): the state a / n / x of the output's own
           .note.GNU-stack section, which is what a later final link sees; -r members with a -z
           option are enumerated and counted but not judged, because GNU ld's result there depends
           on the order of the inputs ("a n" -z execstack -> x, "n a" -z execstack -> n).
           Oracle: GNU ld on the same member; nothing else (which inputs "imply" an executable
           stack is GNU ld's behaviour, observed, not recollected).
  prop     2 or 3 input objects (quick: all 81 pairs + the stated subset of triples; thorough: all 729
           triples), each with `.note.gnu.property` in PROP_CHOICES (9 choices) x Z in {none,
           -z x86-64-v2, -z x86-64-v3 [, -z x86-64-v4: thorough; GNU ld 2.40 aborts on -z x86-64-baseline]
           [, -z ibt, -z shstk: only if wild accepts them without "not yet supported"]} x kind.
           Observable: the decoded property list (pr_type -> bytes) of the output's
           NT_GNU_PROPERTY_TYPE_0 note(s); for exe / -shared also the presence of PT_GNU_PROPERTY.
           Oracle 1: GNU ld on the same member. Oracle 2 (model below, written from the x86-64 psABI
           and the gABI supplement's ranges): AND-class = AND over all relocatable inputs (an input
           without the property counts as 0), OR-class = OR, OR-AND class = OR if every input has
           it. A violation is raised only where oracle 2 AGREES with GNU ld; disagreements are
           counted, sampled in the evidence and excluded.
  extras   every ordered pair (base choice, extra choice) and (extra, base): unknown types in the
           psABI AND range and in the gABI AND / OR ranges, a note with two and with three
           properties, 4-byte section alignment, non-zero pad bytes, a zero-sized type-0 property
           as inner padding, second values for the ISA properties x kind.
  solib    1 or 2 objects (prop choices) + a shared library built by GNU ld that carries a
           property note (IBT|SHSTK / ISA needed / unknown OR / none): shared libraries must not
           contribute. Same oracles (the model ignores the library).

Keys name the cause class, e.g. `stack:exe:z=none:missing-note:ld=exec:wild=noexec`,
`prop:exe:FEATURE_1_AND:missing:z=none`, `status:prop:trailing-padding:wild-rejects`."""
import itertools
import json
import os
import random
import struct
import subprocess
import sys

sys.path.insert(0, os.path.join(os.path.dirname(os.path.abspath(__file__)), "..", "lib"))
import vlib
import wildrun
import elfread
import elfgen
from elfgen import SHF_ALLOC, SHF_EXECINSTR, SHT_NOTE, STT_FUNC

F1AND, ISA_NEEDED, ISA_USED = 0xc0000002, 0xc0008002, 0xc0010002
UNK_OR, UNK_AND, G_OR, G_AND = 0xc0008100, 0xc0000100, 0xb0008001, 0xb0000001
TYPE_NAMES = {F1AND: "FEATURE_1_AND", ISA_NEEDED: "ISA_1_NEEDED", ISA_USED: "ISA_1_USED",
              UNK_OR: "unknown-x86-OR", UNK_AND: "unknown-x86-AND", G_OR: "unknown-gabi-OR",
              G_AND: "unknown-gabi-AND"}
KINDS = {"exe": [], "shared": ["-shared"], "r": ["-r"]}


def u32(v):
    return struct.pack("<I", v)


def note(desc):
    return struct.pack("<III", 4, len(desc), 5) + b"GNU\0" + desc


def prop_bytes(props, pad=bytes(4)):
    return b"".join(struct.pack("<II", t, 4) + u32(v) + pad for t, v in props)


# name -> (properties the model sees | None for "no note", raw section bytes | None, sh_addralign)
def _choice(props, raw=None, align=8):
    if props is not None and raw is None:
        raw = note(prop_bytes(props))
    return (props, raw, align)


PROP_CHOICES = {
    "absent": _choice(None),
    "IBT": _choice([(F1AND, 1)]),
    "SHSTK": _choice([(F1AND, 2)]),
    "IBT|SHSTK": _choice([(F1AND, 3)]),
    "NEEDED:v2": _choice([(ISA_NEEDED, 2)]),
    "NEEDED:v3": _choice([(ISA_NEEDED, 4)]),
    "USED:base": _choice([(ISA_USED, 1)]),
    "unknown-OR": _choice([(UNK_OR, 0x10)]),
    # IBT|SHSTK followed by 8 zero bytes after the note, inside the section (GNU ld accepts it silently).
    "trailing-padding": _choice([(F1AND, 3)], note(prop_bytes([(F1AND, 3)])) + bytes(8)),
}
EXTRA_CHOICES = {
    "unknown-AND": _choice([(UNK_AND, 5)]),
    "gabi-OR": _choice([(G_OR, 6)]),
    "gabi-AND": _choice([(G_AND, 3)]),
    "two:IBT+NEEDED:v2": _choice([(F1AND, 1), (ISA_NEEDED, 2)]),
    "three:SHSTK+NEEDED:v3+USED": _choice([(F1AND, 2), (ISA_NEEDED, 4), (ISA_USED, 2)]),
    "align4": _choice([(F1AND, 3)], align=4),
    "garbage-pad": _choice([(F1AND, 3)], note(prop_bytes([(F1AND, 3)], pad=b"\xaa\xbb\xcc\xdd"))),
    "inner-zero-property": _choice([(F1AND, 3)], note(prop_bytes([(F1AND, 3)]) + bytes(8))),
    "USED:v2": _choice([(ISA_USED, 2)]),
    "NEEDED:base": _choice([(ISA_NEEDED, 1)]),
}
ALL_CHOICES = {**PROP_CHOICES, **EXTRA_CHOICES}
BASE_FOR_EXTRAS = ["absent", "IBT|SHSTK", "NEEDED:v3", "USED:base"]
SO_CHOICES = ["absent", "IBT|SHSTK", "NEEDED:v3", "unknown-OR"]
Z_BITS = {"x86-64-baseline": (ISA_NEEDED, 1), "x86-64-v2": (ISA_NEEDED, 2),
          "x86-64-v3": (ISA_NEEDED, 4), "x86-64-v4": (ISA_NEEDED, 8),
          "ibt": (F1AND, 1), "shstk": (F1AND, 2)}


def fname(s):
    return "".join(c if c.isalnum() else "_" for c in s)


def write_obj(path, idx, stack, choice):
    """Object number idx (1-based): global function f<idx> (object 1: also _start)."""
    o = elfgen.ElfObject("x86_64")
    t = o.section(".text", flags=SHF_ALLOC | SHF_EXECINSTR, align=16, data=b"\xc3")
    o.symbol(f"f{idx}", section=t, type=STT_FUNC, size=1)
    if idx == 1:
        o.symbol("_start", section=t, type=STT_FUNC, size=1)
    if stack == "n":
        o.note_gnu_stack(False)
    elif stack == "x":
        o.note_gnu_stack(True)
    _props, raw, align = ALL_CHOICES[choice]
    if raw is not None:
        o.section(".note.gnu.property", SHT_NOTE, SHF_ALLOC, align, raw)
    o.write(path)


def obj_name(idx, stack, choice):
    return f"o{idx}_{stack}_{fname(choice)}.o"


def materialise(d, members):
    """Write every object (and shared library) the members need into directory d."""
    os.makedirs(d, exist_ok=True)
    built = 0
    for m in members:
        for idx, (stack, choice) in enumerate(m["objs"], 1):
            p = os.path.join(d, obj_name(idx, stack, choice))
            if not os.path.exists(p):
                write_obj(p, idx, stack, choice)
        if m.get("so") is not None:
            so = os.path.join(d, f"libso_{fname(m['so'])}.so")
            if not os.path.exists(so):
                src = os.path.join(d, f"so_src_{fname(m['so'])}.o")
                write_obj(src, 9, "n", m["so"])
                r = subprocess.run(["ld", "-shared", "-soname", os.path.basename(so), src, "-o", so],
                                   stdout=subprocess.PIPE, stderr=subprocess.PIPE)
                if r.returncode != 0:
                    raise RuntimeError("building %s: %s" % (so, r.stderr.decode()))
                built += 1
    return built


def member_argv(m):
    argv = list(KINDS[m["kind"]])
    for z in m["z"]:
        argv += ["-z", z]
    argv += [obj_name(i, s, c) for i, (s, c) in enumerate(m["objs"], 1)]
    if m.get("so") is not None:
        argv.append(f"libso_{fname(m['so'])}.so")
    return argv


def label(m):
    objs = ",".join(f"{s}/{c}" if m["fam"] != "stack" else s for s, c in m["objs"])
    return (f"{m['fam']} kind={m['kind']} z={'+'.join(m['z']) or 'none'} objs=[{objs}]"
            + (f" so={m['so']}" if m.get("so") is not None else ""))


# ---------------------------------------------------------------------------------------------
# observation

def observe(path, kind):
    """What the statement is about, read with elfread."""
    try:
        e = elfread.Elf(path)
        ob = {}
        if kind == "r":
            secs = e.sections_named(".note.GNU-stack")
            ob["stack"] = ("a" if not secs else
                           "x" if any(s.sh_flags & SHF_EXECINSTR for s in secs) else "n")
        else:
            segs = [p for p in e.segments if p.p_type == elfread.PT_GNU_STACK]
            ob["stack"] = ("none" if not segs else
                           "exec" if any(p.p_flags & elfread.PF_X for p in segs) else "noexec")
        ob["props"] = sorted((t, d.hex()) for t, d in e.gnu_properties())
        ob["pt_prop"] = any(p.p_type == elfread.PT_GNU_PROPERTY for p in e.segments)
        return ob
    except (elfread.ElfError, OSError, struct.error) as ex:
        return {"unreadable": f"{type(ex).__name__}: {ex}"}


_WD = {}


def workdir(base):
    d = _WD.get((os.getpid(), base))
    if d is None:
        d = _WD[(os.getpid(), base)] = os.path.join(base, f"w{os.getpid()}")
        os.makedirs(d, exist_ok=True)
    return d


def run_member(item):
    idx, m, base = item
    d = os.path.join(base, "in")
    wd = workdir(base)
    argv = member_argv(m)
    lout, wout = os.path.join(wd, "ld.out"), os.path.join(wd, "wild.out")
    for p in (lout, wout):
        try:
            os.unlink(p)
        except OSError:
            pass
    p = subprocess.run(["ld", *argv, "-o", lout], cwd=d, stdin=subprocess.DEVNULL,
                       stdout=subprocess.PIPE, stderr=subprocess.PIPE)
    ld_rc, ld_msg = p.returncode, p.stderr.decode("utf-8", "replace")
    w_rc, w_msg = wildrun.server_link([*argv, "-o", wout], cwd=d)
    res = dict(idx=idx, ld_rc=ld_rc, ld_msg=ld_msg[-400:], w_rc=w_rc, w_msg=str(w_msg)[-400:])
    res["ld"] = observe(lout, m["kind"]) if ld_rc == 0 else None
    res["wild"] = observe(wout, m["kind"]) if w_rc == 0 else None
    return res


# ---------------------------------------------------------------------------------------------
# oracle 2: the model of the property merge

def prop_class(t):
    if 0xc0000002 <= t <= 0xc0007fff or 0xb0000000 <= t <= 0xb0007fff:
        return "and"
    if 0xc0008000 <= t <= 0xc000ffff or 0xb0008000 <= t <= 0xb000ffff:
        return "or"
    if 0xc0010000 <= t <= 0xc0017fff:
        return "or_and"
    return None


def model_props(m):
    inputs = [dict(ALL_CHOICES[c][0] or []) for _s, c in m["objs"]]     # shared library: ignored
    out = {}
    for t in sorted({t for i in inputs for t in i}):
        cls = prop_class(t)
        have = [i[t] for i in inputs if t in i]
        if cls == "and":
            v = 0xffffffff
            for i in inputs:
                v &= i.get(t, 0)
            if v:
                out[t] = v
        elif cls == "or":
            v = 0
            for x in have:
                v |= x
            if v:
                out[t] = v
        elif cls == "or_and":
            if len(have) == len(inputs):
                v = 0
                for x in have:
                    v |= x
                out[t] = v
    for z in m["z"]:
        if z in Z_BITS:
            t, bit = Z_BITS[z]
            out[t] = out.get(t, 0) | bit
    return sorted((t, u32(v).hex()) for t, v in out.items())


def stack_cause(m):
    s = {st for st, _c in m["objs"]}
    if "x" in s:
        return "exec-note"
    if s == {"a"}:
        return "no-notes"
    if "a" in s:
        return "missing-note"
    return "all-nonexec"


def prop_cause(m):
    """Cause class of a status difference in the property families."""
    names = [c for _s, c in m["objs"]]
    for special in ("trailing-padding", "inner-zero-property", "align4", "garbage-pad"):
        if special in names:
            return special
    if m.get("so") is not None:
        return "with-shared-library"
    return "plain"


def judge(m, r, stats):
    """-> [(key, what)]. Also updates the counters in stats."""
    out = []
    kind, z = m["kind"], "+".join(m["z"]) or "none"
    fam = m["fam"]
    if fam == "stack" and m["z"]:
        z = m["z"][-1]              # the last of -z execstack / -z noexecstack wins in both linkers
    ld, wd = r["ld"], r["wild"]
    stats["evaluations"] += 1
    if r["ld_rc"] != 0:
        stats["ld_rejects"] += 1
        if r["w_rc"] == 0:
            stats["ld_rejects_wild_accepts"] += 1
        stats["ld_reject_samples"].setdefault(r["ld_msg"].strip()[-160:], label(m))
        return out
    if ld is None or "unreadable" in ld:
        stats["machinery"].append(f"{label(m)}: GNU ld output unreadable: {ld}")
        return out
    if fam == "stack":
        stats["ld_outcomes"].add(("stack", kind, ld["stack"]))
    else:
        stats["ld_outcomes"].add(("prop", tuple(ld["props"])))
    if r["w_rc"] != 0:
        cause = stack_cause(m) if fam == "stack" else prop_cause(m)
        stats["wild_rejects"] += 1
        if fam == "stack":
            out.append((f"stack:{kind}:z={z}:{cause}:ld={ld['stack']}:wild=error",
                        f"GNU ld links (stack {ld['stack']}), wild fails: rc={r['w_rc']} {r['w_msg'][:200]}"))
        else:
            out.append((f"status:prop:{cause}:wild-rejects",
                        f"GNU ld links (properties {fmt_props(ld['props'])}), wild fails: "
                        f"rc={r['w_rc']} {r['w_msg'][:200]}"))
        return out
    if wd is None or "unreadable" in wd:
        out.append((f"{fam}:{kind}:unreadable-output", f"wild's output cannot be decoded: {wd}"))
        return out
    if fam == "stack":
        if kind == "r" and m["z"]:
            # GNU ld's -r with -z execstack / noexecstack depends on the order of the inputs
            # ("a n" -> x, "n a" -> n): not a usable reference. Enumerated and counted only.
            stats["stack_r_with_z_not_judged"] += 1
            if ld["stack"] != wd["stack"]:
                stats["stack_r_with_z_differs"] += 1
            return out
        if kind == "r":
            same = ld["stack"] == wd["stack"]
        else:
            same = (ld["stack"] == "exec") == (wd["stack"] == "exec")
            if ld["stack"] != wd["stack"] and same:
                stats["stack_presence_differs"] += 1
        if not same:
            out.append((f"stack:{kind}:z={z}:{stack_cause(m)}:ld={ld['stack']}:wild={wd['stack']}",
                        f"GNU ld: {ld['stack']}; wild: {wd['stack']}"))
        stats["stack_judged"] += 1
        if {st for st, _c in m["objs"]} != {"n"}:
            stats["stack_nontrivial"] += 1
        return out
    # property families
    model = model_props(m)
    agree = [list(x) for x in model] == [list(x) for x in ld["props"]]
    if not agree:
        stats["model_disagrees"] += 1
        k = f"{kind}:z={z}:{prop_cause(m)}"
        stats["model_disagree_classes"].setdefault(k, dict(
            n=0, sample=label(m), model=fmt_props(model), ld=fmt_props(ld["props"]),
            wild=fmt_props(wd["props"])))["n"] += 1
        if [list(x) for x in wd["props"]] != [list(x) for x in ld["props"]]:
            stats["model_disagrees_and_wild_differs"] += 1
        return out
    stats["prop_judged"] += 1
    if ld["props"] and len({c for _s, c in m["objs"]}) > 1:
        stats["prop_nontrivial"] += 1
    lp, wp = lists_to_dict(ld["props"]), lists_to_dict(wd["props"])
    for t in sorted(set(lp) | set(wp)):
        if lp.get(t) == wp.get(t):
            continue
        diff = "missing" if t not in wp else "extra" if t not in lp else "value"
        tn = TYPE_NAMES.get(t, hex(t))
        out.append((f"prop:{kind}:{tn}:{diff}:z={z}",
                    f"property {tn} ({t:#x}): GNU ld and the model {lp.get(t)}, wild {wp.get(t)} "
                    f"(all properties: ld {fmt_props(ld['props'])}, wild {fmt_props(wd['props'])})"))
    if not out and kind != "r" and ld["pt_prop"] != wd["pt_prop"]:
        out.append((f"pt-gnu-property:{kind}:ld={int(ld['pt_prop'])}:wild={int(wd['pt_prop'])}",
                    f"PT_GNU_PROPERTY present: GNU ld {ld['pt_prop']}, wild {wd['pt_prop']} "
                    f"(properties {fmt_props(ld['props'])})"))
    return out


def lists_to_dict(props):
    d = {}
    for t, v in props:
        d.setdefault(t, []).append(v)
    return d


def fmt_props(props):
    return "{" + ", ".join(f"{TYPE_NAMES.get(t, hex(t))}={v}" for t, v in props) + "}"


# ---------------------------------------------------------------------------------------------
# the families

def wild_accepts_z(z, base):
    d = os.path.join(base, "in")
    write_obj(os.path.join(d, "probe.o"), 1, "n", "IBT|SHSTK")
    rc, msg = wildrun.server_link(["-z", z, "probe.o", "-o", os.path.join(base, "probe.out")], cwd=d)
    return rc == 0 and "not yet supported" not in str(msg) and "unsupported" not in str(msg).lower()


def members(tier, z_extra):
    ms = []
    thorough = tier == "thorough"
    zs = [[], ["execstack"], ["noexecstack"]]
    if thorough:
        zs += [["execstack", "noexecstack"], ["noexecstack", "execstack"]]
    for n in (1, 2, 3):
        for states in itertools.product("anx", repeat=n):
            for z in zs:
                for kind in KINDS:
                    ms.append(dict(fam="stack", kind=kind, z=z, objs=[(s, "absent") for s in states]))
    names = list(PROP_CHOICES)
    zp = [[], ["x86-64-v2"], ["x86-64-v3"]] + [[z] for z in z_extra]
    if thorough:
        zp += [["x86-64-v4"]]     # not x86-64-baseline: GNU ld 2.40 aborts on it (internal error
        #                           in _bfd_x86_elf_merge_gnu_properties), so there is no reference
        combos = list(itertools.product(names, repeat=2)) + list(itertools.product(names, repeat=3))
    else:
        # quick: all pairs; triples = (c, c, d) and (c, d, d) patterns with the absent object in
        # every position, i.e. every triple in which at most two distinct choices occur and one of
        # them is "absent", plus all triples of three identical choices.
        combos = list(itertools.product(names, repeat=2))
        combos += [t for t in itertools.product(names, repeat=3)
                   if len(set(t)) == 1 or (len(set(t)) == 2 and "absent" in t)]
    for combo in combos:
        for z in zp:
            for kind in KINDS:
                if not thorough and len(combo) == 3 and (z or kind == "r") and len(set(combo)) > 1:
                    continue        # quick: triples only without -z, exe / -shared
                ms.append(dict(fam="prop", kind=kind, z=z, objs=[("n", c) for c in combo]))
    for b in BASE_FOR_EXTRAS + (["NEEDED:v2"] if thorough else []):
        for x in EXTRA_CHOICES:
            for pair in ((b, x), (x, b)):
                for kind in KINDS:
                    ms.append(dict(fam="extras", kind=kind, z=[], objs=[("n", c) for c in pair]))
    for x in EXTRA_CHOICES:
        for kind in KINDS:
            ms.append(dict(fam="extras", kind=kind, z=[], objs=[("n", x)]))
    so_objs = [(c,) for c in names]
    so_objs += list(itertools.product(names, repeat=2)) if thorough else \
        [(a, b) for a in ("absent", "IBT|SHSTK", "NEEDED:v2") for b in names]
    for combo in so_objs:
        for so in SO_CHOICES:
            for kind in ("exe", "shared"):
                ms.append(dict(fam="solib", kind=kind, z=[], objs=[("n", c) for c in combo], so=so))
    seen, uniq = set(), []
    for m in ms:                 # identical command lines (e.g. two region forms that coincide) once
        k = tuple(member_argv(m))
        if k not in seen:
            seen.add(k)
            uniq.append(m)
    return uniq


def new_stats():
    return dict(evaluations=0, ld_rejects=0, ld_rejects_wild_accepts=0, ld_reject_samples={},
                wild_rejects=0, stack_judged=0, stack_nontrivial=0, stack_r_with_z_not_judged=0,
                stack_r_with_z_differs=0, stack_presence_differs=0, prop_judged=0,
                prop_nontrivial=0, model_disagrees=0, model_disagrees_and_wild_differs=0,
                model_disagree_classes={}, ld_outcomes=set(), machinery=[])


def replay(chk):
    with open(chk.args.replay) as f:
        doc = json.load(f)
    m = doc["replay"]["member"]
    keep = os.environ.get("VERIF_KEEP")
    with vlib.scratch("c36r") as base:
        if keep:
            base = keep
        materialise(os.path.join(base, "in"), [m])
        r = run_member((0, m, base))
        st = new_stats()
        found = judge(m, r, st)
        print("inputs in", os.path.join(base, "in"), "(set VERIF_KEEP=<dir> to keep them)")
        print("ld  ", " ".join(member_argv(m)), "-o ld.out    ->", r["ld_rc"], r["ld"], r["ld_msg"][:200])
        print("wild", " ".join(member_argv(m)), "-o wild.out  ->", r["w_rc"], r["wild"], r["w_msg"][:200])
        print("model", fmt_props(model_props(m)) if m["fam"] != "stack" else "-")
    for key, what in found:
        print("FINDING", key, what)
    bad = any(key == doc["key"] for key, _ in found)
    print("REPRODUCED" if bad else "not reproduced")
    sys.exit(1 if bad else 0)


def main():
    chk = vlib.Check("C36", "exploration")
    if not chk.args.no_build:
        vlib.build("wild")
    if chk.args.replay:
        return replay(chk)
    stats = new_stats()
    with vlib.scratch("c36") as base:
        os.makedirs(os.path.join(base, "in"))
        z_extra = [z for z in ("ibt", "shstk") if wild_accepts_z(z, base)]
        ms = members(chk.tier, z_extra)
        if chk.seed:
            random.Random(chk.seed).shuffle(ms)
        n_so = materialise(os.path.join(base, "in"), ms)
        results = wildrun.pmap(run_member, [(i, m, base) for i, m in enumerate(ms)])
        per_fam = {}
        keys = {}
        for r in results:
            m = ms[r["idx"]]
            pf = per_fam.setdefault(m["fam"], dict(members=0, findings=0))
            pf["members"] += 1
            for key, what in judge(m, r, stats):
                pf["findings"] += 1
                keys[key] = keys.get(key, 0) + 1
                chk.violation(key, f"{label(m)}: {what}",
                              {"member": m, "ld": "ld " + " ".join(member_argv(m)) + " -o ld.out",
                               "wild": "wild " + " ".join(member_argv(m)) + " -o wild.out",
                               "how": "VERIF_KEEP=/dev/shm/c36keep python3 checks/c36.py --no-build "
                                      "--replay <this file> writes the inputs (elfgen) into "
                                      "$VERIF_KEEP/in and re-runs both linkers"})
    if stats["machinery"]:
        chk.machinery("; ".join(stats["machinery"][:3]))
    if stats["prop_judged"] < 100 or stats["stack_judged"] < 50:
        chk.machinery(f"vacuous: only {stats['prop_judged']} property members and "
                      f"{stats['stack_judged']} stack members were judged")
    chk.coverage = {
        "evaluations": stats["evaluations"],
        "distinct_nontrivial": stats["prop_nontrivial"] + stats["stack_nontrivial"],
        "distinct_gnu_ld_outcomes": len(stats["ld_outcomes"]),
        "rule": "stack: {a,n,x}^n for n=1..3 x Z x {exe,-shared,-r}; prop: " +
                ("all 81 pairs + all 729 triples" if chk.thorough else
                 "all 81 pairs x Z x kind, + triples with <= 2 distinct choices one of which is "
                 "'absent' (and all-identical triples), those only without -z and for exe/-shared") +
                " of the 9 PROP_CHOICES x Z x kind; extras: every ordered pair of a base choice and "
                "an extra choice + each extra alone x kind; solib: " +
                ("(9 + 81)" if chk.thorough else "(9 + 27)") + f" object combinations x {len(SO_CHOICES)} shared "
                "libraries x {exe,-shared}. Identical command lines (prop members without any note = stack "
                "members) are enumerated once, so members are pairwise distinct; distinct_nontrivial = judged "
                "stack members in which some input lacks the note or asks for an executable stack + "
                "judged property members whose inputs differ from each other and whose merged list is "
                "not empty; distinct_gnu_ld_outcomes = distinct (stack state per kind | decoded property "
                "list) results of GNU ld.",
        "members": len(ms), "per_family": per_fam,
        "gnu_ld_links": len(ms) + n_so, "subprocesses": len(ms) + n_so, "wild_links": len(ms) + 2,
        "z_options_property_family": sorted({z for m in ms if m["fam"] == "prop" for z in m["z"]}),
        "z_options_not_accepted_by_wild": [z for z in ("ibt", "shstk") if z not in z_extra],
        "stack_members_judged": stats["stack_judged"],
        "stack_members_where_only_segment_presence_differs": stats["stack_presence_differs"],
        "stack_r_members_with_z_option_enumerated_not_judged": stats["stack_r_with_z_not_judged"],
        "of_those_section_state_differs_from_ld": stats["stack_r_with_z_differs"],
        "property_members_judged_model_and_ld_agree": stats["prop_judged"],
        "property_members_with_differing_inputs_and_nonempty_result": stats["prop_nontrivial"],
        "stack_members_judged_not_all_plain_notes": stats["stack_nontrivial"],
        "property_members_excluded_model_vs_ld": stats["model_disagrees"],
        "of_those_wild_differs_from_ld": stats["model_disagrees_and_wild_differs"],
        "model_vs_ld_disagreement_classes": stats["model_disagree_classes"],
        "gnu_ld_rejects": stats["ld_rejects"],
        "gnu_ld_rejects_wild_accepts": stats["ld_rejects_wild_accepts"],
        "gnu_ld_reject_samples": stats["ld_reject_samples"],
        "wild_rejects_ld_accepts": stats["wild_rejects"],
        "finding_keys": keys,
        "samples": [label(ms[0]), label(ms[len(ms) // 3]), label(ms[len(ms) // 2]), ms[-1]],
        "exhaustive": True,
    }
    chk.assumptions = [
        "x86-64 only (GNU ld 2.40 is the reference); property values are 4-byte words",
        "a missing PT_GNU_STACK is treated as 'not executable' (x86-64 Linux >= 5.8 semantics); only "
        "executability is judged for exe / -shared, the exact section state for -r without -z "
        "options; -r with -z execstack / noexecstack is enumerated but not judged (GNU ld's result "
        "is input-order dependent there)",
        "a property difference is a violation only where the psABI model and GNU ld agree",
        "-z ibt / -z shstk are enumerated only if wild accepts them (it warns 'not yet supported')",
    ]
    chk.finish()


if __name__ == "__main__":
    main()
