#!/usr/bin/env python3
"""C37 - DT_NEEDED lists exactly the required libraries.

Bounded-exhaustive family of dynamic links against three shared libraries L1..L3 (built once by GNU
ld from elfgen objects). Every member is linked by the real wild (in-process server) and by GNU ld
2.40; the observable is the DT_NEEDED *sequence* (names and order) read with elfread.

Libraries. Lj defines function f<j>, data object d<j> and the functions e<j>, e<next(j)> (so e<i> is
defined by L<i> and by L<prev(i)>; ring 1->2->3->1). Variants: `libL<j>.so` (DT_SONAME libL<j>.so.1),
`libL<j>d.so` (same soname; f<j> calls f<prev(j)> and the library has DT_NEEDED libL<prev(j)>.so.1),
`libN<j>.so` (no DT_SONAME).

Per-library reference kind (how the output refers to Lj):
  none     not at all
  strong   call f<j>                                  (undefined GLOBAL, R_X86_64_PLT32)
  weak     call f<j> through a WEAK undefined symbol only
  data     exe: lea d<j>(%rip) (R_X86_64_PC32 -> copy relocation in the non-PIE exe);
           -shared: mov d<j>@GOTPCREL(%rip)
  viadep   the output does not mention Lj, but L<next(j)> is the `d` variant whose own DT_NEEDED
           names Lj and which calls f<j>
  duplib   call e<j>, which an earlier library on the command line may also define
  dupobj   call f<j>, and an input object def<j>.o defines f<j> as well
Region of each library mention: as-needed or not, written in one of six forms (three nested
--push-state forms `nest-inherit`, `nest-inherit-inv`, `nest-restore`: depth-2 regions whose inner
level must inherit from / restore to the enclosing level; and `toggle`:
--as-needed / --no-as-needed where the state changes; `pushpop`: --push-state --as-needed L
--pop-state; `invpushpop`: a leading --as-needed and --push-state --no-as-needed L --pop-state).
Objects always precede the libraries (GNU ld decides --as-needed "at that point in the link").

Families (sizes are reported in the evidence):
  main     kinds^3 x regions 2^3 x command-line order (3!) x {exe, -shared}, form toggle, by path
  forms    the five other region forms
  naming   kinds {none, strong, weak}^3 x {libL (soname), libN (no soname)} x named by
           {path, ./path, -L. -l} x regions x orders
  twice    L1 named twice around L2 (second time by the same path, by ./path or by -l), each
           mention in its own region
Thinning per tier is stated in coverage["rule"].

Oracles: (1) GNU ld on the same member; (2) the model below, written from the statement: a mention
qualifies if it is outside --as-needed, or the library is the first one on the command line that
defines some symbol the output's objects reference non-weakly and do not define themselves; the
needed list has one entry per library with a qualifying mention, ordered by command line position,
named by DT_SONAME (no soname: the file name as GNU ld records it - path as given, or lib<x>.so
for -l). A violation needs (1) and (2) to AGREE and wild's sequence to differ; members where the
model and GNU ld disagree are logged by class, counted and excluded. A link that only one of the
linkers rejects is class `status`: a violation if wild rejects where the oracles agree, otherwise
counted.

Keys name the cause: `needed:<kind>:<region>:<missing|extra>:<exe|shared>`, `order:<out>`,
`duplicate-entry:<out>`, `name:<soname|no-soname>:<naming>`, `status:wild-rejects:<out>:dropped=<kinds>`."""
import itertools
import json
import os
import random
import subprocess
import sys

sys.path.insert(0, os.path.join(os.path.dirname(os.path.abspath(__file__)), "..", "lib"))
import vlib
import wildrun
import elfread
import elfgen
from elfgen import (SHF_ALLOC, SHF_EXECINSTR, SHF_WRITE, STT_FUNC, STT_OBJECT, STB_WEAK, STB_GLOBAL)

KINDS = ["none", "strong", "weak", "data", "viadep", "duplib", "dupobj"]
NEXT = {1: 2, 2: 3, 3: 1}
PREV = {2: 1, 3: 2, 1: 3}
R_PC32, R_PLT32, R_GOTPCREL = 2, 4, 9
FORMS = ["toggle", "pushpop", "invpushpop", "nest-inherit", "nest-inherit-inv", "nest-restore"]


# ---------------------------------------------------------------------------------------------
# inputs

def lib_defs(j):
    return {f"f{j}", f"d{j}", f"e{j}", f"e{NEXT[j]}"}


def write_lib_obj(path, j, dep):
    o = elfgen.ElfObject("x86_64")
    code = bytearray(b"\x90" * 32)
    t = o.section(".text", flags=SHF_ALLOC | SHF_EXECINSTR, align=16, data=b"")
    if dep:
        code[0:6] = b"\xe8\0\0\0\0\xc3"
    else:
        code[0:1] = b"\xc3"
    code[8] = 0xc3
    code[16] = 0xc3
    t.data = bytes(code)
    o.symbol(f"f{j}", section=t, value=0, type=STT_FUNC, size=6)
    o.symbol(f"e{j}", section=t, value=8, type=STT_FUNC, size=1)
    o.symbol(f"e{NEXT[j]}", section=t, value=16, type=STT_FUNC, size=1)
    if dep:
        o.reloc(t, 1, R_PLT32, o.symbol(f"f{PREV[j]}"), -4)
    d = o.section(".data", flags=SHF_ALLOC | SHF_WRITE, align=8, data=bytes([j] * 8))
    o.symbol(f"d{j}", section=d, type=STT_OBJECT, size=8)
    o.note_gnu_stack(False)
    o.write(path)


def write_def_obj(path, j):
    o = elfgen.ElfObject("x86_64")
    t = o.section(f".text.def{j}", flags=SHF_ALLOC | SHF_EXECINSTR, align=16, data=b"\xc3")
    o.symbol(f"f{j}", section=t, type=STT_FUNC, size=1)
    o.note_gnu_stack(False)
    o.write(path)


def main_refs(kinds):
    """[(symbol, weak, how)] the main object makes, in library order."""
    refs = []
    for j, k in enumerate(kinds, 1):
        if k in ("strong", "dupobj"):
            refs.append((f"f{j}", False, "call"))
        elif k == "weak":
            refs.append((f"f{j}", True, "call"))
        elif k == "data":
            refs.append((f"d{j}", False, "data"))
        elif k == "duplib":
            refs.append((f"e{j}", False, "call"))
    return refs


def write_main_obj(path, kinds, out):
    o = elfgen.ElfObject("x86_64")
    t = o.section(".text", flags=SHF_ALLOC | SHF_EXECINSTR, align=16, data=b"")
    code = bytearray()
    pending = []
    for sym, weak, how in main_refs(kinds):
        s = o.symbol(sym, bind=STB_WEAK if weak else STB_GLOBAL)
        if how == "call":
            pending.append((len(code) + 1, R_PLT32, s))
            code += b"\xe8\0\0\0\0"
        elif out == "exe":
            pending.append((len(code) + 3, R_PC32, s))
            code += b"\x48\x8d\x05\0\0\0\0"
        else:
            pending.append((len(code) + 3, R_GOTPCREL, s))
            code += b"\x48\x8b\x05\0\0\0\0"
    code += b"\xc3"
    t.data = bytes(code)
    o.symbol("_start", section=t, type=STT_FUNC, size=len(code))
    for off, rt, s in pending:
        o.reloc(t, off, rt, s, -4)
    o.note_gnu_stack(False)
    o.write(path)


def main_name(kinds, out):
    return "m_" + "_".join(kinds) + "_" + out + ".o"


def build_libs(d):
    """-> number of GNU ld runs."""
    os.makedirs(d, exist_ok=True)
    runs = 0

    def ld(*args):
        nonlocal runs
        r = subprocess.run(["ld", *args], cwd=d, stdout=subprocess.PIPE, stderr=subprocess.PIPE)
        runs += 1
        if r.returncode != 0:
            raise RuntimeError("ld %s: %s" % (" ".join(args), r.stderr.decode()))

    for j in (1, 2, 3):
        write_lib_obj(os.path.join(d, f"l{j}.o"), j, False)
        write_lib_obj(os.path.join(d, f"l{j}d.o"), j, True)
        write_def_obj(os.path.join(d, f"def{j}.o"), j)
        ld("-shared", "-soname", f"libL{j}.so.1", f"l{j}.o", "-o", f"libL{j}.so")
        ld("-shared", f"l{j}.o", "-o", f"libN{j}.so")
        os.symlink(f"libL{j}.so", os.path.join(d, f"libL{j}.so.1"))
    for j in (1, 2, 3):
        ld("-shared", "-soname", f"libL{j}.so.1", f"l{j}d.o", f"libL{PREV[j]}.so", "-o", f"libL{j}d.so")
        e = elfread.Elf(os.path.join(d, f"libL{j}d.so"))
        if e.needed() != [f"libL{PREV[j]}.so.1"] or e.soname() != f"libL{j}.so.1":
            raise RuntimeError(f"libL{j}d.so: unexpected dynamic section {e.needed()} {e.soname()}")
    for j in (1, 2, 3):
        if elfread.Elf(os.path.join(d, f"libN{j}.so")).soname() is not None:
            raise RuntimeError("libN has a soname")
    return runs


def lib_file(m, j):
    if not m["soname"]:
        return f"libN{j}.so"
    return f"libL{j}d.so" if m["kinds"][PREV[j] - 1] == "viadep" else f"libL{j}.so"


def lib_token(m, j, naming):
    f = lib_file(m, j)
    if naming == "path":
        return f
    if naming == "dotpath":
        return "./" + f
    return "-l" + f[3:-3]


def expected_name(m, j, naming):
    if m["soname"]:
        return f"libL{j}.so.1"
    return "./" + lib_file(m, j) if naming == "dotpath" else lib_file(m, j)


def member_argv(m):
    argv = ["-shared"] if m["out"] == "shared" else []
    if any(n == "l" for _j, _r, n in m["occ"]):
        argv.append("-L.")
    argv.append(main_name(m["kinds"], m["out"]))
    argv += [f"def{j}.o" for j, k in enumerate(m["kinds"], 1) if k == "dupobj"]
    form = m["form"]
    if form == "toggle":
        state = 0
        for j, r, n in m["occ"]:
            if r != state:
                argv.append("--as-needed" if r else "--no-as-needed")
                state = r
            argv.append(lib_token(m, j, n))
    elif form == "pushpop":
        for j, r, n in m["occ"]:
            argv += (["--push-state", "--as-needed", lib_token(m, j, n), "--pop-state"] if r
                     else [lib_token(m, j, n)])
    elif form == "invpushpop":
        argv.append("--as-needed")
        for j, r, n in m["occ"]:
            argv += ([lib_token(m, j, n)] if r else
                     ["--push-state", "--no-as-needed", lib_token(m, j, n), "--pop-state"])
    elif form == "nest-inherit":
        # nested regions: the inner --push-state must start from the enclosing region's state
        for j, r, n in m["occ"]:
            argv += (["--push-state", "--as-needed", "--push-state", lib_token(m, j, n),
                      "--pop-state", "--pop-state"] if r else [lib_token(m, j, n)])
    elif form == "nest-inherit-inv":
        argv.append("--as-needed")
        for j, r, n in m["occ"]:
            argv += ([lib_token(m, j, n)] if r else
                     ["--push-state", "--no-as-needed", "--push-state", lib_token(m, j, n),
                      "--pop-state", "--pop-state"])
    elif form == "nest-restore":
        # the inner region changes the state and pops: the enclosing region's state is back
        for j, r, n in m["occ"]:
            argv += (["--push-state", "--as-needed", "--push-state", "--no-as-needed",
                      "--pop-state", lib_token(m, j, n), "--pop-state"] if r
                     else ["--push-state", "--push-state", "--as-needed", "--pop-state",
                           lib_token(m, j, n), "--pop-state"])
    else:
        raise ValueError(form)
    return argv


def label(m):
    occ = " ".join(f"L{j}{'[as-needed]' if r else ''}{'' if n == 'path' else ':' + n}"
                   for j, r, n in m["occ"])
    return (f"{m['fam']} out={m['out']} kinds={','.join(m['kinds'])} cmdline: {occ} form={m['form']}"
            + ("" if m["soname"] else " no-soname"))


# ---------------------------------------------------------------------------------------------
# oracle 2: the model, from the statement

def model(m):
    """-> (set of acceptable DT_NEEDED sequences (tuples of names), {name: lib index},
    set of library indices that are dropped)."""
    kinds = m["kinds"]
    objdefs = {f"f{j}" for j, k in enumerate(kinds, 1) if k == "dupobj"}
    satisfier = set()
    for sym, weak, _how in main_refs(kinds):
        if weak or sym in objdefs:
            continue
        for j, _r, _n in m["occ"]:
            if sym in lib_defs(j):
                satisfier.add(j)
                break
    qualifying = {}
    names = {}
    for pos, (j, r, n) in enumerate(m["occ"]):
        if not r or j in satisfier:
            qualifying.setdefault(j, []).append((pos, expected_name(m, j, n)))
        names[expected_name(m, j, n)] = j
    libs = sorted(qualifying)
    acc = set()
    for choice in itertools.product(*[qualifying[j] for j in libs]):
        acc.add(tuple(name for _pos, name in sorted(choice)))
    dropped = {j for j, _r, _n in m["occ"]} - set(libs)
    return acc, names, dropped


# ---------------------------------------------------------------------------------------------
# running

_WD = {}


def workdir(base):
    d = _WD.get((os.getpid(), base))
    if d is None:
        d = _WD[(os.getpid(), base)] = os.path.join(base, f"w{os.getpid()}")
        os.makedirs(d, exist_ok=True)
    return d


def read_needed(path):
    try:
        return elfread.Elf(path).needed()
    except (elfread.ElfError, OSError) as ex:
        return f"unreadable: {type(ex).__name__}: {ex}"


def run_member(item):
    idx, m, base = item
    d = os.path.join(base, "in")
    wd = workdir(base)
    mp = os.path.join(d, main_name(m["kinds"], m["out"]))
    if not os.path.exists(mp):
        tmp = f"{mp}.{os.getpid()}"
        write_main_obj(tmp, m["kinds"], m["out"])
        os.replace(tmp, mp)
    argv = member_argv(m)
    lout, wout = os.path.join(wd, "ld.out"), os.path.join(wd, "wild.out")
    for p in (lout, wout):
        try:
            os.unlink(p)
        except OSError:
            pass
    env = dict(os.environ, LD_LIBRARY_PATH=d)
    p = subprocess.run(["ld", *argv, "-o", lout], cwd=d, env=env, stdin=subprocess.DEVNULL,
                       stdout=subprocess.PIPE, stderr=subprocess.PIPE)
    w_rc, w_msg = wildrun.server_link([*argv, "-o", wout], cwd=d)
    return dict(idx=idx, ld_rc=p.returncode, ld_msg=p.stderr.decode("utf-8", "replace")[-300:],
                w_rc=w_rc, w_msg=str(w_msg)[-300:],
                ld=read_needed(lout) if p.returncode == 0 else None,
                wild=read_needed(wout) if w_rc == 0 else None)


def region_of(m, j):
    rs = {r for jj, r, _n in m["occ"] if jj == j}
    return "as-needed" if rs == {1} else "no-as-needed" if rs == {0} else "mixed"


def member_class(m):
    """Class name used for logging disagreements between the model and GNU ld."""
    return (f"{m['fam']}:{m['out']}:{'soname' if m['soname'] else 'no-soname'}:named-by=" +
            "+".join(sorted({n for _j, _r, n in m["occ"]})) + ":kinds=" +
            "+".join(sorted({m['kinds'][j - 1] for j, _r, _n in m["occ"]})))


def judge(m, r, stats):
    out = []
    stats["evaluations"] += 1
    acc, names, dropped = model(m)
    o = m["out"]
    if r["ld_rc"] != 0:
        stats["ld_rejects"] += 1
        c = stats["ld_reject_classes"].setdefault(
            f"{o}:" + "+".join(sorted({m['kinds'][j - 1] for j in dropped})) + ":wild=" +
            ("accepts" if r["w_rc"] == 0 else "rejects"),
            dict(n=0, sample=label(m), ld=r["ld_msg"].strip()[-200:]))
        c["n"] += 1
        return out
    if not isinstance(r["ld"], list):
        stats["machinery"].append(f"{label(m)}: {r['ld']}")
        return out
    ld_seq = tuple(r["ld"])
    stats["ld_outcomes"].add((o, ld_seq))
    if ld_seq not in acc:
        stats["model_disagrees"] += 1
        c = stats["model_disagree_classes"].setdefault(
            member_class(m), dict(n=0, sample=label(m), model=sorted(acc)[:3], ld=list(ld_seq),
                                  wild=r["wild"], wild_differs_from_ld=0))
        c["n"] += 1
        if r["wild"] != list(ld_seq):
            c["wild_differs_from_ld"] += 1
            stats["model_disagrees_and_wild_differs"] += 1
        return out
    stats["judged"] += 1
    if dropped and len(ld_seq) >= 1:
        stats["nontrivial"] += 1
    if r["w_rc"] != 0:
        dk = "+".join(sorted({m["kinds"][j - 1] for j in dropped})) or "none"
        out.append((f"status:wild-rejects:{o}:dropped={dk}",
                    f"GNU ld links (DT_NEEDED {list(ld_seq)}), wild fails: rc={r['w_rc']} "
                    f"{r['w_msg'][:200]}"))
        return out
    if not isinstance(r["wild"], list):
        out.append((f"unreadable-output:{o}", str(r["wild"])))
        return out
    w_seq = tuple(r["wild"])
    if w_seq in acc:
        return out
    what = f"DT_NEEDED: wild {list(w_seq)}, GNU ld and the model {list(ld_seq)}"
    exp, got = set(ld_seq), set(w_seq)
    for name in sorted(exp - got):
        j = names[name]
        out.append((f"needed:{m['kinds'][j - 1]}:{region_of(m, j)}:missing:{o}", what))
    for name in sorted(got - exp):
        j = names.get(name)
        if j is None:
            nm = sorted({n for _j, _r, n in m["occ"]})
            out.append((f"name:{'soname' if m['soname'] else 'no-soname'}:{'+'.join(nm)}", what))
        else:
            out.append((f"needed:{m['kinds'][j - 1]}:{region_of(m, j)}:extra:{o}", what))
    if not out:
        if len(w_seq) != len(got):
            out.append((f"duplicate-entry:{o}" + (":twice" if m["fam"] == "twice" else ""), what))
        else:
            out.append((f"order:{o}" + (":twice" if m["fam"] == "twice" else ""), what))
    return out


# ---------------------------------------------------------------------------------------------
# the families

def mk(fam, out, kinds, occ, form="toggle", soname=True):
    return dict(fam=fam, out=out, kinds=list(kinds), occ=[list(x) for x in occ], form=form,
                soname=soname)


def members(tier):
    thorough = tier == "thorough"
    ms = []
    perms = list(itertools.permutations((1, 2, 3)))
    regs = list(itertools.product((0, 1), repeat=3))
    cube = list(itertools.product(KINDS, repeat=3))
    with_none = [k for k in cube if "none" in k]

    def occ(order, reg, naming="path"):
        return [(j, reg[j - 1], naming) for j in order]

    if thorough:
        for k in cube:
            for reg in regs:
                for order in perms:
                    ms.append(mk("main", "exe", k, occ(order, reg)))
                for order in ((1, 2, 3), (3, 2, 1)):
                    ms.append(mk("main", "shared", k, occ(order, reg)))
        for k in with_none:
            for reg in regs:
                for form in FORMS[1:]:
                    ms.append(mk("forms", "exe", k, occ((1, 2, 3), reg), form))
                    ms.append(mk("forms", "shared", k, occ((2, 3, 1), reg), form))
    else:
        for k in with_none:
            for reg in ((1, 1, 1), (1, 0, 1), (0, 1, 0)):
                for order in ((1, 2, 3), (3, 1, 2), (3, 2, 1)):
                    ms.append(mk("main", "exe", k, occ(order, reg)))
            ms.append(mk("main", "exe", k, occ((1, 2, 3), (0, 0, 0))))
            ms.append(mk("main", "shared", k, occ((1, 2, 3), (1, 1, 1))))
            ms.append(mk("main", "shared", k, occ((3, 2, 1), (1, 0, 1))))
        for k in itertools.product(("none", "strong", "weak"), repeat=3):
            for form in FORMS[1:]:
                if form.startswith("nest") and "weak" in k:
                    continue
                for reg in ((1, 0, 1), (0, 1, 1)):
                    ms.append(mk("forms", "exe", k, occ((1, 2, 3), reg), form))
    small = list(itertools.product(("none", "strong", "weak"), repeat=3))
    for k in small:
        for soname in (True, False):
            for naming in ("path", "dotpath", "l"):
                if soname and naming == "path":
                    continue            # that is the main family
                for reg in (regs if thorough else ((1, 1, 1), (0, 1, 0))):
                    for order in (((1, 2, 3), (3, 2, 1)) if thorough else ((2, 1, 3),)):
                        ms.append(mk("naming", "exe", k, occ(order, reg, naming), soname=soname))
    for k1 in ("none", "strong", "weak", "data"):
        for k2 in ("none", "strong"):
            for ra, r2, rb in regs:
                for second in ("path", "l", "dotpath"):
                    for out in ("exe", "shared"):
                        for soname in ((True, False) if thorough else (True,)):
                            if k1 == "data" and not soname:
                                continue
                            ms.append(mk("twice", out, (k1, k2, "none"),
                                         [(1, ra, "path"), (2, r2, "path"), (1, rb, second)],
                                         soname=soname))
    seen, uniq = set(), []
    for m in ms:                 # identical command lines (e.g. two region forms that coincide) once
        k = tuple(member_argv(m))
        if k not in seen:
            seen.add(k)
            uniq.append(m)
    return uniq


def new_stats():
    return dict(evaluations=0, judged=0, nontrivial=0, ld_rejects=0, ld_reject_classes={},
                model_disagrees=0, model_disagrees_and_wild_differs=0, model_disagree_classes={},
                ld_outcomes=set(), machinery=[])


def replay(chk):
    with open(chk.args.replay) as f:
        doc = json.load(f)
    m = doc["replay"]["member"]
    keep = os.environ.get("VERIF_KEEP")
    with vlib.scratch("c37r") as base:
        if keep:
            base = keep
        if not os.path.exists(os.path.join(base, "in", "libL3d.so")):
            build_libs(os.path.join(base, "in"))
        r = run_member((0, m, base))
        found = judge(m, r, new_stats())
        print("inputs in", os.path.join(base, "in"), "(set VERIF_KEEP=<dir> to keep them)")
        print("LD_LIBRARY_PATH=. ld", " ".join(member_argv(m)), "-o ld.out   ->", r["ld_rc"], r["ld"],
              r["ld_msg"][:200])
        print("wild", " ".join(member_argv(m)), "-o wild.out ->", r["w_rc"], r["wild"], r["w_msg"][:200])
        print("model accepts", sorted(model(m)[0]))
    for key, what in found:
        print("FINDING", key, what)
    bad = any(key == doc["key"] for key, _ in found)
    print("REPRODUCED" if bad else "not reproduced")
    sys.exit(1 if bad else 0)


def main():
    chk = vlib.Check("C37", "exploration")
    if not chk.args.no_build:
        vlib.build("wild")
    if chk.args.replay:
        return replay(chk)
    stats = new_stats()
    ms = members(chk.tier)
    if chk.seed:
        random.Random(chk.seed).shuffle(ms)
    keys = {}
    per_fam = {}
    with vlib.scratch("c37") as base:
        lib_runs = build_libs(os.path.join(base, "in"))
        results = wildrun.pmap(run_member, [(i, m, base) for i, m in enumerate(ms)])
        for r in results:
            m = ms[r["idx"]]
            pf = per_fam.setdefault(m["fam"], dict(members=0, findings=0))
            pf["members"] += 1
            seen = set()
            for key, what in judge(m, r, stats):
                if key in seen:
                    continue
                seen.add(key)
                pf["findings"] += 1
                keys[key] = keys.get(key, 0) + 1
                chk.violation(key, f"{label(m)}: {what}",
                              {"member": m,
                               "ld": "LD_LIBRARY_PATH=. ld " + " ".join(member_argv(m)) + " -o ld.out",
                               "wild": "wild " + " ".join(member_argv(m)) + " -o wild.out",
                               "how": "VERIF_KEEP=/dev/shm/c37keep python3 checks/c37.py --no-build "
                                      "--replay <this file> builds the libraries and objects into "
                                      "$VERIF_KEEP/in and re-runs both linkers there"})
    if stats["machinery"]:
        chk.machinery("; ".join(stats["machinery"][:3]))
    if stats["judged"] < len(ms) // 3 or stats["nontrivial"] < 20:
        chk.machinery(f"vacuous: {stats['judged']} of {len(ms)} members judged, "
                      f"{stats['nontrivial']} with a dropped library")
    chk.coverage = {
        "evaluations": stats["evaluations"],
        "distinct_nontrivial": stats["nontrivial"],
        "distinct_gnu_ld_outcomes": len(stats["ld_outcomes"]),
        "rule": ("thorough: main = kinds^3 (343) x regions (8) x {all 6 orders for exe; orders 123, 321 "
                 "for -shared}; forms = kind triples containing 'none' (127) x regions (8) x "
                 "{pushpop, invpushpop, nest-inherit, nest-inherit-inv, nest-restore (depth-2 --push-state)} x {exe order 123, -shared order 231}; naming = "
                 "{none,strong,weak}^3 x {soname by ./path, by -l; no-soname by path, ./path, -l} x "
                 "regions (8) x orders {123, 321}; twice = L1 kind {none,strong,weak,data} x L2 kind "
                 "{none,strong} x 3 mention regions (8) x second mention {path, -l, ./path} x {exe,-shared} x "
                 "{soname, no-soname}"
                 if chk.thorough else
                 "quick: main = kind triples containing 'none' (127: all pairs of per-library kinds with "
                 "the third library unreferenced, every position) x (regions {111,101,010} x orders "
                 "{123,312,321} + region 000 order 123) for exe, + 2 region/order combinations for -shared; forms = "
                 "{none,strong,weak}^3 x {pushpop, invpushpop} x regions {101,011} + {none,strong}^3 x the 3 nested --push-state forms x regions {101,011}; naming = "
                 "{none,strong,weak}^3 x 5 naming/soname combinations x regions {111,010} x order 213; "
                 "twice = as in thorough, soname libraries only") +
                ". Identical command lines (region forms that coincide) are enumerated once, so "
                "members are pairwise distinct; distinct_nontrivial = judged members "
                "(model and GNU ld agree) in which at least one library is dropped and at least one "
                "DT_NEEDED entry remains; distinct_gnu_ld_outcomes = distinct (output kind, GNU ld "
                "DT_NEEDED sequence) pairs observed.",
        "members": len(ms), "per_family": per_fam,
        "gnu_ld_links": len(ms) + lib_runs, "subprocesses": len(ms) + lib_runs,
        "wild_links": len(ms),
        "members_judged_model_and_ld_agree": stats["judged"],
        "members_excluded_model_vs_ld": stats["model_disagrees"],
        "of_those_wild_differs_from_ld": stats["model_disagrees_and_wild_differs"],
        "model_vs_ld_disagreement_classes": stats["model_disagree_classes"],
        "gnu_ld_rejects": stats["ld_rejects"],
        "gnu_ld_reject_classes": stats["ld_reject_classes"],
        "finding_keys": keys,
        "samples": [label(ms[0]), label(ms[len(ms) // 3]), label(ms[len(ms) // 2]), ms[-1]],
        "exhaustive": True,
    }
    chk.assumptions = [
        "x86-64, GNU ld 2.40 as reference; all objects precede the libraries on the command line",
        "outputs: non-PIE dynamically linked executable and -shared",
        "libraries without DT_SONAME: the expected name is what GNU ld records (and the model "
        "reproduces): the path as given, or lib<x>.so for -l",
        "GNU ld finds the dependency of a `d` library through LD_LIBRARY_PATH (the directory has "
        "libL<j>.so.1 symlinks); this does not change the command line",
    ]
    chk.finish()


if __name__ == "__main__":
    main()
