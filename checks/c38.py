#!/usr/bin/env python3
"""C38 - Every function and object has one address across modules.

Family (tinyprog `addrident`, lib/addrident.py): executable E + shared libraries A, B, all three
linked by wild, and the same member linked entirely by GNU ld as the reference.
  entity kind {function, data, IFUNC, TLS object, protected function, protected data}
  x definer {E, A}
  x per module the set of forms through which it takes the entity's address -- the full product of
    all subsets per module of the core forms
      E: direct (abs32 `mov $f,%eax` for functions in a non-PIE, `lea x(%rip)` otherwise), GOT
         (`mov x@GOTPCREL`), `.quad x` data initialiser, PLT call (functions);
      libraries: GOT, `.quad`, PLT call, and `lea` where the library binds locally (protected, -Bsymbolic);
      TLS: LE (definer E), IE, GD, TLSDESC
    plus (thorough) every extra instruction form (abs32s, abs64, lea, GOT via push / add, call *GOT,
    IE via mov) joined with every subset of that module's core forms, against a reduced list for
    the other two modules
  x E kind {non-PIE, PIE} x {lazy, -z now} x variant {plain, -Bsymbolic on A, -Bsymbolic-functions
    on A, -z nocopyreloc on E}.
Every (kind, use-triple) is one symbol; all symbols of a member are packed into one program which
prints, per site, the address it sees and what it reads / gets back through it; then E, A and B in
turn write through their view and everybody re-reads. Besides the all-wild program the modules are
recombined (wild's E with GNU ld's libraries and vice versa) to isolate the module at fault.

Oracle: two sites of an entity that see the same address in GNU ld's program must see the same
address in the program under test; a read that sees the entity's marker / the last write in GNU ld's
program must see it too. Sites GNU ld's program shows as differing (ELF semantics: -Bsymbolic,
protected, IFUNC corner cases) are excluded and counted. Second, static oracle on wild's files
(canonical PLT in E's .dynsym, symbolic library relocations, copy relocation shape), applied where
GNU ld's files have that shape.

Keys: <what>:<kind>:def=<definer>:E=<E kind>[+direct]:taker=<module>:way=<form>[:variant=..][:mix=..];
a violation seen only under a variant / extra form / mix / PIE is counted under the key of the same
case without it when that one is violated too.

Axis ALIASES (members `alias-...`, own programs so that the single-name members are unchanged): one data
object / function defined under 2-3 names
  binding pattern {S+S, S+W, W+S, S+S+W} (thorough: + W+W, S+W+S, W+S+S), in symbol order
  x st_size {equal for all names, different per name (data; which name is longest rotates)}
  x definer {E, A} x E kind {non-PIE, PIE}
  x which names E accesses directly (every subset: copy relocation / canonical PLT entry) x E's further
    indirect use (none, GOT or `.quad` through one name)
  x A: none, one name through GOT or `.quad`, all names through the GOT x B: none, one name / all names
    through the GOT,
all alias groups of a member packed into one program. Every (module, name, way) is one site; all sites
of a group are views of ONE entity: the address must be the same for every name and a write through any
view visible through every other. Referees: GNU ld and ld.lld on the same member; per alias group the
referee program with the coarsest address classes is the one that judges it (GNU ld 2.40 knows
weak->strong aliases only and itself gives a second non-weak name of a copy-relocated object another
address; ld.lld exports every name at the copy, so the statement is achievable as a whole on that very
member); where the two programs' classes are not comparable only pairs equal in both are demanded; sites
that differ in the judging program are counted, not judged. A mixed program is judged against the
referee whose modules it contains, on the groups where both referees' own programs have the same classes.
Static: every name of a copy-relocated object that a referee's E defines in .dynsym must be defined in
wild's E, at the address of the copy.
Alias keys: alias:<what>:<kind>:bind=<pattern>[:sizes=diff]:def=..:E=..:name=<S|W binding of the
differing view's name>:Edirect=<none|this|other(<bindings of the other names E accesses directly>)>
:taker=..:way=..[:mix=..] (the differing view: where E accesses the object directly, every view that is not
at E's address, otherwise as for single names); a
violation between two views through the SAME name is not about aliasing: alias:<single-name key>, counted
under the single-name key when that one is violated too.
"""
import json
import os
import re
import subprocess
import sys
import time

sys.path.insert(0, os.path.join(os.path.dirname(os.path.abspath(__file__)), "..", "lib"))
import vlib
import wildrun
import elfread
import addrident as ad

INTERP = "/lib64/ld-linux-x86-64.so.2"
# glibc's ld.so needs malloc in scope once a process has dependencies; never called by the programs.
LIBC = "/lib/x86_64-linux-gnu/libc.so.6"
NAME_RE = re.compile(r"\b(fn|dat|ifn|tls|pfn|pdat|adat|afn)_(\d+)(?:_n\d[a-zA-Z0-9]?)?\b")
EDIRECT = ("dpc", "d32", "d32s", "d64")
MAX_LINK_ROUNDS = 60
MAX_RERUNS = 12


# ------------------------------------------------------------------------------------------ linking
def link_argv(mod, cfg, d, objs):
    bind = ["-z", "now"] if cfg["bind"] == "now" else ["-z", "lazy"]
    if mod in ("A", "B"):
        extra = []
        if mod == "A" and cfg["variant"] == "bsym":
            extra = ["-Bsymbolic"]
        if mod == "A" and cfg["variant"] == "bsymfn":
            extra = ["-Bsymbolic-functions"]
        return ["-shared", f"-soname=lib{mod}.so", *bind, *extra, "-z", "noexecstack", "-o",
                os.path.join(d, f"lib{mod}.so"), objs[mod]]
    extra = ["-z", "nocopyreloc"] if cfg["variant"] == "nocopy" else []
    kind = ["-pie"] if cfg["ekind"] == "pie" else ["-no-pie"]
    return [*kind, "--dynamic-linker=" + INTERP, *bind, *extra, "-z", "noexecstack", "-o",
            os.path.join(d, "E"), objs["E"], "--no-as-needed", os.path.join(d, "libA.so"),
            os.path.join(d, "libB.so"), LIBC, INTERP]


def run_linker(which, argv, cwd):
    if which in ("gnu", "lld"):
        p = subprocess.run(["ld" if which == "gnu" else "ld.lld", *argv], cwd=cwd, stdin=subprocess.DEVNULL, stdout=subprocess.PIPE,
                           stderr=subprocess.PIPE)
        return p.returncode, p.stderr.decode("utf-8", "replace")
    for _ in range(3):
        rc, msg = wildrun.server_link(argv, cwd=cwd)
        if rc in (0, 1, 101):
            break
    return rc, msg


def link_member(which, cfg, d, objs):
    """Link A, B, E with one linker. -> (ok, failing module, message)"""
    os.makedirs(d, exist_ok=True)
    for mod in ("A", "B", "E"):
        rc, msg = run_linker(which, link_argv(mod, cfg, d, objs), d)
        if rc != 0:
            return False, mod, f"rc={rc} {msg}"
    return True, None, ""


# ------------------------------------------------------------------------------------------ running
def site_complete(st, phase, addr, reads, wrote):
    k = (phase, st.sid)
    if st.role == "wr":
        return k in wrote
    return k in reads


def run_program(d, insts, sites, live, order):
    """Run d/E, isolating crashing instances by the run-time skip list.
    -> dict(addr, reads, wrote, crashed=[(idx, sid, phase, rc)], startup=None|message, reruns)"""
    by_sid = {s.sid: s for s in sites}
    skip, crashed, reruns = [], [], 0
    while True:
        p = subprocess.run([os.path.join(d, "E"), *[f"{i:x}" for i in skip]], cwd=d,
                           env={"LD_LIBRARY_PATH": d},
                           stdin=subprocess.DEVNULL, stdout=subprocess.PIPE, stderr=subprocess.PIPE,
                           timeout=300)
        out = p.stdout.decode("ascii", "replace")
        addr, reads, wrote, ended, last = ad.parse_output(out)
        res = dict(addr=addr, reads=reads, wrote=wrote, crashed=crashed, startup=None, reruns=reruns,
                   skipped=set(skip))
        if ended and p.returncode == 0:
            return res
        if "P 0" not in out[:16]:
            res["startup"] = f"rc={p.returncode} {p.stderr.decode('utf-8', 'replace')[-600:]}"
            return res
        # Which site was being evaluated?
        seq = [(ph, sid) for ph, sid in order if by_sid[sid].idx in live and by_sid[sid].idx not in skip]
        culprit = None
        if last is None:
            culprit = seq[0] if seq else None
        else:
            if not site_complete(by_sid[last[1]], last[0], addr, reads, wrote):
                culprit = last
            else:
                try:
                    k = seq.index(last)
                    culprit = seq[k + 1] if k + 1 < len(seq) else None
                except ValueError:
                    culprit = None
        if culprit is None or reruns >= MAX_RERUNS:
            res["startup"] = (f"rc={p.returncode}: crash that cannot be attributed to a site "
                              f"(last record {last}, reruns {reruns}) {p.stderr.decode('utf-8', 'replace')[-300:]}")
            return res
        idx = by_sid[culprit[1]].idx
        crashed.append((idx, culprit[1], culprit[0], p.returncode))
        skip.append(idx)
        reruns += 1


# ------------------------------------------------------------------------------------------ judging
def ectx(cfg, inst, nm=None):
    """nm: alias instances - only E's direct uses of that name count."""
    direct = any(w in ad.DIRECT and (nm is None or j == nm) for w, j in map(ad.split_use, inst.uses["E"]))
    return f"def={cfg['definer']}:E={cfg['ekind']}" + ("+direct" if direct else "")


def label(inst, s):
    return f"{s.mod}.{s.way}" + (f"[n{s.nm}]" if inst.names else "")


def alias_info(inst, nm, ref_nm=None):
    """Key parts of a violation on an alias instance seen through name nm (ref_nm: the name of the view
    it is compared with)."""
    if not inst.names:
        return None
    dset = sorted({j for w, j in map(ad.split_use, inst.uses["E"]) if w in ad.DIRECT})
    oth = "".join(sorted({inst.names[j] for j in dset if j != nm}))
    edirect = f"other({oth})" if oth else "this" if nm in dset else "none"
    return dict(bind="".join(inst.names), sizes="diff" if len(set(inst.sizes)) > 1 else "same",
                name=inst.names[nm], edirect=edirect, same_name=ref_nm == nm)


def describe(cfg, inst):
    what = ad.KNAME[inst.kind]
    if inst.names:
        what = (f"ONE {what} under the names " +
                ", ".join(f"n{j}={ad.sym(inst, j)}({'weak' if b == 'W' else 'global'}, st_size {inst.sizes[j]})"
                          for j, b in enumerate(inst.names)))
    return (f"{ad.sym(inst)} ({what}, defined in {cfg['definer']}) uses "
            f"E={{{','.join(inst.uses['E'])}}} A={{{','.join(inst.uses['A'])}}} B={{{','.join(inst.uses['B'])}}} "
            f"[{cfg['ekind']} {cfg['bind']} {cfg['variant']}]")


def V(cfg, inst, cat, what, mix=None, extra=None, taker=None, way=None, nm=0, ref_nm=None):
    """One violation record; the key is assembled (and folded) from its parts. nm / ref_nm (alias
    instances): the name of the differing view / of the view it is compared with."""
    al = alias_info(inst, nm, ref_nm)
    return dict(cat=cat, kind=ad.KNAME[inst.kind], kcode=inst.kind,
                ctx=ectx(cfg, inst, nm if al and al["same_name"] else None),
                plainctx=f"def={cfg['definer']}:E={cfg['ekind']}", alias=al, extra=extra, taker=taker,
                way=way, variant=cfg["variant"], mix=mix, ekind=cfg["ekind"], what=what, idx=inst.idx,
                nsites=sum(len(u) for u in inst.uses.values()))


def keystr(p, variant=None, way=None, mix=0, nonpie=False, samesize=False, base=False):
    variant = p["variant"] if variant is None else variant
    way = p["way"] if way is None else way
    mix = p["mix"] if mix == 0 else mix
    al = p.get("alias")
    if al and not al["same_name"]:
        ctx = (f"bind={al['bind']}" + (":sizes=diff" if al["sizes"] == "diff" and not samesize else "") +
               f":{p['plainctx']}:name={al['name']}:Edirect={al['edirect']}")
    else:
        ctx = p["ctx"]
    if nonpie:
        ctx = ctx.replace("E=pie", "E=nonpie")
    s = f"{p['cat']}:{p['kind']}:{ctx}"
    if al and not (base and al["same_name"]):
        s = "alias:" + s
    if p["extra"]:
        s += ":" + p["extra"]
    if p["taker"]:
        s += f":taker={p['taker']}"
    if way:
        s += f":way={way}"
    if variant != "plain":
        s += f":variant={variant}"
    if mix:
        s += f":mix={mix}"
    return s


def core_form(p):
    """The core form an extra instruction form stands for (the one the quick tier enumerates)."""
    w = p["way"]
    if w in ("gotp", "gota"):
        return "got"
    if w == "iem":
        return "ie"
    if w == "callgot":
        return "call"
    if w in EDIRECT and p["taker"] == "E":
        return "d32" if ad.KCLASS[p["kcode"]] == "func" and p["ekind"] == "nonpie" else "dpc"
    if w == "data" and p.get("alias") and not p["alias"]["same_name"] and p["taker"] != "E":
        return "got"        # a library's `.quad` and GOT references to a name resolve alike
    return w


def folded_key(p, present):
    """A violation seen only under a variant flag / through an extra instruction form / in a mixed
    program / with a PIE keeps its own key; when the same case already fails without the flag / through
    the core form / in the all-wild program / with a non-PIE, it is counted under that key (one root
    cause = few keys)."""
    own = keystr(p)
    tf = (True, False)
    gens = [(gv, gw, gm, ge, gs, gb) for gv in tf for gw in tf for gm in tf for ge in tf for gs in tf for gb in tf]
    gens.sort(key=lambda t: -sum(t))
    for gv, gw, gm, ge, gs, gb in gens:
        cand = keystr(p, variant="plain" if gv else None, way=core_form(p) if gw and p["way"] else None,
                      mix=None if gm else 0, nonpie=ge, samesize=gs, base=gb)
        if cand != own and cand in present:
            return cand
    return own


_PRI_MOD = {"B": 0, "A": 1, "E": 2}
_PRI_WAY = {"got": 0, "data": 1}


def ref_priority(st):
    return (_PRI_MOD[st.mod], _PRI_WAY.get(st.way, 2), st.sid)


def referees_agree(insts, sites, live, refs):
    """Instances on which all referee programs have the same address classes."""
    out = set()
    by_inst = {}
    for st in sites:
        if st.idx in live and st.role == "obs" and ad.is_addr(st.way):
            by_inst.setdefault(st.idx, []).append(st.sid)
    for idx, sids in by_inst.items():
        shapes = set()
        for _, g in refs:
            first = {}
            shapes.add(tuple(first.setdefault(g["addr"].get((0, sid)), len(first)) for sid in sids))
        if len(shapes) == 1:
            out.add(idx)
    return out


def judge(cfg, insts, sites, live, refs, w, stats, mix=None, restrict=None):
    """refs: [(referee name, its program)] - GNU ld's program (alias members: and ld.lld's); w: the
    program under test; restrict: judge these instances only. -> list of violation records."""
    viol = []
    obs = {}
    wrs = {}
    for st in sites:
        if st.idx not in live:
            continue
        (obs if st.role == "obs" else wrs).setdefault(st.idx, []).append(st)
    by_sid = {s.sid: s for s in sites}
    trusted = {None: (), "wildE+gnuAB": ("A", "B"), "gnuE+wildAB": ("E",), "wildE+lldAB": ("A", "B"),
               "lldE+wildAB": ("E",)}[mix]
    rnames = " / ".join(n for n, _ in refs)
    gcr = {c[0] for _, g in refs for c in g["crashed"]}
    gskipped = {i for _, g in refs for i in g["skipped"]}
    for idx, sid, phase, rc in w["crashed"]:
        inst = insts[idx]
        st = by_sid[sid]
        if idx in gcr or (restrict is not None and idx not in restrict):
            continue
        viol.append(V(cfg, inst, "crash",
                      f"the program dies (rc={rc}) in phase {phase} at {st.mod}'s `{st.way}` site of "
                      f"{describe(cfg, inst)}; the program of {rnames} does not", mix, taker=st.mod, way=st.way,
                      nm=st.nm))
    for inst in insts:
        idx = inst.idx
        if idx not in live:
            continue
        if restrict is not None and idx not in restrict:
            stats["mix_not_judged_referees_differ"] += 1
            continue
        if idx in gcr or idx in gskipped:
            stats["excluded_gnu_crash"] += 1
            continue
        if idx in w["skipped"]:
            continue
        cls = ad.KCLASS[inst.kind]
        asites = [s for s in obs.get(idx, []) if ad.is_addr(s.way)]
        if any((0, s.sid) not in g["addr"] for _, g in refs for s in asites) \
                or any((0, s.sid) not in w["addr"] for s in asites):
            stats["incomplete"] += 1
            continue
        stats["evaluations"] += 1
        exp0 = (ad.fn_id(inst), 0) if cls == "func" else ad.markers(inst)

        def wa(s):
            return w["addr"][(0, s.sid)]

        def read_ok(s):
            return w["reads"].get((0, s.sid)) == exp0
        # --- address identity, within the equivalence classes of ONE referee program: the referee whose
        # classes are the coarsest (every pair it separates is separated by the others too), so that the
        # demand as a whole is met by a real linker on this very member. Where the referees' classes are
        # not comparable, only what all of them show is demanded (counted).
        parts = [{s.sid: g["addr"][(0, s.sid)] for s in asites} for _, g in refs]

        def coarser(p, q):
            m = {}
            return all(m.setdefault(q[sid], p[sid]) == p[sid] for sid in p)
        best = next((i for i, p in enumerate(parts) if all(coarser(p, q) for q in parts)), None)
        if best is None:
            stats["referees_incomparable"] += 1
            jrefs = refs
            cls_of = {s.sid: tuple(p[s.sid] for p in parts) for s in asites}
        else:
            jrefs = [refs[best]]
            cls_of = parts[best]
        jnames = " and ".join(n for n, _ in jrefs)
        groups = {}
        for s in asites:
            groups.setdefault(cls_of[s.sid], []).append(s)
        per_ref_classes = [len(set(p.values())) for p in parts]
        if inst.names:
            stats["alias_views"] += len({(s.mod, s.nm) for s in asites})
            if best is not None and best > 0 and per_ref_classes[0] > len(groups):
                stats["alias_gnu_splits_lld_unites"] += 1
                stats["alias_gnu_split_classes"].add(
                    f"{ad.KNAME[inst.kind]}:bind={''.join(inst.names)}:def={cfg['definer']}:E={cfg['ekind']}")
        if len(groups) > 1:
            stats["may_differ_instances"] += 1
            stats["may_differ_classes"].add(
                ("alias:" + "".join(inst.names) + ":" if inst.names else "") +
                f"{ad.KNAME[inst.kind]}:{ectx(cfg, inst)}:{cfg['variant']}")
        elif len({s.mod for s in asites}) >= 2 or len({(s.mod, s.nm) for s in asites}) >= 2:
            stats["nontrivial"].add((cfg["ekind"], cfg["bind"], cfg["definer"], cfg["variant"], inst.kind,
                                     inst.uses["E"], inst.uses["A"], inst.uses["B"]) +
                                    ((inst.names, inst.sizes) if inst.names else ()))
        blamed = set()
        for members in groups.values():
            if len(members) < 2:
                continue
            stats["pairs"] += len(members) - 1
            by_addr = {}
            for s in members:
                by_addr.setdefault(wa(s), []).append(s)
            if len(by_addr) == 1:
                continue
            # The reference view: in a mixed program the one of a module the referee linked; then
            # the address behind which most modules find the entity, then the one
            # most modules agree on, then the one a pure taker (B, then A) obtains through its GOT.
            ref_addr = min(by_addr, key=lambda a: (-any(s.mod in trusted for s in by_addr[a]),
                                                   -len({s.mod for s in by_addr[a] if read_ok(s)}),
                                                   -len({s.mod for s in by_addr[a]}),
                                                   min(ref_priority(s) for s in by_addr[a])))
            if inst.names and cls == "data":
                # Aliased data: where E accesses the object directly, E's view is fixed at link time (the
                # copy): that is where the object is, every other view is the one that differs.
                edir = {wa(s) for s in members if s.mod == "E" and s.way in ad.DIRECT}
                if len(edir) == 1:
                    ref_addr = edir.pop()
            allw = " ".join(f"{label(inst, x)}={wa(x):#x}" for x in asites)
            allg = "; ".join(f"{n}'s program: " + " ".join(f"{label(inst, x)}={g['addr'][(0, x.sid)]:#x}"
                                                           for x in asites) for n, g in refs)
            for s in members:
                if wa(s) != ref_addr:
                    # compared, where there is one, with a view through the same name
                    ref = min(by_addr[ref_addr], key=lambda x: (x.nm != s.nm, ref_priority(x)))
                    blamed.add(s.sid)
                    viol.append(V(cfg, inst, "addr-differs",
                                  f"{describe(cfg, inst)}: {label(inst, s)} sees {wa(s):#x} but {label(inst, ref)} "
                                  f"sees {ref_addr:#x}; program under test: {allw}; these sites are equal in "
                                  f"the program of {jnames}; {allg}", mix, taker=s.mod, way=s.way,
                                  nm=s.nm, ref_nm=ref.nm))
        # --- what is found behind the address (phase 0)
        bad_target = False
        for s in obs.get(idx, []):
            wr_ = w["reads"].get((0, s.sid))
            g_ok = all(g["reads"].get((0, s.sid)) == exp0 for _, g in jrefs)
            if not g_ok or wr_ is None:
                if not g_ok:
                    stats["excluded_gnu_read"] += 1
                continue
            if wr_ != exp0:
                if not ad.is_addr(s.way):
                    stats["plt_call_wrong"] += 1      # not an address observation: out of scope
                    continue
                bad_target = True
                if s.sid in blamed:
                    continue                           # already reported as the differing view
                viol.append(V(cfg, inst, "wrong-target",
                              f"{describe(cfg, inst)}: through {label(inst, s)} (address "
                              f"{w['addr'].get((0, s.sid), 0):#x}) the program finds {wr_[0]:#x},{wr_[1]:#x} instead "
                              f"of the entity's {exp0[0]:#x},{exp0[1]:#x}", mix, taker=s.mod, way=s.way,
                              nm=s.nm, ref_nm=s.nm))
        # --- writes (a consequence of the above when addresses already differ: reported only otherwise)
        if cls == "func":
            continue
        cur = exp0
        own_values = {exp0} | {ad.written(m, inst) for m in ad.MODULES}
        for n, wm in enumerate(ad.MODULES, 1):
            wsite = next((s for s in wrs.get(idx, []) if s.mod == wm), None)
            if wsite is not None:
                cur = ad.written(wm, inst)
            for s in obs.get(idx, []):
                wr_ = w["reads"].get((n, s.sid))
                if not all(g["reads"].get((n, s.sid)) == cur for _, g in jrefs):
                    stats["excluded_gnu_write_invisible"] += 1
                    continue
                stats["write_reads"] += 1
                if wr_ != cur:
                    stats["write_invisible_reads"] += 1
                    if blamed or bad_target:
                        continue
                    if wr_ is not None and wr_ not in own_values:
                        # not an older value of this entity: another (broken) instance of the packed
                        # program wrote here; that instance is reported where it is judged
                        stats["clobbered_by_other_instance"] += 1
                        continue
                    got = "nothing" if wr_ is None else f"{wr_[0]:#x},{wr_[1]:#x}"
                    viol.append(V(cfg, inst, "write-invisible",
                                  f"{describe(cfg, inst)}: after {wm} wrote {cur[0]:#x},{cur[1]:#x} through its "
                                  f"view, {label(inst, s)} reads {got} (phase {n}); the program of {jnames} sees "
                                  f"the write", mix, extra=f"writer={wm}:reader={s.mod}", nm=s.nm,
                                  ref_nm=wsite.nm if wsite is not None else None))
    return viol


# ------------------------------------------------------------------------------------------ static oracle
_SYMBOLIC = (1, 6)      # R_X86_64_64, GLOB_DAT


def _dyn_index(path):
    e = elfread.Elf(path)
    syms = {s.name: s for s in e.symbols(".dynsym") if s.name}
    names = {s.index: s.name for s in e.symbols(".dynsym")}
    rel = e.dyn_relocs()
    by_sym, by_off = {}, {}
    for k in ("rela", "jmprel"):
        for (off, typ, si, a) in rel[k]:
            by_off.setdefault(off, []).append((typ, names.get(si, ""), a))
            if si:
                by_sym.setdefault(names.get(si, ""), []).append((typ, off, a))
    for off in rel["relr"]:
        by_off.setdefault(off, []).append((8, "", None))
    local = {s.name: s.value for s in e.symbols(".symtab") if s.name.startswith("slot")}
    return e, syms, by_sym, by_off, local


def _exec_segment(e, addr):
    return any(p.p_type == elfread.PT_LOAD and p.p_flags & elfread.PF_X and p.p_vaddr <= addr < p.p_vaddr + p.p_memsz
               for p in e.segments)


def static_oracle(cfg, insts, sites, live, gd, wd, w, stats):
    viol = []
    try:
        G = {m: _dyn_index(os.path.join(gd, f)) for m, f in (("E", "E"), ("A", "libA.so"), ("B", "libB.so"))}
        W = {m: _dyn_index(os.path.join(wd, f)) for m, f in (("E", "E"), ("A", "libA.so"), ("B", "libB.so"))}
    except (elfread.ElfError, OSError) as ex:
        stats["static_unreadable"] += 1
        stats["static_unreadable_message"] = str(ex)[:300]
        return viol
    by_inst = {}
    for st in sites:
        if st.role == "obs" and st.idx in live:
            by_inst.setdefault(st.idx, []).append(st)
    for inst in insts:
        if inst.idx not in live or cfg["definer"] != "A" or inst.names:
            continue
        cls = ad.KCLASS[inst.kind]
        name = ad.sym(inst)
        ue = inst.uses["E"]
        if cls == "tls" or not any(x in EDIRECT for x in ue):
            continue
        gs, ws = G["E"][1].get(name), W["E"][1].get(name)
        if gs is None:
            continue
        lib_symbolic_required = False
        if cls == "func" and cfg["ekind"] == "nonpie":
            # canonical PLT, where GNU ld's executable has one
            if gs.shndx == 0 and gs.value != 0:
                stats["static_canonical_plt"] += 1
                lib_symbolic_required = True
                e = W["E"][0]
                if ws is None or ws.shndx != 0 or ws.value == 0 or not _exec_segment(e, ws.value):
                    have = "absent" if ws is None else f"st_shndx={ws.shndx} st_value={ws.value:#x}"
                    viol.append(V(cfg, inst, "static:no-canonical-plt",
                                  f"{describe(cfg, inst)}: E takes the address directly, so E's .dynsym entry must "
                                  f"be undefined with st_value = its PLT entry; wild: {have}; GNU ld: st_shndx=0 "
                                  f"st_value={gs.value:#x}"))
                else:
                    for st in by_inst.get(inst.idx, []):
                        if st.mod == "E" and st.way in EDIRECT and (0, st.sid) in w["addr"] \
                                and w["addr"][(0, st.sid)] != ws.value:
                            viol.append(V(cfg, inst, "static:canonical-plt-value",
                                          f"{describe(cfg, inst)}: E.{st.way} observes {w['addr'][(0, st.sid)]:#x} "
                                          f"but E's .dynsym st_value is {ws.value:#x}", way=st.way, taker="E"))
        if cls == "data":
            gcopy = [r for r in G["E"][2].get(name, []) if r[0] == 5]
            if gcopy and gs.shndx != 0:
                stats["static_copyreloc"] += 1
                lib_symbolic_required = inst.kind == "dat" and cfg["variant"] not in ("bsym",)
                e = W["E"][0]
                problem = None
                if ws is None or ws.shndx == 0:
                    problem = "not-defined-in-E"
                else:
                    sec = e.sections[ws.shndx] if ws.shndx < len(e.sections) else None
                    wcopy = [r for r in W["E"][2].get(name, []) if r[0] == 5]
                    if ws.size != ad.size_of(inst):
                        problem = "size"
                    elif sec is None or not sec.sh_flags & elfread.SHF_WRITE or not sec.sh_flags & elfread.SHF_ALLOC:
                        problem = "not-in-writable-section"
                    elif not wcopy or wcopy[0][1] != ws.value:
                        problem = "no-copy-reloc-at-symbol"
                if problem:
                    have = "absent" if ws is None else (f"st_shndx={ws.shndx} st_value={ws.value:#x} "
                                                        f"st_size={ws.size}")
                    viol.append(V(cfg, inst, "static:copyreloc",
                                  f"{describe(cfg, inst)}: GNU ld copy-relocates it into E (size {gs.size}); wild's "
                                  f"E .dynsym: {have}, relocs {W['E'][2].get(name)}", extra=problem))
        if not lib_symbolic_required or inst.kind in ("pfn", "pdat") or cfg["variant"] in ("bsym", "bsymfn"):
            continue
        # every library reference must be symbolic (so that it finds E's PLT entry / copy)
        for st in by_inst.get(inst.idx, []):
            if st.mod == "E" or not ad.is_addr(st.way) or st.way == "dpc":
                continue
            stats["static_lib_refs"] += 1
            _, _, by_sym, by_off, local = W[st.mod]
            if st.way == "data":
                a = local.get(f"slot{st.mod}_{st.sid}")
                if a is None:
                    continue
                rs = by_off.get(a, [])
                ok = any(t == 1 and n == name for t, n, _ in rs)
            else:
                rs = by_sym.get(name, [])
                ok = any(t in _SYMBOLIC for t, _, _ in rs)
            if not ok:
                viol.append(V(cfg, inst, "static:lib-reloc-not-symbolic",
                              f"{describe(cfg, inst)}: {st.mod}'s `{st.way}` reference to this preemptible symbol "
                              f"has no symbolic dynamic relocation (found {rs}), so it cannot find E's "
                              f"{'PLT entry' if cls == 'func' else 'copy'}", extra=f"lib={st.mod}", way=st.way))
    return viol


def static_alias_oracle(cfg, insts, live, refdirs, wd, stats):
    """Copy-relocated data object with several names: every name that a referee's E defines in its
    .dynsym (that is: exports at its copy) must be defined in wild's E too, and all names wild's E
    defines must have the address of wild's copy. Applied where wild's E copy-relocates the object."""
    viol = []
    try:
        R = [(n, _dyn_index(os.path.join(d, "E"))) for n, d in refdirs]
        W = _dyn_index(os.path.join(wd, "E"))
        LA = {s.name: s.index for s in elfread.Elf(os.path.join(wd, "libA.so")).symbols(".dynsym") if s.name}
    except (elfread.ElfError, OSError) as ex:
        stats["static_unreadable"] += 1
        stats["static_unreadable_message"] = str(ex)[:300]
        return viol
    for inst in insts:
        if inst.idx not in live or not inst.names or cfg["definer"] != "A" or ad.KCLASS[inst.kind] != "data":
            continue
        names = [ad.sym(inst, j) for j in range(len(inst.names))]
        wcopy = [(nm, r) for nm in names for r in W[2].get(nm, []) if r[0] == 5]
        if not wcopy:
            continue
        stats["static_alias_copyreloc"] += 1
        # the order in which the library's dynamic symbol table (which the linker of E walks) lists the names
        if all(nm in LA for nm in names):
            stats["alias_dynsym_order"].add("<".join(f"n{j}" for j in sorted(range(len(names)),
                                                                             key=lambda j: LA[names[j]])))
        copy_addr = wcopy[0][1][1]
        wdef = {nm: W[1][nm] for nm in names if nm in W[1] and W[1][nm].shndx != 0}
        for j, nm in enumerate(names):
            exporters = [n for n, (_, syms, by_sym, _, _) in R
                         if nm in syms and syms[nm].shndx != 0 and
                         any(r[0] == 5 for x in names for r in by_sym.get(x, []))]
            if not exporters:
                continue
            stats["static_alias_names"] += 1
            if nm not in wdef:
                have = "absent" if nm not in W[1] else "undefined"
                viol.append(V(cfg, inst, "static:alias-not-exported",
                              f"{describe(cfg, inst)}: wild's E copy-relocates the object (R_X86_64_COPY against "
                              f"{wcopy[0][0]} at {copy_addr:#x}) but its .dynsym does not define {nm} ({have}), so "
                              f"a library's reference to {nm} resolves to the library's original, not to the "
                              f"copy; E of {' / '.join(exporters)} defines it at its copy", nm=j))
            elif wdef[nm].value != copy_addr:
                viol.append(V(cfg, inst, "static:alias-not-at-copy",
                              f"{describe(cfg, inst)}: wild's E defines {nm} at {wdef[nm].value:#x} but the copy "
                              f"relocation (against {wcopy[0][0]}) is at {copy_addr:#x}", nm=j))
    return viol


# ------------------------------------------------------------------------------------------ one member
def new_stats():
    return dict(evaluations=0, pairs=0, write_reads=0, write_invisible_reads=0, may_differ_instances=0,
                clobbered_by_other_instance=0, may_differ_classes=set(), nontrivial=set(), excluded_gnu_crash=0, excluded_gnu_read=0,
                excluded_gnu_write_invisible=0, incomplete=0, plt_call_wrong=0, static_canonical_plt=0,
                static_copyreloc=0, static_lib_refs=0, static_unreadable=0, alias_views=0,
                alias_gnu_splits_lld_unites=0, alias_gnu_split_classes=set(), static_alias_copyreloc=0,
                static_alias_names=0, alias_dynsym_order=set(), referees_incomparable=0,
                mix_not_judged_referees_differ=0)


def signature(inst, mod):
    return (inst.kind, mod, inst.uses[mod])


MIXES = {"wildE+gnuAB": ("wild", "gnu"), "gnuE+wildAB": ("gnu", "wild")}
LLD_MIXES = {"wildE+lldAB": ("wild", "lld"), "lldE+wildAB": ("lld", "wild")}


def compose(d, name, dirs, e_from, lib_from):
    md = os.path.join(d, name)
    os.makedirs(md, exist_ok=True)
    for f, src in (("E", e_from), ("libA.so", lib_from), ("libB.so", lib_from)):
        dst = os.path.join(md, f)
        if os.path.lexists(dst):
            os.unlink(dst)
        os.symlink(os.path.join(dirs[src], f), dst)
    return md


def run_member(item):
    cfg, base, only = item
    t0 = time.time()
    alias = cfg.get("axis") == "alias"
    tag = ("alias-" if alias else "") + f"{cfg['ekind']}-{cfg['bind']}-def{cfg['definer']}-{cfg['variant']}"
    d = os.path.join(base, tag + ("-only" if only else ""))
    gd, wd, ld_ = os.path.join(d, "gnu"), os.path.join(d, "wild"), os.path.join(d, "lld")
    build = ad.build_alias_instances if alias else ad.build_instances
    insts = build(cfg["kinds"], cfg["definer"], cfg["ekind"], cfg["variant"], cfg["level"])
    sites = ad.build_sites(insts)
    order = ad.expected_order(insts, sites)
    live = set(i.idx for i in insts) if only is None else set(only)
    res = dict(cfg=cfg, tag=tag, n_instances=len(insts), n_sites=len(sites), viol=[], spawns=0,
               gnu_rejects={}, lld_rejects={}, wild_rejects={}, unevaluable=None, rounds=0, mix_unevaluable={},
               alias=alias)
    stats = new_stats()
    mstats = new_stats()
    res["stats"], res["mix_stats"] = stats, mstats
    while True:
        res["rounds"] += 1
        li = [i for i in insts if i.idx in live]
        ls = [s for s in sites if s.idx in live]
        objs = {m: vlib.assemble(ad.module_src(m, li, ls, cfg["definer"], len(insts))) for m in ad.MODULES}
        res["spawns"] += 3
        retry = False
        linkers = [("gnu", gd, res["gnu_rejects"])] + ([("lld", ld_, res["lld_rejects"])] if alias else []) + \
                  [("wild", wd, res["wild_rejects"])]
        for which, wdir, rej in linkers:
            ok, mod, msg = link_member(which, cfg, wdir, objs)
            res["spawns"] += 3 if which != "wild" else 0
            if ok:
                continue
            names = {(k, int(n)) for k, n in NAME_RE.findall(msg)}
            hit = [i for i in li if (i.kind, i.k) in names]
            if not hit or res["rounds"] >= MAX_LINK_ROUNDS:
                res["unevaluable"] = f"{which} link of {mod} fails: {msg[-500:]}"
                break
            # Whether a module links depends on the entity kind and on this module's own uses of it:
            # drop every instance with the same (kind, uses in that module) as a rejected one.
            sigs = {signature(i, mod) for i in hit}
            drop = [i for i in li if signature(i, mod) in sigs]
            for i in drop:
                live.discard(i.idx)
            for s in sigs:
                ex = next(i for i in hit if signature(i, mod) == s)
                line = next((l for l in msg.split("\n") if ad.sym(ex) in l), msg[:200])
                rej[f"{ad.KNAME[s[0]]}:{mod}={{{','.join(s[2])}}}"] = dict(
                    instances=sum(1 for i in drop if signature(i, mod) == s),
                    message=re.sub(r"\S*/", "", line)[:240])
            retry = True
            break
        if res["unevaluable"] or not retry:
            break
    res["live"] = len(live)
    if res["unevaluable"] or not live:
        res["unevaluable"] = res["unevaluable"] or "every instance rejected"
        res["wall"] = time.time() - t0
        return _pack(res)
    li = [i for i in insts if i.idx in live]
    g = run_program(gd, insts, sites, live, order)
    w = run_program(wd, insts, sites, live, order)
    res["spawns"] += 2 + g["reruns"] + w["reruns"]
    refs = [("GNU ld", g)]
    if alias:
        l = run_program(ld_, insts, sites, live, order)
        res["spawns"] += 1 + l["reruns"]
        refs.append(("ld.lld", l))
    bad_ref = next((f"{n}'s program: {r['startup']}" for n, r in refs if r["startup"]), None)
    if bad_ref:
        res["unevaluable"] = bad_ref
    elif w["startup"]:
        res["unevaluable"] = f"wild's program does not run: {w['startup']}"
        res["wild_startup"] = w["startup"]
    else:
        res["viol"] = judge(cfg, insts, sites, live, refs, w, stats)
        if alias:
            res["viol"] += static_alias_oracle(cfg, insts, live, [("GNU ld", gd), ("ld.lld", ld_)], wd, stats)
        else:
            res["viol"] += static_oracle(cfg, insts, sites, live, gd, wd, w, stats)
    if not bad_ref and cfg.get("mixes", True):
        # The same modules recombined: isolates which wild-linked module breaks the identity. A mixed
        # program is judged against the referee whose modules it contains.
        dirs = {"gnu": gd, "wild": wd, "lld": ld_}
        # Alias groups: a mixed program combines wild's module with one referee's, so it can be judged only
        # where both referees' own programs have the same classes (where ld.lld's E exports a name that GNU
        # ld's does not, wild's E next to GNU ld's libraries rightly differs from the all-GNU program).
        agree = referees_agree(insts, sites, live, refs) if alias else None
        lld_mixes = alias and cfg["level"] == "full"       # quick tier: the two GNU ld mixes only
        for name, (e_from, lib_from) in list(MIXES.items()) + (list(LLD_MIXES.items()) if lld_mixes else []):
            md = compose(d, name, dirs, e_from, lib_from)
            m = run_program(md, insts, sites, live, order)
            res["spawns"] += 1 + m["reruns"]
            if m["startup"]:
                res["mix_unevaluable"][name] = m["startup"][-300:]
                continue
            res["viol"] += judge(cfg, insts, sites, live, [refs[1] if "lld" in name else refs[0]], m, mstats,
                                 mix=name, restrict=agree)
    res["sample"] = [dict(symbol=ad.sym(i), kind=ad.KNAME[i.kind], uses=i.uses,
                          **({"names": "".join(i.names), "st_sizes": i.sizes} if i.names else {}))
                     for i in li[::max(1, len(li) // 3)][:3]]
    res["wall"] = time.time() - t0
    return _pack(res)


def _pack(res):
    for s in (res["stats"], res["mix_stats"]):
        s["may_differ_classes"] = sorted(s["may_differ_classes"])
        s["alias_gnu_split_classes"] = sorted(s["alias_gnu_split_classes"])
        s["alias_dynsym_order"] = sorted(s["alias_dynsym_order"])
        s["nontrivial"] = list(s["nontrivial"])
    # one representative (the instance with the fewest sites) per own key, with the number of instances
    best, counts = {}, {}
    for p in res["viol"]:
        k = keystr(p)
        counts[k] = counts.get(k, 0) + 1
        if k not in best or p["nsites"] < best[k]["nsites"]:
            best[k] = p
    res["viol"] = [dict(best[k], count=counts[k], own=k) for k in sorted(best)]
    return res


# ------------------------------------------------------------------------------------------ driver
def members(tier):
    out = []
    if tier == "quick":
        kinds, level = ["fn", "dat"], "core"
        binds, variants = ["lazy"], ["plain"]
    else:
        kinds, level = list(ad.BASE_KINDS), "full"
        binds, variants = ["lazy", "now"], ["plain", "bsym", "bsymfn", "nocopy"]
    for ekind in ("nonpie", "pie"):
        for bind in binds:
            for definer in ("A", "E"):
                for variant in variants:
                    if variant == "nocopy" and definer == "E":
                        continue            # nothing of E's own can be copy-relocated
                    out.append(dict(ekind=ekind, bind=bind, definer=definer, variant=variant, kinds=kinds,
                                    level=level))
    # axis ALIASES: own members (own programs), so that the single-name members stay as they were
    for ekind in ("nonpie", "pie"):
        for bind in binds:
            for definer in ("A", "E"):
                for variant in (["plain"] if tier == "quick" else ["plain", "bsym"]):
                    if variant == "bsym" and (definer == "E" or bind == "now"):
                        continue            # -Bsymbolic acts on A's own definitions only; lazy only
                    out.append(dict(axis="alias", ekind=ekind, bind=bind, definer=definer, variant=variant,
                                    kinds=["adat", "afn"], level=level))
    return out


def replay(chk):
    with open(chk.args.replay) as f:
        doc = json.load(f)
    r = doc["replay"]
    cfg = r["member"]
    hit = False
    with vlib.scratch("c38r") as base:
        for only in ([[r["instance"]]] if r.get("instance") is not None else []) + [None]:
            res = run_member((cfg, base, only))
            print(f"member {res['tag']} restricted to instances {only}: unevaluable={res['unevaluable']} "
                  f"gnu_rejects={list(res['gnu_rejects'])} wild_rejects={list(res['wild_rejects'])}")
            present = {p["own"] for p in res["viol"]}
            for p in res["viol"]:
                mark = "<== recorded" if r.get("own_key") in (p["own"], None) and not hit else ""
                print(f"  {p['own']} x{p['count']} {mark}\n    {p['what']}")
                if p["own"] == r.get("own_key") and not hit:
                    hit = True
                    chk.violation(doc["key"], p["what"], r)
            if hit:
                break
    chk.coverage = {"evaluations": 1, "distinct_nontrivial": 2, "rule": "replay of one recorded member",
                    "samples": [r], "reproduced": hit}
    chk.finish()


def main():
    chk = vlib.Check("C38", "exploration")
    if not chk.args.no_build:
        vlib.build("wild")
    if chk.args.replay:
        return replay(chk)
    mem = members(chk.tier)
    if chk.seed:
        import random
        random.Random(chk.seed).shuffle(mem)
    tot, mtot = new_stats(), new_stats()
    spawns = 0
    uneval, mix_uneval, gnu_rej, wild_rej, samples, per_member = {}, {}, {}, {}, [], {}
    lld_rej, alias_samples = {}, []
    n_alias_inst = n_alias_members = alias_eval = 0
    with vlib.scratch("c38") as base:
        results = wildrun.pmap(run_member, [(m, base, None) for m in mem], procs=min(vlib.NPROC, 12), chunksize=1)
    n_inst = n_sites = 0
    records = []
    for res in results:
        cfg = res["cfg"]
        spawns += res["spawns"]
        n_inst += res["n_instances"]
        n_sites += res["n_sites"]
        for acc, s in ((tot, res["stats"]), (mtot, res["mix_stats"])):
            for k, v in s.items():
                if isinstance(v, int):
                    acc[k] += v
            acc["may_differ_classes"].update(s["may_differ_classes"])
            acc["alias_gnu_split_classes"].update(s["alias_gnu_split_classes"])
            acc["alias_dynsym_order"].update(s["alias_dynsym_order"])
            acc["nontrivial"].update(tuple(tuple(x) if isinstance(x, list) else x for x in t) for t in s["nontrivial"])
        per_member[res["tag"]] = dict(instances=res["n_instances"], sites=res["n_sites"],
                                      judged=res["stats"]["evaluations"], link_rounds=res["rounds"],
                                      wall_s=round(res["wall"], 1),
                                      violating=sum(p["count"] for p in res["viol"]))
        if res["unevaluable"]:
            uneval[res["tag"]] = res["unevaluable"][-400:]
        for k, v in res["mix_unevaluable"].items():
            mix_uneval[f"{res['tag']}:{k}"] = v
        for k, v in res["gnu_rejects"].items():
            gnu_rej.setdefault(k, dict(v, members=0))["members"] += 1
        for k, v in res["wild_rejects"].items():
            wild_rej.setdefault(k, dict(v, members=0))["members"] += 1
        for k, v in res["lld_rejects"].items():
            lld_rej.setdefault(k, dict(v, members=0))["members"] += 1
        if res["alias"]:
            n_alias_members += 1
            n_alias_inst += res["n_instances"]
            alias_eval += res["stats"]["evaluations"]
            alias_samples.extend(dict(member=res["tag"], **x) for x in res.get("sample", [])[1:2])
        samples.extend(dict(member=res["tag"], **x) for x in res.get("sample", [])[:1])
        records.extend((res, p) for p in res["viol"])
        if res.get("wild_startup"):
            chk.violation(f"wild-program-does-not-start:{res['tag']}", res["wild_startup"],
                          {"member": cfg, "instance": None})
    present = {p["own"] for _, p in records}
    per_key, folded_from = {}, {}
    for res, p in records:
        key = folded_key(p, present)
        if key != p["own"]:
            folded_from.setdefault(key, set()).add(p["own"])
        cur = per_key.get(key)
        # representative: a record whose own key is the final key, fewest sites
        rank = (key != p["own"], p["nsites"])
        if cur is None or rank < cur[0]:
            per_key[key] = (rank, res, p)
    inst_per_key = {}
    for res, p in records:
        k = folded_key(p, present)
        inst_per_key[k] = inst_per_key.get(k, 0) + p["count"]
    for key in sorted(per_key):
        _, res, p = per_key[key]
        also = sorted(folded_from.get(key, ()))
        more = f" (also counted here: {len(also)} variant/form/mix keys, e.g. {also[:3]})" if also else ""
        chk.violation(key, f"[{inst_per_key[key]} instance evaluations; this one in {res['tag']}"
                           f"{' ' + p['mix'] if p['mix'] else ''}] {p['what']}{more}",
                      {"member": res["cfg"], "instance": p["idx"], "own_key": p["own"],
                       "how": "checks/c38.py --replay <this file> rebuilds the member restricted to the instance "
                              "(then the whole member) with wild and GNU ld (alias members: and ld.lld), runs "
                              "the all-wild and the mixed programs and re-judges them"})
    if len(uneval) == len(mem):
        chk.machinery(f"no member could be evaluated: {list(uneval.items())[:2]}")
    chk.coverage = {
        "evaluations": tot["evaluations"],
        "distinct_nontrivial": len(tot["nontrivial"]),
        "rule": "one evaluation = one entity instance (kind x definer x use-set of E x of A x of B) in one member "
                "(E kind x binding x variant), judged on all of its sites in the all-wild program; non-trivial "
                "and distinct = distinct (member, kind, use-triple) whose address is taken in at least two "
                "different modules and on which GNU ld's program shows one single address",
        "members": len(mem), "members_unevaluable": uneval, "mixed_programs_unevaluable": mix_uneval,
        "instances_generated": n_inst, "sites_generated": n_sites,
        "site_pairs_compared": tot["pairs"], "reads_after_write_compared": tot["write_reads"],
        "reads_after_write_not_seeing_it": tot["write_invisible_reads"],
        "reads_clobbered_by_another_instance_not_judged": tot["clobbered_by_other_instance"],
        "mixed_program_evaluations": mtot["evaluations"], "mixed_site_pairs_compared": mtot["pairs"],
        "excluded_may_differ_instances": tot["may_differ_instances"],
        "excluded_may_differ_classes": sorted(tot["may_differ_classes"])[:120],
        "excluded_gnu_reads_wrong": tot["excluded_gnu_read"],
        "excluded_gnu_write_invisible": tot["excluded_gnu_write_invisible"],
        "excluded_gnu_crash": tot["excluded_gnu_crash"], "incomplete_instances": tot["incomplete"],
        "plt_call_results_wrong_out_of_scope": tot["plt_call_wrong"],
        "gnu_ld_rejects": gnu_rej, "ld_lld_rejects": lld_rej, "wild_rejects_counted_not_judged": wild_rej,
        "alias_axis": {
            "members": n_alias_members, "alias_groups_generated": n_alias_inst, "alias_groups_judged": alias_eval,
            "views_module_x_name": tot["alias_views"],
            "groups_where_gnu_ld_program_has_more_addresses_than_required_judged_by_ld_lld":
                tot["alias_gnu_splits_lld_unites"],
            "classes_of_those": sorted(tot["alias_gnu_split_classes"]),
            "groups_where_the_referees_classes_are_not_comparable_only_common_pairs_demanded":
                tot["referees_incomparable"],
            "mixed_program_groups_not_judged_because_referees_differ": mtot["mix_not_judged_referees_differ"],
            "static_copy_relocated_groups_checked": tot["static_alias_copyreloc"],
            "static_exported_names_checked": tot["static_alias_names"],
            "orders_of_the_names_in_libA_dynsym_seen": sorted(tot["alias_dynsym_order"]),
            "samples": alias_samples[:8],
            "thinned_in_quick": "E's extra indirect use is GOT only for 3 names and for functions; functions: A "
                                "without `.quad`, B in {none, all names}; different st_size: A and B in {none, "
                                "all names through the GOT}; patterns W+W, S+W+S, W+S+S, -z now, -Bsymbolic on A, "
                                "the unthinned use lists and the two mixed programs with ld.lld's modules are "
                                "thorough only; in both tiers a module has at most one indirect use per group "
                                "besides 'all names through the GOT' (no full power set of (name, way) per module)",
        },
        "static_canonical_plt_checked": tot["static_canonical_plt"],
        "static_copyreloc_checked": tot["static_copyreloc"], "static_library_refs_checked": tot["static_lib_refs"],
        "static_outputs_unreadable": tot["static_unreadable"],
        "violating_instance_evaluations_per_key": inst_per_key,
        "keys_folded": {k: sorted(v) for k, v in folded_from.items()},
        "subprocesses": spawns, "per_member": per_member, "samples": samples[:12] + alias_samples[:4],
        "exhaustive": not uneval and not mix_uneval,
        "explanation": "every member of the stated product is generated, linked by wild (3 links, in-process "
                       "server) and GNU ld (3 links); the all-wild, all-GNU and two mixed programs (wild's E with "
                       "GNU ld's libraries and vice versa) are run natively; the quick tier restricts the product "
                       "to kinds {function, data}, lazy binding, no variant flags and the core forms; alias "
                       "members are additionally linked by ld.lld (3 links) and run as all-lld program (thorough: "
                       "and as two more mixed programs, wild's E with ld.lld's libraries and vice versa)",
    }
    chk.assumptions = [
        "GNU ld 2.40 + glibc 2.36 ld.so as the reference for where ELF semantics allow views to differ",
        "alias members: an alias group is judged against the one of GNU ld's / ld.lld 14's program of the same "
        "member whose address classes are the coarsest (GNU ld pairs only a weak name with its strong definition "
        "and itself gives a second non-weak name of a copy-relocated object another address; ld.lld gives every "
        "name the copy's address, which shows the statement is achievable as a whole there); classes not "
        "comparable: only pairs equal in both are demanded; pairs that differ in the judging program are "
        "counted, not judged",
        "a link that wild refuses is not a violation of this property (counted under wild_rejects_counted_not_judged)",
        "whether a module links depends only on the entity kind and that module's own uses of it (used to drop "
        "all instances sharing a rejected (kind, module, use-set))",
        "single thread: TLS addresses are compared within the initial thread only",
        "forms excluded by rule because no linker can give them one address: PC-relative lea of another module's "
        "function (non-PIE: ambiguous with a call; PIE: not linkable), direct references from E to A's protected "
        "symbols, direct data references under -z nocopyreloc, PC-relative references from a library to a "
        "symbol it cannot bind locally",
    ]
    chk.finish()


if __name__ == "__main__":
    main()
