#!/usr/bin/env python3
"""C39 - Parallel layout traversal loses no work and always finishes.

Exhaustive exploration, up to a preemption bound, of every interleaving of the real tasks of
wild's `find_required_sections` (region `gc`) under the controlled scheduler, on small harness
programs built so that requests collide on a group's worker slot."""
import os
import sys

sys.path.insert(0, os.path.join(os.path.dirname(os.path.abspath(__file__)), "..", "lib"))
import vlib
import wsched
import slotmodel
from progs import func_obj, multi_func_obj, graph_program

START_STOP_A = """
.section .text._start,"ax",@progbits
.globl _start
_start:
  lea __start_foo(%rip), %rax
  lea __stop_foo(%rip), %rbx
  call fb
  call fc
  ret
"""


def foo_obj(fn, helper):
    return (func_obj(fn) + func_obj(helper) +
            f'.section foo,"aw",@progbits\n.quad {helper}\n')


def harnesses():
    h = {}
    # (a) fan-in: two senders race on c's slot while c activates / parks.
    # Distinct symbols fc1/fc2, because a second request for the same symbol is deduplicated by the
    # per-symbol flags before it reaches the slot.
    h["fanin"] = dict(objs=[
        ("main.o", func_obj("_start", ["fa", "fb"])),
        ("a.o", func_obj("fa", ["fc1"])),
        ("b.o", func_obj("fb", ["fc2"])),
        ("c.o", multi_func_obj([("fc1", []), ("fc2", [])]))])
    # (f) the same symbol requested from two groups: exactly one of them sends the request.
    h["samesym"] = dict(objs=[
        ("main.o", func_obj("_start", ["fa", "fb"])),
        ("a.o", func_obj("fa", ["fc"])),
        ("b.o", func_obj("fb", ["fc"])),
        ("c.o", func_obj("fc"))])
    # (b) early request: the entry object references c directly, and so does a.
    h["early"] = dict(objs=[
        ("main.o", func_obj("_start", ["fc", "fa"])),
        ("a.o", func_obj("fa", ["fc2"])),
        ("c.o", multi_func_obj([("fc", []), ("fc2", [])]))])
    # (c) ping-pong: a group is woken while its previous task is between "queue empty" and park.
    h["pingpong"] = dict(objs=[
        ("main.o", func_obj("_start", ["a1"])),
        ("a.o", multi_func_obj([("a1", ["b1"]), ("a2", ["b2"])])),
        ("b.o", multi_func_obj([("b1", ["a2"]), ("b2", [])]))])
    # (d) cycle with a second entry.
    h["cycle"] = dict(objs=[
        ("main.o", func_obj("_start", ["fa", "fc"])),
        ("a.o", func_obj("fa", ["fb"])),
        ("b.o", func_obj("fb", ["fc"])),
        ("c.o", func_obj("fc", ["fa"]))])
    # (e) __start_/__stop_ sections: exercises the delayed synthetic group and the
    # activations_remaining hand-off.
    h["startstop"] = dict(objs=[
        ("main.o", START_STOP_A),
        ("b.o", foo_obj("fb", "hb")),
        ("c.o", foo_obj("fc", "hc"))])
    # (h) error: an undefined symbol in a and in b.
    h["error"] = dict(objs=[
        ("main.o", func_obj("_start", ["fa", "fb"])),
        ("a.o", func_obj("fa", ["undef_a"])),
        ("b.o", func_obj("fb", ["undef_b"]))], expect_error=True)
    return h


def make_cfg(name, spec, base, wild=None):
    d = os.path.join(base, "in_" + name)
    objs = graph_program(spec["objs"], d)
    return dict(wild=wild or vlib.WILD, cwd=d,
                argv=["--no-fork", "--threads=16", "--no-gc-sections" if spec.get("nogc") else
                      "--gc-sections", *objs, "-o", "{out}"],
                env={"WILD_FILES_PER_GROUP": "1"}, regions="gc", timeout=120,
                expect_error=bool(spec.get("expect_error")))


def make_oracle(cfg, baseline, model=None):
    expect_error = cfg["expect_error"]
    base_rc, base_sha = baseline

    def oracle(x):
        v = []
        if x.rc in (wsched.EXIT_DEADLOCK, wsched.EXIT_HORIZON):
            v.append(("nontermination", f"exit={x.rc} {x.xlines}"))
            return v
        if isinstance(x.rc, int) and x.rc < 0 or "panicked" in x.stderr:
            v.append(("crash", f"exit={x.rc} {x.stderr[-300:]}"))
            return v
        if not x.regions or not x.regions[-1].startswith("R end"):
            v.append(("region-not-finished", f"exit={x.rc} {x.stderr[-200:]}"))
            return v
        # (3) a group's state is never worked on by two tasks at once.
        active = {}
        for kind, a, b, c, t in x.events:
            if kind == "enter_group":
                if active.get(a):
                    v.append(("group-overlap", f"group {a} entered by task {t} while task "
                              f"{active[a]} is inside"))
                active[a] = t if t >= 0 else 1
            elif kind == "exit_group":
                active[a] = None
        if expect_error:
            if x.rc == 0:
                v.append(("error-lost", "link with undefined symbols exited 0"))
            return v
        # (1) exit status and (6) output bytes as in the default schedule.
        if x.rc != base_rc or x.out_sha != base_sha:
            v.append(("outcome-differs", f"exit={x.rc} sha={x.out_sha} expected exit={base_rc} "
                      f"sha={base_sha} stderr={x.stderr[-300:]}"))
        # (2) nothing left in any slot, every group parked.
        finals = [e for e in x.events if e[0] == "final_slot"]
        if not finals:
            v.append(("no-final-slots", "unwrap_worker_states not reached"))
        for _, g, work_len, parked, _t in finals:
            if work_len != 0:
                v.append(("work-left", f"group {g} has {work_len} unhandled request(s) at the end"))
            if parked != 1:
                v.append(("group-lost", f"group {g} is not parked at the end"))
        # (4) every request sent to a group is handled by that group.
        sent, handled = {}, {}
        for kind, a, b, c, t in x.events:
            if kind == "sent":
                sent[(a, b)] = sent.get((a, b), 0) + 1
            elif kind == "handled":
                handled[(a, b)] = handled.get((a, b), 0) + 1
        for k, n in sent.items():
            if handled.get(k, 0) < n:
                v.append(("request-unhandled", f"request {k} sent {n}x handled "
                          f"{handled.get(k, 0)}x"))
        # (8) the execution, projected on its observable events, is a behaviour of the TLA+ model
        # (tla/SlotProtocol.tla) that TLC verified safe and live for this harness.
        if model is not None:
            obs = slotmodel.observations_from_events(x.events, model.n)
            ok, k = model.accepts(obs)
            if not ok:
                where = (f"observation {k} of {len(obs)}: {obs[k]}" if k is not None and k < len(obs)
                         else "the final state is not a terminal state of the model")
                v.append(("not-a-model-behaviour", where))
        return v

    return oracle


def cost_model_is_primary(model):
    return model == "deviation"


def check_tla_models(chk, names, base):
    """TLC: safety (NoWorkLost, TypeOK) and liveness (termination, everything handled) of the
    protocol model for each harness instance, over ALL interleavings (no bound). The Python
    encoding used for trace conformance must have exactly TLC's number of reachable states."""
    out = {}
    d = os.path.join(base, "tla")
    for name in names:
        mod = slotmodel.write_module(name, d)
        r = slotmodel.run_tlc(mod, d, dump=False, workers=8)
        if not r["ok"]:
            if "is violated" in r["out"] or "violated" in r["out"]:
                chk.violation(f"{name}:tla-model-property-violated", r["out"][-1500:],
                              {"harness": name, "module": mod})
                continue
            chk.machinery(f"TLC failed on {mod}: {r['out'][-600:]}")
        seen, _terminal = slotmodel.Model(name).reachable()
        if len(seen) != r["distinct"]:
            chk.machinery(f"{name}: Python encoding of the model has {len(seen)} reachable states, "
                          f"TLC found {r['distinct']}: the two encodings differ")
        out[name] = {"tlc_distinct_states": r["distinct"], "tlc_states_generated": r["states"],
                     "python_encoding_states": len(seen)}
    if chk.thorough:
        # Sensitivity: the seeded slip (decrement before push) must be caught by TLC.
        mod = slotmodel.write_module("startstop", d, "counter-before-push")
        r = slotmodel.run_tlc(mod, d, dump=False, workers=8)
        if r["ok"] or "NoWorkLost" not in r["out"]:
            chk.machinery("TLC did not flag the seeded counter-before-push slip in the model")
        out["startstop/seeded-slip"] = "NoWorkLost violated, as it must be"
    return out


def main():
    chk = vlib.Check("C39", "model_checking")
    if not chk.args.no_build:
        vlib.build("wild")
    H = harnesses()
    # (harness, cost model, bound, time cap in seconds)
    if chk.thorough:
        plan = [(n, "deviation", 3, 150) for n in H]
        plan += [(n, "preempt", 0, 60) for n in H]
        plan += [("pingpong", "preempt", 1, 300)]
    else:
        plan = [(n, "deviation", 2, 60) for n in H]
        plan += [("pingpong", "preempt", 0, 60)]
    per = {}
    conformance = {}
    model_harnesses = (["pingpong"] if not chk.thorough
                       else ["pingpong", "startstop", "samesym"])
    conformed, n_conformance = set(), 0
    tot = dict(executions=0, states=0, transitions=0, deadlocks=0, horizon=0)
    samples = []
    with vlib.scratch("c39") as base:
        tla = check_tla_models(chk, model_harnesses, base)
        for name, model, bound, time_cap in plan:
            cfg = make_cfg(name, H[name], base)
            b0 = wsched.run_execution(cfg, [], os.path.join(base, "b0"))
            if b0.rc in (wsched.EXIT_MACHINERY,) or not b0.decisions:
                chk.machinery(f"baseline run of harness {name} failed: rc={b0.rc} {b0.stderr[-300:]}")
            _, same = wsched.replay_twice(cfg, [], os.path.join(base, "rt"))
            if not same:
                chk.machinery(f"harness {name}: default schedule does not replay identically")
            # Conformance of the in-process server with the real `wild` process: the same schedules
            # must produce the same decision records and events in both.
            if name not in conformed:
                conformed.add(name)
                for prefix in ([], [1], [2], [0, 1], [1, 0, 1]):
                    xs = wsched.run_execution(cfg, prefix, os.path.join(base, "cs"))
                    xp = wsched.run_execution(dict(cfg, server=False), prefix,
                                              os.path.join(base, "cp"))
                    if xs.dlines_hash != xp.dlines_hash or \
                            [e[:4] for e in xs.events] != [e[:4] for e in xp.events] or \
                            (xs.rc == 0) != (xp.rc == 0):
                        chk.machinery(f"harness {name}: server and subprocess executions of "
                                      f"schedule {prefix} differ")
                    n_conformance += 1
            tla_model = None
            if name in model_harnesses and cost_model_is_primary(model):
                tla_model = slotmodel.Model(name)
            oracle = make_oracle(cfg, (b0.rc, b0.out_sha), tla_model)
            st = wsched.explore(cfg, bound, model, oracle, time_cap=time_cap,
                                base=os.path.join(base, "x_" + name))
            if st["machinery"]:
                chk.machinery(f"harness {name}: {st['machinery']}")
            if tla_model is not None:
                conformance[name] = conformance.get(name, 0) + st["executions"]
            per[f"{name}/{model}/{bound}"] = {
                         "bound_completed": bound if not st["capped"] else None,
                         "capped": st["capped"], "executions": st["executions"],
                         "states": st["n_states"], "transitions": st["n_transitions"],
                         "distinct_outcomes": len(st["outcomes"]),
                         "distinct_event_sequences": st["n_event_sequences"],
                         "max_decisions": st["max_decisions"], "wall_s": round(st["wall"], 1)}
            for k, a in (("executions", "executions"), ("states", "n_states"),
                         ("transitions", "n_transitions"), ("deadlocks", "deadlocks"),
                         ("horizon", "horizon_hits")):
                tot[k] += st[a]
            samples.extend({"harness": name, **s} for s in st["samples"][:2])
            if st["n_event_sequences"] < 2:
                chk.machinery(f"harness {name}: vacuous exploration (one event sequence)")
            seen = set()
            for key, what, prefix in st["violations"]:
                if key in seen:
                    continue
                seen.add(key)
                x, same = wsched.replay_twice(cfg, prefix, os.path.join(base, "rt"))
                if not same:
                    chk.machinery(f"harness {name}: violating schedule {prefix} is not "
                                  f"deterministic on replay")
                chk.violation(f"{name}:{key}", what,
                              {"harness": name, "schedule": prefix, "argv": cfg["argv"],
                               "env": cfg["env"], "objects": H[name]["objs"],
                               "regions": "gc"})
    chk.coverage = {
        "states": tot["states"], "transitions": tot["transitions"],
        "traces_validated_against_impl": tot["executions"],
        "executions": tot["executions"], "deadlocks": tot["deadlocks"],
        "server_vs_subprocess_schedules_compared": n_conformance,
        "tla_model": tla,
        "executions_accepted_as_model_behaviours": conformance,
        "horizon_hits": tot["horizon"],
        "cost_models": "deviation: every non-default scheduling choice costs 1; preempt: only "
                       "switching away from a still-enabled task costs 1 (switches at task end "
                       "are free and all explored)",
        "per_harness": per, "samples": samples,
        "exhaustive": all(p["capped"] is None for p in per.values()),
        "explanation": "every execution is a run of the real wild binary under the in-process "
                       "controlled scheduler; states = distinct scheduler fingerprints",
    }
    chk.assumptions = ["TLA+ model: harness data (which item requests which) is generated from "
                       "the same description as the linked objects; trace inclusion is checked "
                       "on the observable abstraction (slot length, parked, inside, handled "
                       "count per group)",
                       "sequentially consistent interleavings only (Relaxed atomics are not "
                       "weakened)", "scheduling points at every shimmed sync operation of "
                       "layout.rs (Mutex, AtomicUsize, ArrayQueue, SegQueue) and task begin/end"]
    chk.finish()


if __name__ == "__main__":
    main()
