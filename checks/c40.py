#!/usr/bin/env python3
"""C40 - Parallel string merging hands every input to every bucket in order and finishes.

Exhaustive exploration (deviation / preemption bounded) of every interleaving of the real tasks of
`MergedStringsSection::add_input_sections` (region `merge`) under the controlled scheduler, on the
production 16-bucket build and on the `verif-b2` build (same source, 2 buckets)."""
import os
import sys

sys.path.insert(0, os.path.join(os.path.dirname(os.path.abspath(__file__)), "..", "lib"))
import vlib
import wsched
from progs import graph_program


def str_obj(tag, n, sym, section=".rodata.str1.1", width=8, unterminated=False):
    """n distinct strings of `width` bytes (incl. NUL) in a mergeable string section, each
    referenced from a function so nothing is garbage collected."""
    lines = [f'.section {section},"aMS",@progbits,1']
    for i in range(n):
        body = f"{tag}{i:0{width - 1 - len(tag)}d}"
        lines.append(f'{sym}{i}: .ascii "{body}"\n .byte 0')
    if unterminated:
        lines.append('.ascii "xyz"')
    lines.append('.section .text,"ax",@progbits')
    lines.append(f".globl use_{sym}\nuse_{sym}:")
    for i in range(n):
        lines.append(f"  lea {sym}{i}(%rip), %rax")
    lines.append("  ret")
    return "\n".join(lines) + "\n"


MAIN2 = ".globl _start\n.text\n_start:\n call use_p\n call use_q\n ret\n"
MAIN1 = ".globl _start\n.text\n_start:\n call use_p\n ret\n"


def harnesses():
    """name -> (objects, P, description). Group size is 256 bytes (--wild-experiments=P,256)."""
    h = {}
    # 32 strings * 8 bytes = 256 bytes per object => 1 group per object, shared strings across.
    h["g2p1"] = dict(objs=[("m.o", MAIN2), ("s1.o", str_obj("s", 32, "p")),
                           ("s2.o", str_obj("s", 32, "q"))], P=1)
    h["g2p2"] = dict(objs=h["g2p1"]["objs"], P=2)
    # One 768-byte section split into 3 groups inside the section + a second object.
    h["g4p1"] = dict(objs=[("m.o", MAIN2), ("s1.o", str_obj("s", 96, "p")),
                           ("s2.o", str_obj("t", 30, "q"))], P=1)
    h["g4p2"] = dict(objs=h["g4p1"]["objs"], P=2)
    h["g3p3"] = dict(objs=[("m.o", MAIN2), ("s1.o", str_obj("s", 64, "p")),
                           ("s2.o", str_obj("s", 20, "q"))], P=3)
    # Two output sections (pool reuse across sections, available == capacity between them).
    h["twosec"] = dict(objs=[("m.o", MAIN2), ("s1.o", str_obj("s", 40, "p")),
                             ("s2.o", str_obj("u", 40, "q", section=".rodata.str1.8"))], P=1)
    # A group in which a bucket gets no string at all (2 strings only in the 2nd group).
    h["sparse"] = dict(objs=[("m.o", MAIN2), ("s1.o", str_obj("s", 32, "p")),
                             ("s2.o", str_obj("z", 2, "q"))], P=1)
    # Error path: unterminated string in the second group. Must fail, not hang.
    h["unterminated"] = dict(objs=[("m.o", MAIN2), ("s1.o", str_obj("s", 32, "p")),
                                   ("s2.o", str_obj("w", 8, "q", unterminated=True))], P=1,
                             expect_error=True)
    return h


def make_cfg(name, spec, base, wild, threads):
    d = os.path.join(base, "in_" + name)
    objs = graph_program(spec["objs"], d)
    return dict(wild=wild, cwd=d,
                argv=["--no-fork", f"--threads={threads}", f"--wild-experiments={spec['P']},256",
                      *objs, "-o", "{out}"],
                env={}, regions="merge", timeout=120, expect_error=bool(spec.get("expect_error")))


def make_oracle(cfg, baseline):
    expect_error = cfg["expect_error"]
    base_rc, base_sha = baseline

    def oracle(x):
        v = []
        if x.rc in (wsched.EXIT_DEADLOCK, wsched.EXIT_HORIZON):
            return [("nontermination", f"exit={x.rc} {x.xlines}")]
        if (isinstance(x.rc, int) and (x.rc < 0 or x.rc == 101)) or "panicked" in x.stderr:
            return [("crash", f"exit={x.rc} {x.stderr[-300:]}")]
        if not x.regions or not x.regions[-1].startswith("R end"):
            return [("region-not-finished", f"exit={x.rc} {x.stderr[-200:]}")]
        if any("unfinished=0" not in r for r in x.regions if r.startswith("R end")):
            v.append(("task-unfinished", str(x.regions)))
        # Split events per region instance.
        inst = []
        for e in x.events:
            if e[0] == "merge_begin":
                inst.append({"G": e[1], "B": e[2], "cap": e[3], "take": {}, "done": set(),
                             "end": None})
            elif not inst:
                continue
            elif e[0] == "bucket_take":
                inst[-1]["take"].setdefault(e[1], []).append(e[2])
            elif e[0] == "bucket_done":
                inst[-1]["done"].add(e[1])
            elif e[0] == "merge_end":
                inst[-1]["end"] = e[1:4]
        if not inst:
            return [("no-merge-region", "no merge_begin event")]
        if expect_error:
            if x.rc == 0:
                v.append(("error-lost", "unterminated string but exit 0"))
            return v
        for k, r in enumerate(inst):
            for b in range(r["B"]):
                seq = r["take"].get(b, [])
                if seq != list(range(r["G"])):
                    v.append(("bucket-order", f"section {k} bucket {b} took groups {seq}, "
                              f"expected 0..{r['G'] - 1}"))
            if len(r["done"]) != r["B"]:
                v.append(("bucket-unfinished", f"section {k}: {len(r['done'])} of {r['B']} "
                          f"buckets finished"))
            if r["end"] is None:
                v.append(("no-merge-end", f"section {k}"))
            else:
                unproc, finished, errors = r["end"]
                if unproc != 0:
                    v.append(("inputs-stranded", f"section {k}: {unproc} input group(s) never "
                              f"processed"))
                if finished != r["B"] or errors != 0:
                    v.append(("merge-end-state", f"section {k}: finished={finished} "
                              f"errors={errors}"))
        if x.rc != base_rc or x.out_sha != base_sha:
            v.append(("outcome-differs", f"exit={x.rc} sha={x.out_sha} expected exit={base_rc} "
                      f"sha={base_sha} stderr={x.stderr[-300:]}"))
        return v

    return oracle


HANDOFF = {"lock", "a.cas", "a.fetch_add", "a.load"}


def main():
    chk = vlib.Check("C40", "model_checking")
    if not chk.args.no_build:
        vlib.build("wild-b2")
    H = harnesses()
    # (build, harness, model, bound, restrict-to-ops, time cap)
    if chk.thorough:
        plan = [("b2", n, "deviation", 3, None, 120) for n in H]
        plan += [("b2", "g2p1", "preempt", 1, None, 200), ("b2", "g2p2", "preempt", 0, None, 150)]
        plan += [("b16", n, "deviation", 1, None, 60) for n in H]
        plan += [("b16", "g2p1", "deviation", 2, HANDOFF, 300)]
    else:
        plan = [("b2", n, "deviation", 2, None, 60) for n in H]
        plan += [("b16", "g2p1", "deviation", 1, None, 60)]
    per, samples = {}, []
    tot = dict(executions=0, states=0, transitions=0, deadlocks=0, horizon=0)
    with vlib.scratch("c40") as base:
        for build, name, model, bound, restrict, cap in plan:
            wild = vlib.WILD_B2 if build == "b2" else vlib.WILD
            cfg = make_cfg(name, H[name], os.path.join(base, build), wild,
                           8 if build == "b2" else 28)
            b0 = wsched.run_execution(cfg, [], os.path.join(base, "b0"))
            if b0.rc == wsched.EXIT_MACHINERY or not b0.decisions:
                chk.machinery(f"baseline of {build}/{name} failed: rc={b0.rc} {b0.stderr[-300:]}")
            _, same = wsched.replay_twice(cfg, [], os.path.join(base, "rt"))
            if not same:
                chk.machinery(f"{build}/{name}: default schedule does not replay identically")
            # The free-running (unscheduled) single-thread result is the differential baseline.
            oracle = make_oracle(cfg, (b0.rc, b0.out_sha))
            v0 = oracle(b0)
            st = wsched.explore(cfg, bound, model, oracle, time_cap=cap, restrict=restrict,
                                base=os.path.join(base, f"x_{build}_{name}"))
            if st["machinery"]:
                chk.machinery(f"{build}/{name}: {st['machinery']}")
            key = f"{build}/{name}/{model}/{bound}" + ("/handoff-ops" if restrict else "")
            per[key] = {"bound_completed": bound if not st["capped"] else None,
                        "capped": st["capped"], "executions": st["executions"],
                        "states": st["n_states"], "transitions": st["n_transitions"],
                        "distinct_outcomes": len(st["outcomes"]),
                        "distinct_event_sequences": st["n_event_sequences"],
                        "max_decisions": st["max_decisions"], "wall_s": round(st["wall"], 1)}
            for k, a in (("executions", "executions"), ("states", "n_states"),
                         ("transitions", "n_transitions"), ("deadlocks", "deadlocks"),
                         ("horizon", "horizon_hits")):
                tot[k] += st[a]
            samples.extend({"harness": key, **s} for s in st["samples"][:2])
            if st["n_event_sequences"] < 2 and bound > 0:
                chk.machinery(f"{key}: vacuous exploration (one event sequence)")
            seen = set()
            for vkey, what, prefix in st["violations"]:
                if vkey in seen:
                    continue
                seen.add(vkey)
                _, same = wsched.replay_twice(cfg, prefix, os.path.join(base, "rt"))
                if not same:
                    chk.machinery(f"{key}: violating schedule {prefix} not deterministic on replay")
                chk.violation(f"{build}/{name}:{vkey}", what,
                              {"build": build, "harness": name, "schedule": prefix,
                               "argv": cfg["argv"], "objects": H[name]["objs"],
                               "regions": "merge"})
    chk.coverage = {
        "states": tot["states"], "transitions": tot["transitions"],
        "traces_validated_against_impl": tot["executions"], "executions": tot["executions"],
        "deadlocks": tot["deadlocks"], "horizon_hits": tot["horizon"],
        "per_harness": per, "samples": samples,
        "exhaustive": all(p["capped"] is None for p in per.values()),
        "explanation": "b16 = production constant (16 hash buckets); b2 = same source built with "
                       "feature verif-b2 (2 buckets). Every execution runs the real wild code under "
                       "the in-process controlled scheduler.",
    }
    chk.assumptions = ["sequentially consistent interleavings only",
                       "the 2-bucket build differs from production only in MERGE_STRING_BUCKET_BITS"]
    chk.finish()


if __name__ == "__main__":
    main()
