//! C29 - alignment arithmetic, enumerated exhaustively over stated windows against a reference
//! written from the property statement in u128 arithmetic.

use crate::report::Report;
use crate::report::hex;
use crate::report::parse_u64;
use sut as api;
use rayon::prelude::*;
use serde_json::Value;
use serde_json::json;
use std::panic::catch_unwind;

const MAX_EXP: u8 = 16;

// ---------------------------------------------------------------------------------------------
// The functions under test. UNITX_MUTANT=<name> substitutes a deliberately wrong variant (a copy
// of wild's code with one seeded defect) so that the oracle's sensitivity can be demonstrated
// without touching /repo; the check never sets it.
mod sut {
    use libwild::verif::api;
    use std::sync::OnceLock;

    fn mutant() -> &'static str {
        static M: OnceLock<String> = OnceLock::new();
        M.get_or_init(|| std::env::var("UNITX_MUTANT").unwrap_or_default())
    }

    pub fn alignment_new(raw: u64) -> Option<u8> {
        match mutant() {
            "new-ge16" => api::alignment_new(raw).filter(|e| *e < 16),
            "new-any-pow2" => raw.is_power_of_two().then(|| raw.trailing_zeros() as u8),
            _ => api::alignment_new(raw),
        }
    }

    pub fn align_up(exp: u8, v: u64) -> u64 {
        match mutant() {
            "up-plus-mask" => (v.wrapping_add(1 << exp)) & !((1u64 << exp) - 1),
            _ => api::align_up(exp, v),
        }
    }

    pub fn align_down(exp: u8, v: u64) -> u64 {
        match mutant() {
            "down-off-by-one" => v & !((1u64 << exp) >> 1),
            _ => api::align_down(exp, v),
        }
    }

    pub fn align_modulo(exp: u8, reference: u64, offset: u64) -> u64 {
        match mutant() {
            // wild's code with `adjustment > value` changed to `>=`
            "modulo-ge" => {
                let value = 1u64 << exp;
                let mask = value - 1;
                let offset = api::align_up(exp, offset);
                if offset & mask == reference & mask {
                    return offset;
                }
                let mut adjustment = (reference & mask) + value - (offset & mask);
                if adjustment >= value {
                    adjustment -= value;
                }
                offset + adjustment
            }
            // forgets to align the offset up first
            "modulo-no-align" => {
                let value = 1u64 << exp;
                let mask = value - 1;
                if offset & mask == reference & mask {
                    return offset;
                }
                let mut adjustment = (reference & mask) + value - (offset & mask);
                if adjustment > value {
                    adjustment -= value;
                }
                offset + adjustment
            }
            _ => api::align_modulo(exp, reference, offset),
        }
    }
}

// ---------------------------------------------------------------------------------------------
// Reference, written from the statement (u128, no bit tricks).

/// "accepted exactly when it is a power of two no larger than 2^16": the k with raw == 2^k.
fn ref_new(raw: u64) -> Option<u8> {
    for k in 0..=16u32 {
        let mut p: u128 = 1;
        for _ in 0..k {
            p *= 2;
        }
        if u128::from(raw) == p {
            return Some(k as u8);
        }
    }
    None
}

fn is_power_of_two_ref(raw: u64) -> bool {
    let mut p: u128 = 1;
    for _ in 0..64 {
        if u128::from(raw) == p {
            return true;
        }
        p *= 2;
    }
    false
}

/// Smallest multiple of `a` not below `v` (None when it does not exist in u64).
fn ref_up(a: u128, v: u64) -> Option<u64> {
    let v = u128::from(v);
    let q = v / a;
    let m = if q * a == v { v } else { (q + 1) * a };
    u64::try_from(m).ok()
}

/// Largest multiple of `a` not above `v`.
fn ref_down(a: u128, v: u64) -> u64 {
    let v = u128::from(v);
    ((v / a) * a) as u64
}

/// Smallest x >= align_up(offset) with x congruent to reference modulo a (None when not in u64).
fn ref_modulo(a: u128, reference: u64, offset: u64) -> Option<u64> {
    let base = u128::from(ref_up(a, offset)?);
    let want = u128::from(reference) % a;
    let mut x = base - (base % a) + want;
    if x < base {
        x += a;
    }
    u64::try_from(x).ok()
}

// ---------------------------------------------------------------------------------------------
// Domains

fn new_domain() -> Vec<u64> {
    let mut v: Vec<u64> = (0..=(1u64 << 20)).collect();
    for k in 0..=63u32 {
        let p = 1u64 << k;
        v.push(p);
        v.push(p.wrapping_add(1));
        v.push(p.wrapping_sub(1));
    }
    v.push(u64::MAX);
    v.sort_unstable();
    v.dedup();
    v
}

/// Windows for align_up / align_down as (start, length).
fn updown_windows(thorough: bool) -> Vec<(u64, u64)> {
    // The same windows in both tiers (17 x 2^20 values cost about a second).
    let _ = thorough;
    let (w18, w17) = (1u64 << 18, 1u64 << 17);
    vec![
        (0, w18),
        ((1u64 << 32) - w17, 2 * w17),
        ((1u64 << 63) - w17, 2 * w17),
        (0u64.wrapping_sub(w18), w18),
    ]
}

fn window_values(ws: &[(u64, u64)]) -> Vec<u64> {
    let mut v = Vec::new();
    for &(s, n) in ws {
        for i in 0..n {
            v.push(s.wrapping_add(i));
        }
    }
    v.sort_unstable();
    v.dedup();
    v
}

fn modulo_offsets(exp: u8, thorough: bool) -> Vec<u64> {
    let a = 1u64 << exp;
    let (low, near, top) = if thorough {
        (1u64 << 13, 1u64 << 12, 1u64 << 13)
    } else {
        (1u64 << 10, 1u64 << 8, 1u64 << 10)
    };
    let mut ws = vec![(0, low), (0u64.wrapping_sub(top), top)];
    // Around the alignment's own value, so that every alignment sees offsets on both sides of a
    // block boundary with large residues.
    ws.push((a.saturating_sub(near), 2 * near));
    ws.push(((1u64 << 32) - near / 2, near));
    window_values(&ws)
}

fn modulo_refs(exp: u8, thorough: bool) -> Vec<u64> {
    let a = 1u64 << exp;
    let (low, near) = if thorough {
        (1u64 << 13, 1u64 << 10)
    } else {
        (1u64 << 10, 1u64 << 7)
    };
    let mut v = window_values(&[(0, low), (a.saturating_sub(near), 2 * near)]);
    v.extend_from_slice(&[(1 << 16) - 1, 1 << 16, 1 << 63, u64::MAX]);
    v.sort_unstable();
    v.dedup();
    v
}

// ---------------------------------------------------------------------------------------------
// Single-case evaluation (used by both the sweep's slow path and replay)

pub enum Outcome {
    Ok(&'static str),
    Outside,
    Bad(String, String),
}

fn classify_up(exp: u8, v: u64) -> Outcome {
    let a = 1u128 << exp;
    let Some(want) = ref_up(a, v) else {
        return Outcome::Outside;
    };
    match catch_unwind(|| api::align_up(exp, v)) {
        Err(_) => Outcome::Bad("panic".into(), format!("align_up(2^{exp}, {}) panicked, expected {}", hex(v), hex(want))),
        Ok(got) if got == want => Outcome::Ok(if got == v { "unchanged" } else { "moved" }),
        Ok(got) => {
            let class = if u128::from(got) % a != 0 {
                "not-a-multiple"
            } else if got < v {
                "below-value"
            } else {
                "not-smallest"
            };
            Outcome::Bad(class.into(), format!("align_up(2^{exp}, {}) = {}, expected {}", hex(v), hex(got), hex(want)))
        }
    }
}

fn classify_down(exp: u8, v: u64) -> Outcome {
    let a = 1u128 << exp;
    let want = ref_down(a, v);
    match catch_unwind(|| api::align_down(exp, v)) {
        Err(_) => Outcome::Bad("panic".into(), format!("align_down(2^{exp}, {}) panicked, expected {}", hex(v), hex(want))),
        Ok(got) if got == want => Outcome::Ok(if got == v { "unchanged" } else { "moved" }),
        Ok(got) => {
            let class = if u128::from(got) % a != 0 {
                "not-a-multiple"
            } else if got > v {
                "above-value"
            } else {
                "not-largest"
            };
            Outcome::Bad(class.into(), format!("align_down(2^{exp}, {}) = {}, expected {}", hex(v), hex(got), hex(want)))
        }
    }
}

fn classify_modulo(exp: u8, reference: u64, offset: u64) -> Outcome {
    let a = 1u128 << exp;
    let Some(want) = ref_modulo(a, reference, offset) else {
        return Outcome::Outside;
    };
    match catch_unwind(|| api::align_modulo(exp, reference, offset)) {
        Err(_) => Outcome::Bad(
            "panic".into(),
            format!("align_modulo(2^{exp}, ref={}, offset={}) panicked, expected {}", hex(reference), hex(offset), hex(want)),
        ),
        Ok(got) if got == want => {
            let up = ref_up(a, offset).unwrap();
            Outcome::Ok(if got == offset {
                "already-congruent-and-aligned"
            } else if got == up {
                "aligned-up-is-congruent"
            } else {
                "adjusted-past-aligned-up"
            })
        }
        Ok(got) => {
            let up = ref_up(a, offset).unwrap();
            let class = if u128::from(got) % a != u128::from(reference) % a {
                "not-congruent"
            } else if got < up {
                "below-aligned-up"
            } else {
                "not-smallest"
            };
            Outcome::Bad(
                class.into(),
                format!("align_modulo(2^{exp}, ref={}, offset={}) = {}, expected {}", hex(reference), hex(offset), hex(got), hex(want)),
            )
        }
    }
}

fn classify_new(raw: u64) -> Outcome {
    let want = ref_new(raw);
    match catch_unwind(|| api::alignment_new(raw)) {
        Err(_) => Outcome::Bad("panic".into(), format!("Alignment::new({}) panicked", hex(raw))),
        Ok(got) if got == want => Outcome::Ok(match want {
            Some(_) => "accepted",
            None if is_power_of_two_ref(raw) => "rejected-too-large",
            None => "rejected-not-power-of-two",
        }),
        Ok(Some(e)) => {
            let class = match want {
                Some(_) => "wrong-exponent",
                None if is_power_of_two_ref(raw) => "accepts-above-2^16",
                None => "accepts-non-power-of-two",
            };
            Outcome::Bad(class.into(), format!("Alignment::new({}) accepted with exponent {e}, expected {want:?}", hex(raw)))
        }
        Ok(None) => Outcome::Bad(
            format!("rejects-valid:2^{}", want.unwrap()),
            format!("Alignment::new({}) rejected, expected exponent {want:?}", hex(raw)),
        ),
    }
}

// ---------------------------------------------------------------------------------------------

fn record(rep: &mut Report, func: &str, exp: Option<u8>, o: Outcome, replay: impl FnOnce() -> Value) {
    rep.evaluations += 1;
    let pfx = match exp {
        Some(e) => format!("{func}:exp={e}"),
        None => func.to_owned(),
    };
    match o {
        Outcome::Ok(c) => rep.cell(&format!("{pfx}:{c}"), 1),
        Outcome::Outside => {
            rep.evaluations -= 1;
            rep.outside_statement += 1;
        }
        Outcome::Bad(class, what) => {
            rep.cell(&format!("{pfx}:VIOLATION:{class}"), 1);
            rep.violation(&format!("{pfx}:{class}"), || (what, replay()));
        }
    }
}

pub fn run(thorough: bool) -> Report {
    let mut rep = Report::new();

    // --- new ---
    let dom = new_domain();
    let part: Report = dom
        .par_chunks(1 << 14)
        .map(|chunk| {
            let mut r = Report::new();
            for &raw in chunk {
                record(&mut r, "new", None, classify_new(raw), || json!({"func": "new", "raw": hex(raw)}));
            }
            r
        })
        .reduce(Report::new, |mut a, b| {
            a.merge(b);
            a
        });
    rep.extra.insert("new_domain".into(), json!(dom.len()));
    rep.merge(part);

    // --- align_up / align_down ---
    let values = window_values(&updown_windows(thorough));
    rep.extra.insert("updown_values_per_alignment".into(), json!(values.len()));
    let jobs: Vec<(u8, &[u64])> = (0..=MAX_EXP)
        .flat_map(|e| values.chunks(1 << 14).map(move |c| (e, c)))
        .collect();
    let part: Report = jobs
        .par_iter()
        .map(|&(exp, chunk)| {
            let mut r = Report::new();
            for &v in chunk {
                record(&mut r, "align_up", Some(exp), classify_up(exp, v), || json!({"func": "align_up", "exp": exp, "value": hex(v)}));
                record(&mut r, "align_down", Some(exp), classify_down(exp, v), || json!({"func": "align_down", "exp": exp, "value": hex(v)}));
            }
            r
        })
        .reduce(Report::new, |mut a, b| {
            a.merge(b);
            a
        });
    rep.merge(part);

    // --- align_modulo ---
    let mut pairs = 0u64;
    for exp in 0..=MAX_EXP {
        let offsets = modulo_offsets(exp, thorough);
        let refs = modulo_refs(exp, thorough);
        pairs += (offsets.len() * refs.len()) as u64;
        let a = 1u128 << exp;
        let part: Report = offsets
            .par_iter()
            .map(|&offset| {
                let mut r = Report::new();
                // Fast path: the whole row inside one catch_unwind, counting outcome classes in
                // registers; any mismatch or panic sends the row to the slow per-case path.
                let fast = catch_unwind(|| {
                    let mut n = [0u64; 3];
                    let mut outside = 0u64;
                    let Some(up) = ref_up(a, offset) else {
                        return Some((n, refs.len() as u64));
                    };
                    for &reference in &refs {
                        let Some(want) = ref_modulo(a, reference, offset) else {
                            outside += 1;
                            continue;
                        };
                        let got = api::align_modulo(exp, reference, offset);
                        if got != want {
                            return None;
                        }
                        let c = if got == offset {
                            0
                        } else if got == up {
                            1
                        } else {
                            2
                        };
                        n[c] += 1;
                    }
                    Some((n, outside))
                });
                match fast {
                    Ok(Some((n, outside))) => {
                        r.evaluations += n.iter().sum::<u64>();
                        r.outside_statement += outside;
                        let pfx = format!("align_modulo:exp={exp}");
                        r.cell(&format!("{pfx}:already-congruent-and-aligned"), n[0]);
                        r.cell(&format!("{pfx}:aligned-up-is-congruent"), n[1]);
                        r.cell(&format!("{pfx}:adjusted-past-aligned-up"), n[2]);
                    }
                    _ => {
                        for &reference in &refs {
                            record(&mut r, "align_modulo", Some(exp), classify_modulo(exp, reference, offset), || {
                                json!({"func": "align_modulo", "exp": exp, "reference": hex(reference), "offset": hex(offset)})
                            });
                        }
                    }
                }
                r
            })
            .reduce(Report::new, |mut a, b| {
                a.merge(b);
                a
            });
        rep.merge(part);
        if exp == 12 {
            rep.extra.insert("modulo_offsets_exp12".into(), json!(offsets.len()));
            rep.extra.insert("modulo_refs_exp12".into(), json!(refs.len()));
        }
    }
    rep.extra.insert("modulo_pairs".into(), json!(pairs));

    // Samples: actual cases with the real function's answer.
    for (e, v) in [(4u8, 31u64), (16, (1 << 32) - 1), (12, u64::MAX - 4096)] {
        rep.sample(json!({"func": "align_up", "exp": e, "value": hex(v), "real": hex(api::align_up(e, v)), "reference": ref_up(1 << e, v).map(hex)}));
        rep.sample(json!({"func": "align_down", "exp": e, "value": hex(v), "real": hex(api::align_down(e, v))}));
    }
    for (e, r0, o) in [(12u8, 0x123456u64, 0x987001u64), (16, 0xffff, 0xffff_ffff_fffe_0001), (3, 5, 9)] {
        rep.sample(json!({"func": "align_modulo", "exp": e, "reference": hex(r0), "offset": hex(o),
            "real": hex(api::align_modulo(e, r0, o)), "reference_result": ref_modulo(1 << e, r0, o).map(hex)}));
    }
    for raw in [0u64, 1, 3, 1 << 16, 1 << 17, (1 << 16) + 1] {
        rep.sample(json!({"func": "new", "raw": hex(raw), "real": api::alignment_new(raw), "reference": ref_new(raw)}));
    }
    rep
}

pub fn replay(case: &Value) -> Report {
    let mut rep = Report::new();
    let func = case["func"].as_str().unwrap_or("");
    let exp = case["exp"].as_u64().unwrap_or(0) as u8;
    let g = |k: &str| parse_u64(&case[k]).unwrap_or(0);
    match func {
        "new" => record(&mut rep, "new", None, classify_new(g("raw")), || case.clone()),
        "align_up" => record(&mut rep, "align_up", Some(exp), classify_up(exp, g("value")), || case.clone()),
        "align_down" => record(&mut rep, "align_down", Some(exp), classify_down(exp, g("value")), || case.clone()),
        "align_modulo" => record(&mut rep, "align_modulo", Some(exp), classify_modulo(exp, g("reference"), g("offset")), || case.clone()),
        _ => {
            rep.extra.insert("error".into(), json!(format!("unknown func {func}")));
        }
    }
    rep
}
