//! C13 - instruction immediate fields are encoded exactly and locally.
//!
//! For every (instruction variant, field width) pair that wild's relocation tables use, enumerate
//! the field values x the initial instruction words, call the real `write_to_value` /
//! `read_value` / `bit_mask`, and check against the manual's formats (`manual.rs`):
//!  (1) locality      - bits outside the manual's immediate field are unchanged
//!  (2) independence  - the field's new content is the same for every initial word
//!  (3) round trip    - wild's own decoder gives back the written value
//!  (4) advertised    - the mask `RelocationInstruction::bit_mask` advertises is the manual's
//!  (5) encoding      - the field content is the manual's encoding of the value

use crate::manual;
use crate::manual::Fmt;
use crate::relrange::info_for;
use crate::relrange::type_name;
use crate::report::Report;
use crate::report::parse_u64;
use linker_utils::bit_misc::BitRange;
use linker_utils::elf::AArch64Instruction as A;
use linker_utils::elf::LoongArch64Instruction as L;
use linker_utils::elf::RelocationInstruction as RI;
use linker_utils::elf::RelocationSize;
use linker_utils::elf::RiscVInstruction as R;
use rayon::prelude::*;
use serde_json::Value;
use serde_json::json;
use std::collections::BTreeMap;
use std::panic::AssertUnwindSafe;
use std::panic::catch_unwind;
use std::sync::atomic::AtomicU64;
use std::sync::atomic::Ordering;

#[derive(Clone, Copy, PartialEq, Debug)]
enum Kind {
    /// The extracted value is the format's immediate.
    Plain,
    /// RISC-V: the whole 32/64-bit value is passed; the format picks its bits.
    Whole,
    /// AArch64 MOV[NZ] with MOVN/MOVZ selection by `negative`.
    MovNZ,
    /// Only the union of the two instruction formats' fields is known (no exact encoding).
    MaskOnly,
}

#[derive(Clone, Copy, PartialEq, Debug)]
enum Ext {
    Signed,
    Unsigned,
    Either,
}

struct Model {
    arch: &'static str,
    name: &'static str,
    fmt: &'static Fmt,
    kind: Kind,
    ext: Ext,
    /// Bits the write may change (the manual's field, plus documented opcode bits).
    allowed: u64,
    allowed_doc: &'static str,
    uses_negative: bool,
}

static LA_CALL30_UNION: Fmt = Fmt {
    name: "pcaddu12i + jirl pair (union of 1RI20 and 2RI16 fields)",
    manual: "LoongArch ref. manual: word0 si20[24:5], word1 offs16[25:10]; the split of R_LARCH_CALL30 is not modelled",
    nbytes: 8,
    segs: &[
        manual::Seg { src: 0, width: 20, dst: 5, add: 0 },
        manual::Seg { src: 20, width: 16, dst: 42, add: 0 },
    ],
};

fn model(insn: RI, width: u32) -> Option<Model> {
    let m = |arch, name, fmt: &'static Fmt, kind, ext| Model {
        arch,
        name,
        fmt,
        kind,
        ext,
        allowed: fmt.mask(),
        allowed_doc: "the manual's immediate field",
        uses_negative: false,
    };
    Some(match insn {
        RI::AArch64(A::Adr) => m("aarch64", "Adr", &manual::A64_ADR, Kind::Plain, Ext::Signed),
        RI::AArch64(A::Movkz) => m("aarch64", "Movkz", &manual::A64_MOVW, Kind::Plain, Ext::Unsigned),
        RI::AArch64(A::Movnz) => Model {
            arch: "aarch64",
            name: "Movnz",
            fmt: &manual::A64_MOVW,
            kind: Kind::MovNZ,
            ext: Ext::Either,
            // aaelf64 documents only imm16 + bit 30 (MOVN/MOVZ); wild's code documents that it
            // rewrites everything except rd[4:0] and hw[22:21] to a 64-bit MOVN/MOVZ. The wider,
            // code-documented set is what is allowed here.
            allowed: 0xFFFF_FFFF & !0x0060_001F,
            allowed_doc: "everything except rd[4:0] and hw[22:21], as the comment in AArch64Instruction::write_to_value documents (aaelf64 itself only names imm16[20:5] and bit 30)",
            uses_negative: true,
        },
        RI::AArch64(A::Ldr) => m("aarch64", "Ldr", &manual::A64_LDR_LIT, Kind::Plain, Ext::Signed),
        RI::AArch64(A::LdrRegister) => m("aarch64", "LdrRegister", &manual::A64_LDST_UIMM, Kind::Plain, Ext::Unsigned),
        RI::AArch64(A::Add) => m("aarch64", "Add", &manual::A64_ADD_IMM, Kind::Plain, Ext::Unsigned),
        RI::AArch64(A::LdSt) => m("aarch64", "LdSt", &manual::A64_LDST_UIMM, Kind::Plain, Ext::Unsigned),
        RI::AArch64(A::TstBr) => m("aarch64", "TstBr", &manual::A64_TBZ, Kind::Plain, Ext::Signed),
        RI::AArch64(A::Bcond) => m("aarch64", "Bcond", &manual::A64_BCOND, Kind::Plain, Ext::Signed),
        RI::AArch64(A::JumpCall) => m("aarch64", "JumpCall", &manual::A64_B, Kind::Plain, Ext::Signed),
        RI::AArch64(A::MachOLow12) => return None,
        RI::RiscV(R::UiType) => m("riscv64", "UiType", &manual::RV_UI, Kind::Whole, Ext::Signed),
        RI::RiscV(R::UType) => m("riscv64", "UType", &manual::RV_U, Kind::Whole, Ext::Signed),
        RI::RiscV(R::IType) => m("riscv64", "IType", &manual::RV_I, Kind::Whole, Ext::Signed),
        RI::RiscV(R::SType) => m("riscv64", "SType", &manual::RV_S, Kind::Whole, Ext::Signed),
        RI::RiscV(R::BType) => m("riscv64", "BType", &manual::RV_B, Kind::Whole, Ext::Signed),
        RI::RiscV(R::JType) => m("riscv64", "JType", &manual::RV_J, Kind::Whole, Ext::Signed),
        RI::RiscV(R::CbType) => m("riscv64", "CbType", &manual::RV_CB, Kind::Whole, Ext::Signed),
        RI::RiscV(R::CjType) => m("riscv64", "CjType", &manual::RV_CJ, Kind::Whole, Ext::Signed),
        RI::RiscV(R::CluiType) => m("riscv64", "CluiType", &manual::RV_CI_LUI, Kind::Whole, Ext::Signed),
        RI::LoongArch64(L::Shift5) => m("loongarch64", "Shift5", &manual::LA_1RI20, Kind::Plain, Ext::Either),
        // The table uses Shift10 both for 12-bit immediates (2RI12: addi, ld, st, ...) and for the
        // 16-bit branch offset of R_LARCH_B16 (2RI16: beq, bne, jirl, ...).
        RI::LoongArch64(L::Shift10) if width > 12 => m("loongarch64", "Shift10", &manual::LA_2RI16, Kind::Plain, Ext::Signed),
        RI::LoongArch64(L::Shift10) => m("loongarch64", "Shift10", &manual::LA_2RI12, Kind::Plain, Ext::Either),
        RI::LoongArch64(L::Branch21) => m("loongarch64", "Branch21", &manual::LA_1RI21, Kind::Plain, Ext::Signed),
        RI::LoongArch64(L::Branch26) => m("loongarch64", "Branch26", &manual::LA_I26, Kind::Plain, Ext::Signed),
        RI::LoongArch64(L::Call36) => m("loongarch64", "Call36", &manual::LA_CALL36, Kind::Plain, Ext::Signed),
        RI::LoongArch64(L::Call30) => m("loongarch64", "Call30", &LA_CALL30_UNION, Kind::MaskOnly, Ext::Either),
    })
}

/// A (variant, width) pair and the table entries that use it.
struct Cell {
    insn: RI,
    width: u32,
    ranges: Vec<(u32, u32)>,
    users: Vec<String>,
}

fn collect_cells() -> Vec<Cell> {
    let mut map: BTreeMap<(String, u32), Cell> = BTreeMap::new();
    let mut add = |insn: RI, range: BitRange, user: String| {
        let width = range.end - range.start;
        let c = map.entry((format!("{insn:?}"), width)).or_insert_with(|| Cell {
            insn,
            width,
            ranges: Vec::new(),
            users: Vec::new(),
        });
        if !c.ranges.contains(&(range.start, range.end)) {
            c.ranges.push((range.start, range.end));
        }
        c.users.push(user);
    };
    for arch in manual::ARCHS {
        for r_type in 0..=1023u32 {
            if let Some(info) = info_for(arch, r_type)
                && let RelocationSize::BitMasking(bm) = info.size
            {
                add(bm.instruction, bm.range, type_name(arch, r_type));
            }
        }
    }
    // Relaxation-only encodings that are not in the r_type tables.
    if let RelocationSize::BitMasking(bm) = linker_utils::riscv64::RelaxationKind::clui_rel_info().size {
        add(bm.instruction, bm.range, "riscv64 relaxation HI20 -> c.lui (clui_rel_info)".into());
    }
    map.into_values().collect()
}

fn ones(w: u32) -> u64 {
    if w >= 64 { u64::MAX } else { (1u64 << w) - 1 }
}

// ---------------------------------------------------------------------------------------------
// Domains

fn full_basis(nbytes: usize) -> Vec<u64> {
    let bits = (nbytes * 8) as u32;
    let filler: u64 = if bits == 64 { 0 } else { 0xA5A5_A5A5_A5A5_A5A5u64 << bits };
    let m = ones(bits);
    let mut v = vec![filler, filler | m];
    for i in 0..bits {
        v.push(filler | (1u64 << i));
        v.push(filler | (m & !(1u64 << i)));
    }
    v
}

fn reduced_basis(nbytes: usize) -> Vec<u64> {
    let bits = (nbytes * 8) as u32;
    let filler: u64 = if bits == 64 { 0 } else { 0xA5A5_A5A5_A5A5_A5A5u64 << bits };
    let m = ones(bits);
    vec![filler, filler | m, filler | (0xA5A5_A5A5_A5A5_A5A5 & m), filler | (0x5A5A_5A5A_5A5A_5A5A & m)]
}

fn boundary_xs(w: u32) -> Vec<u64> {
    let top = ones(w);
    let mut v: Vec<u64> = (0..(1u64 << 12).min(top)).collect();
    for i in 0..(1u64 << 12).min(top) {
        v.push(top - i);
    }
    for k in 0..w {
        for d in 0..=64u64 {
            v.push(((1u64 << k) + d) & top);
            v.push((1u64 << k).wrapping_sub(d) & top);
        }
    }
    v.sort_unstable();
    v.dedup();
    v
}

const LOW12_B: [u64; 9] = [0, 1, 2, 0x7fe, 0x7ff, 0x800, 0x801, 0xffe, 0xfff];
const HI20_B: [u64; 10] = [0, 1, 2, 0x7fffe, 0x7ffff, 0x80000, 0x80001, 0xffffe, 0xfffff, 0x12345];
const LOW16_B: [u64; 9] = [0, 1, 2, 0x7ffe, 0x7fff, 0x8000, 0x8001, 0xfffe, 0xffff];

struct Domain {
    xs: Vec<u64>,
    full: bool,
    describe: String,
}

fn domain(cell: &Cell, m: &Model, thorough: bool) -> Domain {
    let full_limit = if thorough { 26 } else { 21 };
    let w = cell.width;
    match (m.kind, m.name) {
        (Kind::Whole, "UType" | "UiType") => {
            let mut xs = Vec::new();
            for hi in 0..(1u64 << 20) {
                for lo in LOW12_B {
                    xs.push(hi << 12 | lo);
                }
            }
            for hi in HI20_B {
                for lo in 0..(1u64 << 12) {
                    xs.push(hi << 12 | lo);
                }
            }
            if w == 64 {
                // negative 64-bit offsets: upper word all ones
                let neg: Vec<u64> = xs.iter().filter(|x| *x & 0x8000_0000 != 0).map(|x| x | 0xFFFF_FFFF_0000_0000).collect();
                xs.extend(neg);
            }
            xs.sort_unstable();
            xs.dedup();
            Domain { xs, full: false, describe: "all 2^20 high parts x 9 boundary low parts + 10 boundary high parts x all 2^12 low parts (the +0x800 carry is crossed at every low-part boundary)".into() }
        }
        (Kind::Whole, "CluiType") => {
            let mut xs: Vec<u64> = (0..(1u64 << 18)).collect();
            xs.extend((0..(1u64 << 18)).map(|x| x | 0xFFFC_0000));
            Domain { xs, full: true, describe: "all 2^18 settings of the consumed bits [17:0], with upper bits 0 and all ones".into() }
        }
        (Kind::Whole, _) => {
            // consumed bits are below bit 21 (J-type) / 13 / 12 / 9.
            let top = match m.name {
                "JType" => 22,
                _ => 16,
            };
            let mut xs: Vec<u64> = (0..(1u64 << top)).collect();
            xs.extend((0..(1u64 << top)).map(|x| x | (0xFFFF_FFFFu64 & !ones(top))));
            Domain { xs, full: true, describe: format!("all 2^{top} settings of the low bits (every consumed bit), with upper bits 0 and all ones") }
        }
        (_, "Call36") if w == 36 => {
            let mut xs = Vec::new();
            for hi in 0..(1u64 << 20) {
                for lo in LOW16_B {
                    xs.push(hi << 16 | lo);
                }
            }
            for hi in HI20_B {
                for lo in 0..(1u64 << 16) {
                    xs.push(hi << 16 | lo);
                }
            }
            xs.sort_unstable();
            xs.dedup();
            Domain { xs, full: false, describe: "all 2^20 high parts x 9 boundary low parts + 10 boundary high parts x all 2^16 low parts".into() }
        }
        _ if w <= full_limit => Domain { xs: (0..(1u64 << w)).collect(), full: true, describe: format!("all 2^{w} field values") },
        _ => Domain { xs: boundary_xs(w), full: false, describe: format!("boundary values of the {w}-bit field only (quick tier): [0,2^12), the top 2^12, 2^k +- 64") },
    }
}

// ---------------------------------------------------------------------------------------------

fn write(insn: RI, x: u64, neg: bool, init: u64) -> u64 {
    let mut b = init.to_le_bytes();
    insn.write_to_value(x, neg, &mut b);
    u64::from_le_bytes(b)
}

fn read(insn: RI, word: u64) -> (u64, bool) {
    insn.read_value(&word.to_le_bytes())
}

fn sign_extend(x: u64, w: u32) -> u64 {
    if w >= 64 || w == 0 {
        return x;
    }
    if x & (1u64 << (w - 1)) != 0 { x | !ones(w) } else { x }
}

/// Expected content of the allowed bits, from the manual.
fn expected_field(m: &Model, x: u64, neg: bool) -> Option<u64> {
    match m.kind {
        Kind::Plain | Kind::Whole => Some(m.fmt.scatter(x)),
        Kind::MovNZ => {
            let imm = (if neg { !x } else { x }) & 0xffff;
            Some(m.fmt.scatter(imm) | if neg { 0 } else { 1 << 30 })
        }
        Kind::MaskOnly => None,
    }
}

#[derive(Default)]
struct CellAcc {
    evaluations: u64,
    locality_bits: u64,
    independence_bits: u64,
    encoding_bits: u64,
    first: BTreeMap<&'static str, (String, Value)>,
    counts: BTreeMap<&'static str, u64>,
    distinct_fields: u64,
}

impl CellAcc {
    fn hit(&mut self, class: &'static str, make: impl FnOnce() -> (String, Value)) {
        *self.counts.entry(class).or_insert(0) += 1;
        if !self.first.contains_key(class) {
            self.first.insert(class, make());
        }
    }

    fn merge(&mut self, o: CellAcc) {
        self.evaluations += o.evaluations;
        self.locality_bits |= o.locality_bits;
        self.independence_bits |= o.independence_bits;
        self.encoding_bits |= o.encoding_bits;
        self.distinct_fields += o.distinct_fields;
        for (k, n) in o.counts {
            *self.counts.entry(k).or_insert(0) += n;
        }
        for (k, v) in o.first {
            self.first.entry(k).or_insert(v);
        }
    }
}

struct CaseCtx<'a> {
    cell: &'a Cell,
    m: &'a Model,
    wmask: u64,
    /// Bits compared for content: the manual field (for MovNZ: imm16 + bit 30 only).
    content_mask: u64,
}

fn case_json(ctx: &CaseCtx, x: u64, neg: bool, init: u64) -> Value {
    json!({"arch": ctx.m.arch, "variant": ctx.m.name, "width": ctx.cell.width, "x": format!("0x{x:x}"), "negative": neg, "init": format!("0x{init:x}")})
}

fn eval(ctx: &CaseCtx, acc: &mut CellAcc, x: u64, neg: bool, init: u64, out0: u64) {
    let insn = ctx.cell.insn;
    let m = ctx.m;
    let out = write(insn, x, neg, init);
    acc.evaluations += 1;
    // (1) locality
    let stray = (out ^ init) & !m.allowed;
    if stray != 0 {
        acc.locality_bits |= stray;
        acc.hit("locality", || {
            (format!("write_to_value(x=0x{x:x}, negative={neg}) on word 0x{init:x} gives 0x{out:x}: bits 0x{stray:x} outside the field 0x{:x} ({}) changed", m.allowed, m.fmt.manual), case_json(ctx, x, neg, init))
        });
    }
    // (2) independence from prior content
    let dep = if m.kind == Kind::MaskOnly { 0 } else { (out ^ out0) & m.allowed };
    if dep != 0 {
        acc.independence_bits |= dep;
        acc.hit("independence", || {
            (format!("write_to_value(x=0x{x:x}, negative={neg}): field content differs between initial word 0 (-> 0x{out0:x}) and initial word 0x{init:x} (-> 0x{out:x}); differing field bits 0x{dep:x} (the field is OR-ed into / not cleared)", ), case_json(ctx, x, neg, init))
        });
    }
    // (3) round trip through wild's decoder
    let (r, rn) = read(insn, out);
    let re = write(insn, r & ctx.wmask, if m.uses_negative { rn } else { neg }, init);
    let injective = m.kind == Kind::Plain && ctx.cell.width <= m.fmt.field_bits();
    if re != out || (injective && r & ctx.wmask != x && dep == 0 && stray == 0) {
        acc.hit("roundtrip", || {
            (format!("read_value(0x{out:x}) = (0x{r:x}, {rn}); writing that back gives 0x{re:x} (written: x=0x{x:x}, negative={neg}, initial word 0x{init:x} -> 0x{out:x}): the decoder does not give back the written value"), case_json(ctx, x, neg, init))
        });
    } else if injective && dep == 0 && stray == 0 && r != x && r == sign_extend(x, ctx.cell.width) && m.ext == Ext::Unsigned && ctx.cell.width == m.fmt.field_bits() {
        acc.hit("decode-sign-extends-unsigned-field", || {
            (format!("read_value(0x{out:x}) = 0x{r:x}: the manual's field is zero-extended ({}), the written in-range value was 0x{x:x}", m.fmt.manual), case_json(ctx, x, neg, init))
        });
    }
    if m.uses_negative && rn != neg && re == out {
        acc.hit("decode-negative-flag", || (format!("read_value(0x{out:x}) returns negative={rn}, written negative={neg}"), case_json(ctx, x, neg, init)));
    }
}

fn run_cell(cell: &Cell, m: &Model, thorough: bool, total_evals: &AtomicU64) -> (CellAcc, Value) {
    let t0 = std::time::Instant::now();
    let dom = domain(cell, m, thorough);
    let cap: u64 = if thorough { 6_000_000_000 } else { 40_000_000 };
    let negs: &[bool] = if m.uses_negative { &[false, true] } else { &[false] };
    let fb = full_basis(m.fmt.nbytes);
    let (basis, basis_name) = if (dom.xs.len() as u64) * (fb.len() as u64) * (negs.len() as u64) <= cap {
        (fb, "full")
    } else {
        (reduced_basis(m.fmt.nbytes), "reduced")
    };
    let zero_init = basis[0];
    let wmask = ones(cell.width);
    let content_mask = match m.kind {
        Kind::MovNZ => m.fmt.mask() | (1 << 30),
        _ => m.fmt.mask(),
    };
    let ctx = CaseCtx {
        cell,
        m,
        wmask,
        content_mask,
    };
    let acc = dom
        .xs
        .par_chunks(1 << 12)
        .map(|chunk| {
            let mut acc = CellAcc::default();
            let body = |acc: &mut CellAcc| {
                let mut last_field = u64::MAX;
                for &x in chunk {
                    for &neg in negs {
                        let out0 = write(cell.insn, x, neg, zero_init);
                        // (5) exact encoding per the manual (judged on the zero initial word)
                        if let Some(exp) = expected_field(m, x, neg) {
                            let diff = (out0 ^ exp) & ctx.content_mask;
                            let representable = m.kind != Kind::Plain || x <= ones(m.fmt.field_bits());
                            if diff != 0 && representable {
                                acc.encoding_bits |= diff;
                                acc.hit("encoding", || {
                                    (format!("write_to_value(x=0x{x:x}, negative={neg}) on a zero word gives 0x{out0:x}; the manual's encoding ({}) is 0x{exp:x}", m.fmt.manual), case_json(&ctx, x, neg, zero_init))
                                });
                            }
                        }
                        let f = out0 & m.allowed;
                        if f != last_field {
                            acc.distinct_fields += 1;
                            last_field = f;
                        }
                        for &init in &basis {
                            eval(&ctx, acc, x, neg, init, out0);
                        }
                    }
                }
            };
            if catch_unwind(AssertUnwindSafe(|| body(&mut acc))).is_err() {
                // Find the first panicking case of this chunk.
                let mut acc2 = CellAcc::default();
                'outer: for &x in chunk {
                    for &neg in negs {
                        for &init in &basis {
                            let r = catch_unwind(AssertUnwindSafe(|| {
                                let o = write(cell.insn, x, neg, init);
                                let _ = read(cell.insn, o);
                            }));
                            if r.is_err() {
                                acc2.hit("panic", || (format!("write_to_value/read_value panicked for x=0x{x:x} negative={neg} init=0x{init:x}"), case_json(&ctx, x, neg, init)));
                                break 'outer;
                            }
                        }
                    }
                }
                acc2.evaluations = acc.evaluations;
                return acc2;
            }
            acc
        })
        .reduce(CellAcc::default, |mut a, b| {
            a.merge(b);
            a
        });
    total_evals.fetch_add(acc.evaluations, Ordering::Relaxed);
    let info = json!({
        "variant": format!("{}:{}", m.arch, m.name), "width": cell.width, "ranges": cell.ranges, "users": cell.users.len(),
        "format": m.fmt.name, "manual_field_mask": format!("0x{:x}", m.fmt.mask()), "allowed_bits": m.allowed_doc,
        "values": dom.xs.len(), "values_exhaustive": dom.full, "domain": dom.describe, "basis": format!("{basis_name} ({} words)", basis.len()),
        "negative_both": m.uses_negative, "evaluations": acc.evaluations, "distinct_field_contents_seen": acc.distinct_fields, "wall_s": (t0.elapsed().as_secs_f64() * 100.0).round() / 100.0,
    });
    (acc, info)
}

/// (4) the advertised mask for one (variant, range).
fn check_advertised(cell: &Cell, m: &Model, range: (u32, u32), rep: &mut Report) {
    let key = format!("{}:{}:w{}:advertised-mask", m.arch, m.name, cell.width);
    let replay = json!({"arch": m.arch, "variant": m.name, "width": cell.width, "range": [range.0, range.1], "check": "advertised-mask"});
    let br = BitRange {
        start: range.0,
        end: range.1,
    };
    let insn = cell.insn;
    let adv = catch_unwind(AssertUnwindSafe(|| insn.bit_mask(br)));
    rep.evaluations += 1;
    let required: u64 = match m.kind {
        Kind::Plain => m.fmt.scatter(ones(cell.width.min(m.fmt.field_bits()))),
        Kind::Whole => m.fmt.mask(),
        Kind::MovNZ => m.fmt.mask() | (1 << 30),
        Kind::MaskOnly => 0,
    };
    match adv {
        Err(_) => rep.violation(&key, || {
            (format!("RelocationInstruction::bit_mask({}..{}) panics for {} (the relocation spans {} bytes; bit_mask works on 4)", range.0, range.1, m.name, m.fmt.nbytes), replay)
        }),
        Ok(bytes) => {
            let field = u64::from(!u32::from_le_bytes(bytes));
            let missing = required & !field;
            let extra = field & !m.allowed;
            if missing != 0 || extra != 0 {
                rep.violation(&key, || {
                    (format!("bit_mask({}..{}) of {} advertises relocation bits 0x{field:x}; the manual's field ({}) needs 0x{required:x} within 0x{:x}: missing 0x{missing:x}, extra 0x{extra:x}",
                        range.0, range.1, m.name, m.fmt.manual, m.allowed), replay)
                });
            } else {
                rep.cell(&format!("{}:{}:w{}:advertised-mask-ok", m.arch, m.name, cell.width), 1);
            }
        }
    }
}

pub fn run(thorough: bool) -> Report {
    let cells = collect_cells();
    let mut rep = Report::new();
    let total = AtomicU64::new(0);
    let mut cell_infos = Vec::new();
    let mut skipped = Vec::new();
    for cell in &cells {
        let Some(m) = model(cell.insn, cell.width) else {
            skipped.push(format!("{:?} (Mach-O only, decoder is todo!())", cell.insn));
            continue;
        };
        let (acc, mut info) = run_cell(cell, &m, thorough, &total);
        let pfx = format!("{}:{}:w{}", m.arch, m.name, cell.width);
        rep.evaluations += acc.evaluations;
        rep.cell(&format!("{pfx}:evaluated"), acc.evaluations);
        let mut classes = Vec::new();
        for (class, (what, replay)) in acc.first {
            let n = acc.counts[class];
            // The set of offending bits is part of the key: a different stray bit is a
            // different violation.
            let key = match class {
                "locality" => format!("{pfx}:locality:bits=0x{:x}", acc.locality_bits),
                "independence" => format!("{}:{}:independence:bits=0x{:x}", m.arch, m.name, acc.independence_bits),
                "encoding" => format!("{pfx}:encoding:bits=0x{:x}", acc.encoding_bits),
                c => format!("{pfx}:{c}"),
            };
            classes.push(key.clone());
            let users = cell.users.iter().take(6).cloned().collect::<Vec<_>>().join(", ");
            let before = rep.violations.get(&key).map_or(0, |v| v.count);
            rep.violation(&key, || (format!("{what} [used by {users}{}]", if cell.users.len() > 6 { ", ..." } else { "" }), replay));
            rep.violations.get_mut(&key).unwrap().count = before + n;
            rep.cell(&format!("{pfx}:VIOLATION:{class}"), n);
        }
        info["violation_keys"] = json!(classes);
        if m.kind == Kind::Plain && cell.width > m.fmt.field_bits() {
            info["note"] = json!(format!("table range is {} bits wide but the manual's field has {} bits", cell.width, m.fmt.field_bits()));
        }
        for &range in &cell.ranges {
            check_advertised(cell, &m, range, &mut rep);
        }
        cell_infos.push(info);
    }
    rep.extra.insert("cells_detail".into(), json!(cell_infos));
    rep.extra.insert("skipped_variants".into(), json!(skipped));
    // a few written-out cases
    for (insn, x, init) in [
        (RI::AArch64(A::Adr), 0x1f_ffffu64, 0x9000_0000u64),
        (RI::RiscV(R::BType), 0x1ffe, 0x0000_0063),
        (RI::LoongArch64(L::Branch26), 0x3ff_ffff, 0x5000_0000),
        (RI::RiscV(R::UType), 0x1234_5800, 0x0000_0537),
    ] {
        let out = write(insn, x, false, init);
        let (r, rn) = read(insn, out);
        rep.sample(json!({"variant": format!("{insn:?}"), "x": format!("0x{x:x}"), "initial_word": format!("0x{init:x}"), "written_word": format!("0x{out:x}"), "decoded": format!("0x{r:x}"), "decoded_negative": rn}));
    }
    rep
}

pub fn replay(case: &Value) -> Report {
    let mut rep = Report::new();
    let arch = case["arch"].as_str().unwrap_or("");
    let variant = case["variant"].as_str().unwrap_or("");
    let width = case["width"].as_u64().unwrap_or(0) as u32;
    let cells = collect_cells();
    let Some((cell, m)) = cells.iter().find_map(|c| {
        let m = model(c.insn, c.width)?;
        (m.arch == arch && m.name == variant && c.width == width).then_some((c, m))
    }) else {
        rep.extra.insert("error".into(), json!("no such (variant, width) cell in wild's tables"));
        return rep;
    };
    if case["check"].as_str() == Some("advertised-mask") {
        let r = &case["range"];
        check_advertised(cell, &m, (r[0].as_u64().unwrap_or(0) as u32, r[1].as_u64().unwrap_or(0) as u32), &mut rep);
        return rep;
    }
    let x = parse_u64(&case["x"]).unwrap_or(0);
    let neg = case["negative"].as_bool().unwrap_or(false);
    let init = parse_u64(&case["init"]).unwrap_or(0);
    let basis0 = full_basis(m.fmt.nbytes)[0];
    let ctx = CaseCtx {
        cell,
        m: &m,
        wmask: ones(width),
        content_mask: match m.kind {
            Kind::MovNZ => m.fmt.mask() | (1 << 30),
            _ => m.fmt.mask(),
        },
    };
    let mut acc = CellAcc::default();
    let r = catch_unwind(AssertUnwindSafe(|| {
        let out0 = write(cell.insn, x, neg, basis0);
        if let Some(exp) = expected_field(&m, x, neg) {
            let diff = (out0 ^ exp) & ctx.content_mask;
            if diff != 0 && (m.kind != Kind::Plain || x <= ones(m.fmt.field_bits())) {
                acc.encoding_bits |= diff;
                acc.hit("encoding", || (format!("zero word -> 0x{out0:x}, manual encoding 0x{exp:x}"), case.clone()));
            }
        }
        eval(&ctx, &mut acc, x, neg, init, out0);
        let out = write(cell.insn, x, neg, init);
        let (rv, rn) = read(cell.insn, out);
        json!({"initial_word": format!("0x{init:x}"), "written_word": format!("0x{out:x}"), "written_from_zero_word": format!("0x{out0:x}"),
               "manual_field_mask": format!("0x{:x}", m.fmt.mask()), "allowed_mask": format!("0x{:x}", m.allowed),
               "manual_encoding": expected_field(&m, x, neg).map(|e| format!("0x{e:x}")),
               "decoded": format!("0x{rv:x}"), "decoded_negative": rn, "manual": m.fmt.manual})
    }));
    match r {
        Ok(detail) => rep.sample(detail),
        Err(_) => acc.hit("panic", || ("panicked".into(), case.clone())),
    }
    rep.evaluations = 1;
    let pfx = format!("{}:{}:w{}", m.arch, m.name, width);
    for (class, (what, replay)) in acc.first {
        rep.violation(&format!("{pfx}:{class}"), || (what, replay));
    }
    rep
}
