//! unitx - exhaustive function-domain harness for wild.
//!
//!   unitx alignment|immfield|relrange [--tier quick|thorough]
//!   unitx replay-alignment|replay-immfield|replay-relrange <case.json>
//!   unitx tables            (dump wild's relocation tables as this harness sees them)
//!
//! Every sub-command prints one JSON object on stdout.

mod align;
mod immfield;
mod manual;
mod relrange;
mod report;

use serde_json::Value;
use serde_json::json;
use std::time::Instant;

fn main() {
    // Panics of the functions under test are caught and reported as violations; keep stderr quiet.
    std::panic::set_hook(Box::new(|_| {}));
    let args: Vec<String> = std::env::args().skip(1).collect();
    let Some(cmd) = args.first().map(String::as_str) else {
        usage();
    };
    let mut tier = "quick".to_owned();
    let mut positional = Vec::new();
    let mut i = 1;
    while i < args.len() {
        if args[i] == "--tier" && i + 1 < args.len() {
            tier = args[i + 1].clone();
            i += 2;
        } else {
            positional.push(args[i].clone());
            i += 1;
        }
    }
    let thorough = tier == "thorough";
    rayon::ThreadPoolBuilder::new()
        .num_threads(std::env::var("UNITX_THREADS").ok().and_then(|s| s.parse().ok()).unwrap_or(16))
        .build_global()
        .unwrap();
    let t0 = Instant::now();
    let rep = match cmd {
        "alignment" => align::run(thorough),
        "immfield" => immfield::run(thorough),
        "relrange" => relrange::run(thorough),
        "replay-alignment" => align::replay(&load_case(&positional)),
        "replay-immfield" => immfield::replay(&load_case(&positional)),
        "replay-relrange" => relrange::replay(&load_case(&positional)),
        "tables" => {
            println!("{}", tables());
            return;
        }
        _ => usage(),
    };
    println!("{}", rep.to_json(cmd, &tier, t0.elapsed().as_secs_f64()));
}

fn usage() -> ! {
    eprintln!("usage: unitx alignment|immfield|relrange [--tier quick|thorough] | replay-<cmd> <case.json> | tables");
    std::process::exit(2);
}

/// The case file is either the replay object itself or a /verif/replays file wrapping it.
fn load_case(positional: &[String]) -> Value {
    let Some(path) = positional.first() else {
        usage();
    };
    let text = std::fs::read_to_string(path).unwrap_or_else(|e| {
        eprintln!("unitx: cannot read {path}: {e}");
        std::process::exit(2);
    });
    let v: Value = serde_json::from_str(&text).unwrap_or_else(|e| {
        eprintln!("unitx: {path}: {e}");
        std::process::exit(2);
    });
    if v.get("replay").is_some_and(Value::is_object) { v["replay"].clone() } else { v }
}

fn tables() -> Value {
    let mut out = Vec::new();
    for arch in manual::ARCHS {
        for r_type in 0..=1023u32 {
            if let Some(info) = relrange::info_for(arch, r_type) {
                out.push(json!({"arch": arch, "r_type": r_type, "name": relrange::type_name(arch, r_type),
                    "kind": format!("{:?}", info.kind), "size": format!("{:?}", info.size),
                    "range": [info.range.min.to_string(), info.range.max.to_string()], "alignment": info.alignment, "bias": info.bias}));
            }
        }
    }
    json!(out)
}
