fn main() {
    println!("{:?}", libwild::verif::api::alignment_new(8));
    println!("{:?}", linker_utils::x86_64::relocation_from_raw(1).is_some());
    let v: Vec<u64> = { use rayon::prelude::*; (0..4u64).into_par_iter().map(|x| x * 2).collect() };
    println!("{}", serde_json::json!({"v": v}));
}
