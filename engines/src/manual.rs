//! Independent model of instruction immediate fields and relocation operations, transcribed from
//! the architecture manuals and psABIs (NOT from wild's tables):
//!
//! * Arm ARM (DDI 0487) C6.2: ADR/ADRP immlo[30:29] immhi[23:5]; ADD (immediate) imm12[21:10];
//!   LDR/STR (immediate, unsigned offset) imm12[21:10]; LDR (literal) imm19[23:5]; B/BL imm26[25:0];
//!   B.cond / CBZ imm19[23:5]; TBZ/TBNZ imm14[18:5]; MOVZ/MOVN/MOVK imm16[20:5], opc[30:29].
//! * RISC-V unprivileged ISA 2.3 "Immediate Encoding Variants" (I, S, B, U, J) and the C extension
//!   formats CI (c.lui), CB (c.beqz/c.bnez), CJ (c.j).
//! * LoongArch reference manual vol.1, instruction formats 2RI12, 2RI16, 1RI20, 1RI21, I26.
//! * ELF for the Arm 64-bit Architecture (aaelf64), RISC-V ELF psABI, LoongArch ELF psABI
//!   (laelf), System V x86-64 psABI 1.0 - operation, field and overflow check per relocation type.
//!   Where a psABI is silent or GNU ld and lld are known to differ, the zone between `must` and
//!   `may` is left free (either outcome is accepted).

use object::elf::*;

/// One contiguous run of value bits placed into instruction bits. The source is bits
/// [src, src+width) of `value + add` (wrapping).
#[derive(Clone, Copy, Debug)]
pub struct Seg {
    pub src: u32,
    pub width: u32,
    pub dst: u32,
    pub add: u64,
}

const fn seg(src: u32, width: u32, dst: u32) -> Seg {
    Seg {
        src,
        width,
        dst,
        add: 0,
    }
}

const fn seg_add(src: u32, width: u32, dst: u32, add: u64) -> Seg {
    Seg {
        src,
        width,
        dst,
        add,
    }
}

/// An instruction format: where the immediate field lives, in a little-endian word of `nbytes`.
#[derive(Debug)]
pub struct Fmt {
    pub name: &'static str,
    pub manual: &'static str,
    pub nbytes: usize,
    /// value here = the immediate as the ISA defines it (byte offset for branch formats)
    pub segs: &'static [Seg],
}

fn ones(width: u32) -> u64 {
    if width >= 64 { u64::MAX } else { (1u64 << width) - 1 }
}

impl Fmt {
    /// Bits of the instruction word(s) that make up the immediate field.
    pub fn mask(&self) -> u64 {
        let mut m = 0;
        for s in self.segs {
            m |= ones(s.width) << s.dst;
        }
        m
    }

    /// Field content for an immediate value.
    pub fn scatter(&self, value: u64) -> u64 {
        let mut w = 0;
        for s in self.segs {
            let v = value.wrapping_add(s.add);
            w |= ((v >> s.src) & ones(s.width)) << s.dst;
        }
        w
    }

    /// Number of immediate bits in the field.
    pub fn field_bits(&self) -> u32 {
        self.segs.iter().map(|s| s.width).sum()
    }
}

// --- AArch64 (Arm ARM C6.2) -------------------------------------------------------------------
pub static A64_ADR: Fmt = Fmt {
    name: "ADR/ADRP",
    manual: "Arm ARM C6.2.11/12: immlo[30:29] immhi[23:5]",
    nbytes: 4,
    segs: &[seg(0, 2, 29), seg(2, 19, 5)],
};
pub static A64_MOVW: Fmt = Fmt {
    name: "MOVZ/MOVN/MOVK",
    manual: "Arm ARM C6.2.225-227: imm16[20:5] (opc[30:29] selects MOVN=00 / MOVZ=10 / MOVK=11)",
    nbytes: 4,
    segs: &[seg(0, 16, 5)],
};
pub static A64_LDR_LIT: Fmt = Fmt {
    name: "LDR (literal)",
    manual: "Arm ARM C6.2.167: imm19[23:5]",
    nbytes: 4,
    segs: &[seg(0, 19, 5)],
};
pub static A64_ADD_IMM: Fmt = Fmt {
    name: "ADD (immediate)",
    manual: "Arm ARM C6.2.4: imm12[21:10]",
    nbytes: 4,
    segs: &[seg(0, 12, 10)],
};
pub static A64_LDST_UIMM: Fmt = Fmt {
    name: "LDR/STR (immediate, unsigned offset)",
    manual: "Arm ARM C6.2.166: imm12[21:10] (zero-extended, scaled by access size)",
    nbytes: 4,
    segs: &[seg(0, 12, 10)],
};
pub static A64_TBZ: Fmt = Fmt {
    name: "TBZ/TBNZ",
    manual: "Arm ARM C6.2.375: imm14[18:5]",
    nbytes: 4,
    segs: &[seg(0, 14, 5)],
};
pub static A64_BCOND: Fmt = Fmt {
    name: "B.cond/CBZ/CBNZ",
    manual: "Arm ARM C6.2.26/47: imm19[23:5]",
    nbytes: 4,
    segs: &[seg(0, 19, 5)],
};
pub static A64_B: Fmt = Fmt {
    name: "B/BL",
    manual: "Arm ARM C6.2.25/34: imm26[25:0]",
    nbytes: 4,
    segs: &[seg(0, 26, 0)],
};

// --- RISC-V (value = byte offset / absolute immediate) -----------------------------------------
pub static RV_U: Fmt = Fmt {
    name: "U-type",
    manual: "RISC-V ISA 2.3: imm[31:12] -> inst[31:12]; psABI %hi(x) = (x + 0x800) >> 12",
    nbytes: 4,
    segs: &[seg_add(12, 20, 12, 0x800)],
};
pub static RV_I: Fmt = Fmt {
    name: "I-type",
    manual: "RISC-V ISA 2.3: imm[11:0] -> inst[31:20]",
    nbytes: 4,
    segs: &[seg(0, 12, 20)],
};
pub static RV_S: Fmt = Fmt {
    name: "S-type",
    manual: "RISC-V ISA 2.3: imm[11:5] -> inst[31:25], imm[4:0] -> inst[11:7]",
    nbytes: 4,
    segs: &[seg(5, 7, 25), seg(0, 5, 7)],
};
pub static RV_B: Fmt = Fmt {
    name: "B-type",
    manual: "RISC-V ISA 2.3: imm[12] -> 31, imm[10:5] -> [30:25], imm[4:1] -> [11:8], imm[11] -> 7",
    nbytes: 4,
    segs: &[seg(12, 1, 31), seg(5, 6, 25), seg(1, 4, 8), seg(11, 1, 7)],
};
pub static RV_J: Fmt = Fmt {
    name: "J-type",
    manual: "RISC-V ISA 2.3: imm[20] -> 31, imm[10:1] -> [30:21], imm[11] -> 20, imm[19:12] -> [19:12]",
    nbytes: 4,
    segs: &[seg(20, 1, 31), seg(1, 10, 21), seg(11, 1, 20), seg(12, 8, 12)],
};
pub static RV_UI: Fmt = Fmt {
    name: "U-type + I-type pair (auipc+jalr)",
    manual: "psABI R_RISCV_CALL: auipc imm = (x + 0x800)[31:12] at word0[31:12]; jalr imm = x[11:0] at word1[31:20]",
    nbytes: 8,
    segs: &[seg_add(12, 20, 12, 0x800), seg(0, 12, 52)],
};
pub static RV_CB: Fmt = Fmt {
    name: "CB-type (c.beqz/c.bnez)",
    manual: "RVC 16.x: offset[8|4:3] -> inst[12:10], offset[7:6|2:1|5] -> inst[6:2]",
    nbytes: 2,
    segs: &[seg(8, 1, 12), seg(3, 2, 10), seg(6, 2, 5), seg(1, 2, 3), seg(5, 1, 2)],
};
pub static RV_CJ: Fmt = Fmt {
    name: "CJ-type (c.j/c.jal)",
    manual: "RVC: offset[11|4|9:8|10|6|7|3:1|5] -> inst[12:2]",
    nbytes: 2,
    segs: &[
        seg(11, 1, 12),
        seg(4, 1, 11),
        seg(8, 2, 9),
        seg(10, 1, 8),
        seg(6, 1, 7),
        seg(7, 1, 6),
        seg(1, 3, 3),
        seg(5, 1, 2),
    ],
};
pub static RV_CI_LUI: Fmt = Fmt {
    name: "CI-type (c.lui)",
    manual: "RVC: nzimm[17] -> inst[12], nzimm[16:12] -> inst[6:2]; %hi rounding +0x800",
    nbytes: 2,
    segs: &[seg_add(17, 1, 12, 0x800), seg_add(12, 5, 2, 0x800)],
};

// --- LoongArch (reference manual vol.1, instruction formats) -----------------------------------
pub static LA_1RI20: Fmt = Fmt {
    name: "1RI20 (lu12i.w, pcalau12i, pcaddi, pcaddu18i, lu32i.d)",
    manual: "LoongArch ref. manual: si20[24:5]",
    nbytes: 4,
    segs: &[seg(0, 20, 5)],
};
pub static LA_2RI12: Fmt = Fmt {
    name: "2RI12 (addi, ld/st, ori, lu52i.d)",
    manual: "LoongArch ref. manual: si12[21:10]",
    nbytes: 4,
    segs: &[seg(0, 12, 10)],
};
pub static LA_2RI16: Fmt = Fmt {
    name: "2RI16 (beq.., jirl)",
    manual: "LoongArch ref. manual: offs16[25:10]",
    nbytes: 4,
    segs: &[seg(0, 16, 10)],
};
pub static LA_1RI21: Fmt = Fmt {
    name: "1RI21 (beqz, bnez)",
    manual: "LoongArch ref. manual: offs[15:0] -> [25:10], offs[20:16] -> [4:0]",
    nbytes: 4,
    segs: &[seg(0, 16, 10), seg(16, 5, 0)],
};
pub static LA_I26: Fmt = Fmt {
    name: "I26 (b, bl)",
    manual: "LoongArch ref. manual: offs[15:0] -> [25:10], offs[25:16] -> [9:0]",
    nbytes: 4,
    segs: &[seg(0, 16, 10), seg(16, 10, 0)],
};
/// value = byte offset >> 2 (36 bits)
pub static LA_CALL36: Fmt = Fmt {
    name: "pcaddu18i + jirl pair",
    manual: "laelf R_LARCH_CALL36: word0[24:5] = (x + 0x20000)[37:18], word1[25:10] = x[17:2]",
    nbytes: 8,
    segs: &[seg_add(16, 20, 5, 0x8000), seg(0, 16, 42)],
};

// ---------------------------------------------------------------------------------------------
// Relocation types (C12)

#[derive(Clone, Copy, Debug)]
pub enum Field {
    /// No bytes are written.
    Nothing,
    /// Little-endian data field of n bytes holding X (truncated when the type has no check).
    Bytes(usize),
    /// Instruction field: bits [lo, hi) of X, shifted down by lo, are the format's immediate.
    /// `pre_add` is added to X first (RISC-V %hi rounding is inside the format instead).
    Insn { fmt: &'static Fmt, lo: u32, hi: u32 },
    /// AArch64 MOV[NZ]: X >= 0: MOVZ (bit 30 = 1) with imm16 = X[lo+15:lo]; X < 0: MOVN (bit 30 =
    /// 0) with imm16 = (~X)[lo+15:lo].
    MovNZ { lo: u32 },
    /// Field not modelled (ULEB128 etc.): only the generic invariants are checked.
    Unmodelled,
}

#[derive(Clone, Copy, Debug)]
pub struct RelSpec {
    pub r_type: u32,
    pub name: &'static str,
    pub field: Field,
    /// Values the linker must accept: [lo, hi).
    pub must: (i128, i128),
    /// Values the linker may accept: [lo, hi). Outside of it it must report overflow.
    pub may: (i128, i128),
    /// Natural bit count of the field's value (for naming boundary classes).
    pub bits: u32,
    pub source: &'static str,
}

const ALL: (i128, i128) = (-(1i128 << 63), 1i128 << 63);

fn signed(n: u32) -> (i128, i128) {
    (-(1i128 << (n - 1)), 1i128 << (n - 1))
}
fn unsigned(n: u32) -> (i128, i128) {
    (0, 1i128 << n)
}
fn either(n: u32) -> (i128, i128) {
    (-(1i128 << (n - 1)), 1i128 << n)
}

macro_rules! r {
    ($t:ident, $field:expr, $must:expr, $may:expr, $bits:expr, $src:expr) => {
        RelSpec {
            r_type: $t,
            name: stringify!($t),
            field: $field,
            must: $must,
            may: $may,
            bits: $bits,
            source: $src,
        }
    };
}

fn insn(fmt: &'static Fmt, lo: u32, hi: u32) -> Field {
    Field::Insn { fmt, lo, hi }
}

pub fn x86_64_specs() -> Vec<RelSpec> {
    const P: &str = "x86-64 psABI 1.0 table 4.9; check = what GNU ld 2.40 (elf64-x86-64.c howto) and lld (X86_64.cpp) both do";
    let s32 = signed(32);
    let mut v = vec![
        r!(R_X86_64_NONE, Field::Nothing, ALL, ALL, 64, P),
        r!(R_X86_64_64, Field::Bytes(8), ALL, ALL, 64, P),
        r!(R_X86_64_PC32, Field::Bytes(4), s32, s32, 32, P),
        // GNU: complain_overflow_signed, lld: checkInt 32.
        r!(R_X86_64_GOT32, Field::Bytes(4), s32, s32, 32, P),
        r!(R_X86_64_PLT32, Field::Bytes(4), s32, s32, 32, P),
        r!(R_X86_64_GOTPCREL, Field::Bytes(4), s32, s32, 32, P),
        // psABI: "truncated to 32 bits ... must equal the original when zero-extended".
        r!(R_X86_64_32, Field::Bytes(4), unsigned(32), unsigned(32), 32, P),
        r!(R_X86_64_32S, Field::Bytes(4), s32, s32, 32, P),
        // Ground truth measured with ld 2.40 / ld.lld 14 (matrix in evidence/C12.json):
        // GNU: complain_overflow_bitfield = [-2^n, 2^n), lld: checkIntUInt = [-2^(n-1), 2^n).
        r!(R_X86_64_16, Field::Bytes(2), either(16), (-(1 << 16), 1 << 16), 16, P),
        // GNU: bitfield [-2^16, 2^16), lld: checkInt 16.
        r!(R_X86_64_PC16, Field::Bytes(2), signed(16), (-(1 << 16), 1 << 16), 16, P),
        r!(R_X86_64_8, Field::Bytes(1), either(8), (-(1 << 8), 1 << 8), 8, P),
        // GNU: complain_overflow_signed, lld: checkInt 8.
        r!(R_X86_64_PC8, Field::Bytes(1), signed(8), signed(8), 8, P),
        r!(R_X86_64_DTPOFF64, Field::Bytes(8), ALL, ALL, 64, P),
        r!(R_X86_64_TPOFF64, Field::Bytes(8), ALL, ALL, 64, P),
        r!(R_X86_64_TLSGD, Field::Bytes(4), s32, s32, 32, P),
        r!(R_X86_64_TLSLD, Field::Bytes(4), s32, s32, 32, P),
        r!(R_X86_64_DTPOFF32, Field::Bytes(4), s32, s32, 32, P),
        r!(R_X86_64_GOTTPOFF, Field::Bytes(4), s32, s32, 32, P),
        r!(R_X86_64_TPOFF32, Field::Bytes(4), s32, s32, 32, P),
        r!(R_X86_64_PC64, Field::Bytes(8), ALL, ALL, 64, P),
        r!(R_X86_64_GOTOFF64, Field::Bytes(8), ALL, ALL, 64, P),
        r!(R_X86_64_GOTPC32, Field::Bytes(4), s32, s32, 32, P),
        r!(R_X86_64_GOT64, Field::Bytes(8), ALL, ALL, 64, P),
        r!(R_X86_64_GOTPCREL64, Field::Bytes(8), ALL, ALL, 64, P),
        r!(R_X86_64_GOTPC64, Field::Bytes(8), ALL, ALL, 64, P),
        r!(R_X86_64_GOTPLT64, Field::Bytes(8), ALL, ALL, 64, P),
        r!(R_X86_64_PLTOFF64, Field::Bytes(8), ALL, ALL, 64, P),
        // GNU: unsigned, lld: signed -> only the common part is demanded.
        r!(R_X86_64_SIZE32, Field::Bytes(4), (0, 1 << 31), either(32), 32, P),
        r!(R_X86_64_SIZE64, Field::Bytes(8), ALL, ALL, 64, P),
        r!(R_X86_64_GOTPC32_TLSDESC, Field::Bytes(4), s32, s32, 32, P),
        r!(R_X86_64_TLSDESC_CALL, Field::Nothing, ALL, ALL, 64, P),
        r!(R_X86_64_GOTPCRELX, Field::Bytes(4), s32, s32, 32, P),
        r!(R_X86_64_REX_GOTPCRELX, Field::Bytes(4), s32, s32, 32, P),
    ];
    // APX variants (psABI 1.0 draft): same 32-bit PC-relative fields.
    for (t, n) in [
        (R_X86_64_CODE_4_GOTPCRELX, "R_X86_64_CODE_4_GOTPCRELX"),
        (R_X86_64_CODE_4_GOTTPOFF, "R_X86_64_CODE_4_GOTTPOFF"),
        (R_X86_64_CODE_4_GOTPC32_TLSDESC, "R_X86_64_CODE_4_GOTPC32_TLSDESC"),
        (R_X86_64_CODE_5_GOTPCRELX, "R_X86_64_CODE_5_GOTPCRELX"),
        (R_X86_64_CODE_5_GOTTPOFF, "R_X86_64_CODE_5_GOTTPOFF"),
        (R_X86_64_CODE_5_GOTPC32_TLSDESC, "R_X86_64_CODE_5_GOTPC32_TLSDESC"),
        (R_X86_64_CODE_6_GOTPCRELX, "R_X86_64_CODE_6_GOTPCRELX"),
        (R_X86_64_CODE_6_GOTTPOFF, "R_X86_64_CODE_6_GOTTPOFF"),
        (R_X86_64_CODE_6_GOTPC32_TLSDESC, "R_X86_64_CODE_6_GOTPC32_TLSDESC"),
    ] {
        v.push(RelSpec {
            r_type: t,
            name: n,
            field: Field::Bytes(4),
            must: s32,
            may: s32,
            bits: 32,
            source: P,
        });
    }
    v
}

pub fn aarch64_specs() -> Vec<RelSpec> {
    const P: &str = "aaelf64 (ELF for the Arm 64-bit Architecture) 5.7: operation, field and overflow check columns";
    // psABI overflow checks that lld (AArch64.cpp) implements identically are must = may; checks
    // that only the psABI states (types lld does not implement) keep the outside zone free.
    const PF: &str = "aaelf64 5.7 (overflow zone left free: only the psABI states the check, lld does not implement the type)";
    let adr = &A64_ADR;
    let movw = &A64_MOVW;
    let lit = &A64_LDR_LIT;
    let add = &A64_ADD_IMM;
    let ldst = &A64_LDST_UIMM;
    let s = signed;
    let u = unsigned;
    vec![
        r!(R_AARCH64_NONE, Field::Nothing, ALL, ALL, 64, P),
        r!(R_AARCH64_ABS64, Field::Bytes(8), ALL, ALL, 64, P),
        r!(R_AARCH64_ABS32, Field::Bytes(4), either(32), either(32), 32, P),
        r!(R_AARCH64_ABS16, Field::Bytes(2), either(16), either(16), 16, P),
        r!(R_AARCH64_PREL64, Field::Bytes(8), ALL, ALL, 64, P),
        r!(R_AARCH64_PREL32, Field::Bytes(4), either(32), either(32), 32, P),
        r!(R_AARCH64_PREL16, Field::Bytes(2), either(16), either(16), 16, P),
        r!(R_AARCH64_PLT32, Field::Bytes(4), s(32), s(32), 32, P),
        r!(R_AARCH64_GOTPCREL32, Field::Bytes(4), s(32), either(32), 32, PF),
        r!(R_AARCH64_MOVW_UABS_G0, insn(movw, 0, 16), u(16), u(16), 16, P),
        r!(R_AARCH64_MOVW_UABS_G0_NC, insn(movw, 0, 16), ALL, ALL, 64, P),
        r!(R_AARCH64_MOVW_UABS_G1, insn(movw, 16, 32), u(32), u(32), 32, P),
        r!(R_AARCH64_MOVW_UABS_G1_NC, insn(movw, 16, 32), ALL, ALL, 64, P),
        r!(R_AARCH64_MOVW_UABS_G2, insn(movw, 32, 48), u(48), u(48), 48, P),
        r!(R_AARCH64_MOVW_UABS_G2_NC, insn(movw, 32, 48), ALL, ALL, 64, P),
        r!(R_AARCH64_MOVW_UABS_G3, insn(movw, 48, 64), ALL, ALL, 64, P),
        r!(R_AARCH64_MOVW_SABS_G0, Field::MovNZ { lo: 0 }, s(17), s(17), 17, P),
        r!(R_AARCH64_MOVW_SABS_G1, Field::MovNZ { lo: 16 }, s(33), s(33), 33, P),
        r!(R_AARCH64_MOVW_SABS_G2, Field::MovNZ { lo: 32 }, s(49), s(49), 49, P),
        r!(R_AARCH64_LD_PREL_LO19, insn(lit, 2, 21), s(21), s(21), 21, P),
        r!(R_AARCH64_ADR_PREL_LO21, insn(adr, 0, 21), s(21), s(21), 21, P),
        r!(R_AARCH64_ADR_PREL_PG_HI21, insn(adr, 12, 33), s(33), s(33), 33, P),
        r!(R_AARCH64_ADR_PREL_PG_HI21_NC, insn(adr, 12, 33), ALL, ALL, 64, P),
        r!(R_AARCH64_ADD_ABS_LO12_NC, insn(add, 0, 12), ALL, ALL, 64, P),
        r!(R_AARCH64_LDST8_ABS_LO12_NC, insn(ldst, 0, 12), ALL, ALL, 64, P),
        r!(R_AARCH64_LDST16_ABS_LO12_NC, insn(ldst, 1, 12), ALL, ALL, 64, P),
        r!(R_AARCH64_LDST32_ABS_LO12_NC, insn(ldst, 2, 12), ALL, ALL, 64, P),
        r!(R_AARCH64_LDST64_ABS_LO12_NC, insn(ldst, 3, 12), ALL, ALL, 64, P),
        r!(R_AARCH64_LDST128_ABS_LO12_NC, insn(ldst, 4, 12), ALL, ALL, 64, P),
        r!(R_AARCH64_TSTBR14, insn(&A64_TBZ, 2, 16), s(16), s(16), 16, P),
        r!(R_AARCH64_CONDBR19, insn(&A64_BCOND, 2, 21), s(21), s(21), 21, P),
        r!(R_AARCH64_JUMP26, insn(&A64_B, 2, 28), s(28), s(28), 28, P),
        r!(R_AARCH64_CALL26, insn(&A64_B, 2, 28), s(28), s(28), 28, P),
        r!(R_AARCH64_MOVW_PREL_G0, Field::MovNZ { lo: 0 }, s(17), s(17), 17, P),
        r!(R_AARCH64_MOVW_PREL_G0_NC, insn(movw, 0, 16), ALL, ALL, 64, P),
        r!(R_AARCH64_MOVW_PREL_G1, Field::MovNZ { lo: 16 }, s(33), s(33), 33, P),
        r!(R_AARCH64_MOVW_PREL_G1_NC, insn(movw, 16, 32), ALL, ALL, 64, P),
        r!(R_AARCH64_MOVW_PREL_G2, Field::MovNZ { lo: 32 }, s(49), s(49), 49, P),
        r!(R_AARCH64_MOVW_PREL_G2_NC, insn(movw, 32, 48), ALL, ALL, 64, P),
        r!(R_AARCH64_MOVW_PREL_G3, Field::MovNZ { lo: 48 }, ALL, ALL, 64, P),
        r!(R_AARCH64_MOVW_GOTOFF_G0, Field::MovNZ { lo: 0 }, s(17), ALL, 17, PF),
        r!(R_AARCH64_MOVW_GOTOFF_G0_NC, insn(movw, 0, 16), ALL, ALL, 64, P),
        r!(R_AARCH64_MOVW_GOTOFF_G1, Field::MovNZ { lo: 16 }, s(33), ALL, 33, PF),
        r!(R_AARCH64_MOVW_GOTOFF_G1_NC, insn(movw, 16, 32), ALL, ALL, 64, P),
        r!(R_AARCH64_MOVW_GOTOFF_G2, Field::MovNZ { lo: 32 }, s(49), ALL, 49, PF),
        r!(R_AARCH64_MOVW_GOTOFF_G2_NC, insn(movw, 32, 48), ALL, ALL, 64, P),
        r!(R_AARCH64_MOVW_GOTOFF_G3, Field::MovNZ { lo: 48 }, ALL, ALL, 64, P),
        r!(R_AARCH64_GOTREL64, Field::Bytes(8), ALL, ALL, 64, P),
        r!(R_AARCH64_GOTREL32, Field::Bytes(4), s(32), either(32), 32, PF),
        r!(R_AARCH64_GOT_LD_PREL19, insn(lit, 2, 21), s(21), s(21), 21, P),
        r!(R_AARCH64_LD64_GOTOFF_LO15, insn(ldst, 3, 15), u(15), u(15), 15, P),
        r!(R_AARCH64_ADR_GOT_PAGE, insn(adr, 12, 33), s(33), s(33), 33, P),
        r!(R_AARCH64_LD64_GOT_LO12_NC, insn(ldst, 3, 12), ALL, ALL, 64, P),
        r!(R_AARCH64_LD64_GOTPAGE_LO15, insn(ldst, 3, 15), u(15), u(15), 15, P),
        // General Dynamic
        r!(R_AARCH64_TLSGD_ADR_PREL21, insn(adr, 0, 21), s(21), s(21), 21, P),
        r!(R_AARCH64_TLSGD_ADR_PAGE21, insn(adr, 12, 33), s(33), s(33), 33, P),
        r!(R_AARCH64_TLSGD_ADD_LO12_NC, insn(add, 0, 12), ALL, ALL, 64, P),
        r!(R_AARCH64_TLSGD_MOVW_G1, Field::MovNZ { lo: 16 }, s(33), ALL, 33, PF),
        r!(R_AARCH64_TLSGD_MOVW_G0_NC, insn(movw, 0, 16), ALL, ALL, 64, P),
        // Local Dynamic
        r!(R_AARCH64_TLSLD_ADR_PREL21, insn(adr, 0, 21), s(21), s(21), 21, P),
        r!(R_AARCH64_TLSLD_ADR_PAGE21, insn(adr, 12, 33), s(33), s(33), 33, P),
        r!(R_AARCH64_TLSLD_ADD_LO12_NC, insn(add, 0, 12), ALL, ALL, 64, P),
        r!(R_AARCH64_TLSLD_MOVW_G1, Field::MovNZ { lo: 16 }, s(33), ALL, 33, PF),
        r!(R_AARCH64_TLSLD_MOVW_G0_NC, insn(movw, 0, 16), ALL, ALL, 64, P),
        r!(R_AARCH64_TLSLD_LD_PREL19, insn(lit, 2, 21), s(21), s(21), 21, P),
        r!(R_AARCH64_TLSLD_MOVW_DTPREL_G2, Field::MovNZ { lo: 32 }, s(49), ALL, 49, PF),
        r!(R_AARCH64_TLSLD_MOVW_DTPREL_G1, Field::MovNZ { lo: 16 }, s(33), ALL, 33, PF),
        r!(R_AARCH64_TLSLD_MOVW_DTPREL_G1_NC, insn(movw, 16, 32), ALL, ALL, 64, P),
        r!(R_AARCH64_TLSLD_MOVW_DTPREL_G0, Field::MovNZ { lo: 0 }, s(17), ALL, 17, PF),
        r!(R_AARCH64_TLSLD_MOVW_DTPREL_G0_NC, insn(movw, 0, 16), ALL, ALL, 64, P),
        r!(R_AARCH64_TLSLD_ADD_DTPREL_HI12, insn(add, 12, 24), u(24), u(24), 24, P),
        r!(R_AARCH64_TLSLD_ADD_DTPREL_LO12, insn(add, 0, 12), u(12), u(12), 12, P),
        r!(R_AARCH64_TLSLD_ADD_DTPREL_LO12_NC, insn(add, 0, 12), ALL, ALL, 64, P),
        r!(R_AARCH64_TLSLD_LDST8_DTPREL_LO12, insn(ldst, 0, 12), u(12), u(12), 12, P),
        r!(R_AARCH64_TLSLD_LDST8_DTPREL_LO12_NC, insn(ldst, 0, 12), ALL, ALL, 64, P),
        r!(R_AARCH64_TLSLD_LDST16_DTPREL_LO12, insn(ldst, 1, 12), u(12), u(12), 12, P),
        r!(R_AARCH64_TLSLD_LDST16_DTPREL_LO12_NC, insn(ldst, 1, 12), ALL, ALL, 64, P),
        r!(R_AARCH64_TLSLD_LDST32_DTPREL_LO12, insn(ldst, 2, 12), u(12), u(12), 12, P),
        r!(R_AARCH64_TLSLD_LDST32_DTPREL_LO12_NC, insn(ldst, 2, 12), ALL, ALL, 64, P),
        r!(R_AARCH64_TLSLD_LDST64_DTPREL_LO12, insn(ldst, 3, 12), u(12), u(12), 12, P),
        r!(R_AARCH64_TLSLD_LDST64_DTPREL_LO12_NC, insn(ldst, 3, 12), ALL, ALL, 64, P),
        r!(R_AARCH64_TLSLD_LDST128_DTPREL_LO12, insn(ldst, 4, 12), u(12), u(12), 12, P),
        r!(R_AARCH64_TLSLD_LDST128_DTPREL_LO12_NC, insn(ldst, 4, 12), ALL, ALL, 64, P),
        // Initial Exec
        r!(R_AARCH64_TLSIE_MOVW_GOTTPREL_G1, Field::MovNZ { lo: 16 }, s(33), ALL, 33, PF),
        r!(R_AARCH64_TLSIE_MOVW_GOTTPREL_G0_NC, insn(movw, 0, 16), ALL, ALL, 64, P),
        r!(R_AARCH64_TLSIE_ADR_GOTTPREL_PAGE21, insn(adr, 12, 33), s(33), s(33), 33, P),
        r!(R_AARCH64_TLSIE_LD64_GOTTPREL_LO12_NC, insn(ldst, 3, 12), ALL, ALL, 64, P),
        r!(R_AARCH64_TLSIE_LD_GOTTPREL_PREL19, insn(lit, 2, 21), s(21), s(21), 21, P),
        // Local Exec
        r!(R_AARCH64_TLSLE_MOVW_TPREL_G2, Field::MovNZ { lo: 32 }, s(49), s(49), 49, P),
        r!(R_AARCH64_TLSLE_MOVW_TPREL_G1, Field::MovNZ { lo: 16 }, s(33), s(33), 33, P),
        r!(R_AARCH64_TLSLE_MOVW_TPREL_G1_NC, insn(movw, 16, 32), ALL, ALL, 64, P),
        r!(R_AARCH64_TLSLE_MOVW_TPREL_G0, Field::MovNZ { lo: 0 }, s(17), s(17), 17, P),
        r!(R_AARCH64_TLSLE_MOVW_TPREL_G0_NC, insn(movw, 0, 16), ALL, ALL, 64, P),
        r!(R_AARCH64_TLSLE_ADD_TPREL_HI12, insn(add, 12, 24), u(24), u(24), 24, P),
        r!(R_AARCH64_TLSLE_ADD_TPREL_LO12, insn(add, 0, 12), u(12), u(12), 12, P),
        r!(R_AARCH64_TLSLE_ADD_TPREL_LO12_NC, insn(add, 0, 12), ALL, ALL, 64, P),
        r!(R_AARCH64_TLSLE_LDST8_TPREL_LO12, insn(ldst, 0, 12), u(12), u(12), 12, P),
        r!(R_AARCH64_TLSLE_LDST8_TPREL_LO12_NC, insn(ldst, 0, 12), ALL, ALL, 64, P),
        r!(R_AARCH64_TLSLE_LDST16_TPREL_LO12, insn(ldst, 1, 12), u(12), u(12), 12, P),
        r!(R_AARCH64_TLSLE_LDST16_TPREL_LO12_NC, insn(ldst, 1, 12), ALL, ALL, 64, P),
        r!(R_AARCH64_TLSLE_LDST32_TPREL_LO12, insn(ldst, 2, 12), u(12), u(12), 12, P),
        r!(R_AARCH64_TLSLE_LDST32_TPREL_LO12_NC, insn(ldst, 2, 12), ALL, ALL, 64, P),
        r!(R_AARCH64_TLSLE_LDST64_TPREL_LO12, insn(ldst, 3, 12), u(12), u(12), 12, P),
        r!(R_AARCH64_TLSLE_LDST64_TPREL_LO12_NC, insn(ldst, 3, 12), ALL, ALL, 64, P),
        r!(R_AARCH64_TLSLE_LDST128_TPREL_LO12, insn(ldst, 4, 12), u(12), u(12), 12, P),
        r!(R_AARCH64_TLSLE_LDST128_TPREL_LO12_NC, insn(ldst, 4, 12), ALL, ALL, 64, P),
        // TLS descriptors
        r!(R_AARCH64_TLSDESC_LD_PREL19, insn(lit, 2, 21), s(21), s(21), 21, P),
        r!(R_AARCH64_TLSDESC_ADR_PREL21, insn(adr, 0, 21), s(21), s(21), 21, P),
        r!(R_AARCH64_TLSDESC_ADR_PAGE21, insn(adr, 12, 33), s(33), s(33), 33, P),
        r!(R_AARCH64_TLSDESC_LD64_LO12, insn(ldst, 3, 12), ALL, ALL, 64, P),
        r!(R_AARCH64_TLSDESC_ADD_LO12, insn(add, 0, 12), ALL, ALL, 64, P),
        r!(R_AARCH64_TLSDESC_OFF_G1, Field::MovNZ { lo: 16 }, s(33), ALL, 33, PF),
        r!(R_AARCH64_TLSDESC_OFF_G0_NC, insn(movw, 0, 16), ALL, ALL, 64, P),
        r!(R_AARCH64_TLSDESC_LDR, Field::Nothing, ALL, ALL, 64, P),
        r!(R_AARCH64_TLSDESC_ADD, Field::Nothing, ALL, ALL, 64, P),
        r!(R_AARCH64_TLSDESC_CALL, Field::Nothing, ALL, ALL, 64, P),
    ]
}

pub fn riscv64_specs() -> Vec<RelSpec> {
    const P: &str = "RISC-V ELF psABI relocation table; checks = what GNU ld (elfnn-riscv.c) and lld (RISCV.cpp) both do";
    const PF: &str = "RISC-V ELF psABI (psABI states no check, GNU ld and lld do not check: zone outside the field's range left free)";
    // %hi(x) must fit a signed 20-bit U-immediate: x + 0x800 in [-2^31, 2^31).
    let hi = (-(1i128 << 31) - 0x800, (1i128 << 31) - 0x800);
    let u = insn(&RV_U, 0, 32);
    let i = insn(&RV_I, 0, 32);
    let s = insn(&RV_S, 0, 32);
    let e32 = either(32);
    vec![
        r!(R_RISCV_NONE, Field::Nothing, ALL, ALL, 64, P),
        r!(R_RISCV_32, Field::Bytes(4), e32, ALL, 32, PF),
        r!(R_RISCV_64, Field::Bytes(8), ALL, ALL, 64, P),
        r!(R_RISCV_BRANCH, insn(&RV_B, 0, 32), signed(13), signed(13), 13, P),
        r!(R_RISCV_JAL, insn(&RV_J, 0, 32), signed(21), signed(21), 21, P),
        r!(R_RISCV_CALL, insn(&RV_UI, 0, 64), hi, hi, 32, P),
        r!(R_RISCV_CALL_PLT, insn(&RV_UI, 0, 64), hi, hi, 32, P),
        r!(R_RISCV_GOT_HI20, u, hi, hi, 32, P),
        r!(R_RISCV_TLS_GOT_HI20, u, hi, hi, 32, P),
        r!(R_RISCV_TLS_GD_HI20, u, hi, hi, 32, P),
        r!(R_RISCV_PCREL_HI20, u, hi, hi, 32, P),
        r!(R_RISCV_PCREL_LO12_I, i, e32, ALL, 32, PF),
        r!(R_RISCV_PCREL_LO12_S, s, e32, ALL, 32, PF),
        r!(R_RISCV_HI20, u, hi, hi, 32, P),
        r!(R_RISCV_LO12_I, i, e32, ALL, 32, PF),
        r!(R_RISCV_LO12_S, s, e32, ALL, 32, PF),
        r!(R_RISCV_TPREL_HI20, u, hi, hi, 32, P),
        r!(R_RISCV_TPREL_LO12_I, i, e32, ALL, 32, PF),
        r!(R_RISCV_TPREL_LO12_S, s, e32, ALL, 32, PF),
        r!(R_RISCV_TPREL_ADD, Field::Nothing, ALL, ALL, 64, P),
        r!(R_RISCV_ADD8, Field::Bytes(1), ALL, ALL, 64, P),
        r!(R_RISCV_ADD16, Field::Bytes(2), ALL, ALL, 64, P),
        r!(R_RISCV_ADD32, Field::Bytes(4), ALL, ALL, 64, P),
        r!(R_RISCV_ADD64, Field::Bytes(8), ALL, ALL, 64, P),
        r!(R_RISCV_SUB8, Field::Bytes(1), ALL, ALL, 64, P),
        r!(R_RISCV_SUB16, Field::Bytes(2), ALL, ALL, 64, P),
        r!(R_RISCV_SUB32, Field::Bytes(4), ALL, ALL, 64, P),
        r!(R_RISCV_SUB64, Field::Bytes(8), ALL, ALL, 64, P),
        r!(R_RISCV_GOT32_PCREL, Field::Bytes(4), signed(32), ALL, 32, PF),
        r!(R_RISCV_ALIGN, Field::Nothing, ALL, ALL, 64, P),
        r!(R_RISCV_RVC_BRANCH, insn(&RV_CB, 0, 16), signed(9), signed(9), 9, P),
        r!(R_RISCV_RVC_JUMP, insn(&RV_CJ, 0, 16), signed(12), signed(12), 12, P),
        r!(R_RISCV_RELAX, Field::Nothing, ALL, ALL, 64, P),
        // The caller merges the 6 bits with the two preserved bits; at this level: one byte.
        r!(R_RISCV_SUB6, Field::Bytes(1), ALL, ALL, 64, P),
        r!(R_RISCV_SET6, Field::Bytes(1), ALL, ALL, 64, P),
        r!(R_RISCV_SET8, Field::Bytes(1), ALL, ALL, 64, P),
        r!(R_RISCV_SET16, Field::Bytes(2), ALL, ALL, 64, P),
        r!(R_RISCV_SET32, Field::Bytes(4), ALL, ALL, 64, P),
        r!(R_RISCV_32_PCREL, Field::Bytes(4), signed(32), ALL, 32, PF),
        r!(R_RISCV_PLT32, Field::Bytes(4), signed(32), ALL, 32, PF),
        r!(R_RISCV_SET_ULEB128, Field::Nothing, ALL, ALL, 64, P),
        r!(R_RISCV_SUB_ULEB128, Field::Unmodelled, ALL, ALL, 64, P),
    ]
}

pub fn loongarch64_specs() -> Vec<RelSpec> {
    const P: &str = "LoongArch ELF psABI (laelf) relocation table v2.x; 'with check N-bit signed overflow' where stated";
    const PF: &str = "laelf (no check stated: zone outside the field left free)";
    let hi20 = |lo| insn(&LA_1RI20, lo, lo + 20);
    let lo12 = insn(&LA_2RI12, 0, 12);
    let hi12_64 = insn(&LA_2RI12, 52, 64);
    let call36 = (-(1i128 << 37) - 0x20000, (1i128 << 37) - 0x20000);
    let mut v = vec![
        r!(R_LARCH_NONE, Field::Nothing, ALL, ALL, 64, P),
        r!(R_LARCH_32, Field::Bytes(4), either(32), ALL, 32, PF),
        r!(R_LARCH_64, Field::Bytes(8), ALL, ALL, 64, P),
        r!(R_LARCH_ADD6, Field::Bytes(1), ALL, ALL, 64, P),
        r!(R_LARCH_ADD8, Field::Bytes(1), ALL, ALL, 64, P),
        r!(R_LARCH_ADD16, Field::Bytes(2), ALL, ALL, 64, P),
        r!(R_LARCH_ADD24, Field::Bytes(3), ALL, ALL, 64, P),
        r!(R_LARCH_ADD32, Field::Bytes(4), ALL, ALL, 64, P),
        r!(R_LARCH_ADD64, Field::Bytes(8), ALL, ALL, 64, P),
        r!(R_LARCH_SUB6, Field::Bytes(1), ALL, ALL, 64, P),
        r!(R_LARCH_SUB8, Field::Bytes(1), ALL, ALL, 64, P),
        r!(R_LARCH_SUB16, Field::Bytes(2), ALL, ALL, 64, P),
        r!(R_LARCH_SUB24, Field::Bytes(3), ALL, ALL, 64, P),
        r!(R_LARCH_SUB32, Field::Bytes(4), ALL, ALL, 64, P),
        r!(R_LARCH_SUB64, Field::Bytes(8), ALL, ALL, 64, P),
        r!(R_LARCH_ADD_ULEB128, Field::Nothing, ALL, ALL, 64, P),
        r!(R_LARCH_SUB_ULEB128, Field::Unmodelled, ALL, ALL, 64, P),
        r!(R_LARCH_B16, insn(&LA_2RI16, 2, 18), signed(18), signed(18), 18, P),
        r!(R_LARCH_B21, insn(&LA_1RI21, 2, 23), signed(23), signed(23), 23, P),
        r!(R_LARCH_B26, insn(&LA_I26, 2, 28), signed(28), signed(28), 28, P),
        r!(R_LARCH_CALL36, insn(&LA_CALL36, 2, 38), call36, call36, 38, P),
        r!(R_LARCH_CALL30, Field::Unmodelled, ALL, ALL, 64, PF),
        r!(R_LARCH_32_PCREL, Field::Bytes(4), signed(32), signed(32), 32, P),
        r!(R_LARCH_64_PCREL, Field::Bytes(8), ALL, ALL, 64, P),
        r!(R_LARCH_PCREL20_S2, insn(&LA_1RI20, 2, 22), signed(22), signed(22), 22, P),
        r!(R_LARCH_RELAX, Field::Nothing, ALL, ALL, 64, P),
        r!(R_LARCH_ALIGN, Field::Nothing, ALL, ALL, 64, P),
        r!(R_LARCH_TLS_LE_ADD_R, Field::Nothing, ALL, ALL, 64, P),
        r!(R_LARCH_TLS_DESC_LD, Field::Nothing, ALL, ALL, 64, P),
        r!(R_LARCH_TLS_DESC_CALL, Field::Nothing, ALL, ALL, 64, P),
        r!(R_LARCH_TLS_DTPREL32, Field::Bytes(4), either(32), ALL, 32, PF),
        r!(R_LARCH_TLS_DTPREL64, Field::Bytes(8), ALL, ALL, 64, P),
    ];
    // 20-bit high parts in si20[24:5] holding X[31:12]; no check stated.
    for (t, n) in [
        (R_LARCH_ABS_HI20, "R_LARCH_ABS_HI20"),
        (R_LARCH_PCALA_HI20, "R_LARCH_PCALA_HI20"),
        (R_LARCH_GOT_PC_HI20, "R_LARCH_GOT_PC_HI20"),
        (R_LARCH_GOT_HI20, "R_LARCH_GOT_HI20"),
        (R_LARCH_TLS_LE_HI20, "R_LARCH_TLS_LE_HI20"),
        (R_LARCH_TLS_IE_PC_HI20, "R_LARCH_TLS_IE_PC_HI20"),
        (R_LARCH_TLS_IE_HI20, "R_LARCH_TLS_IE_HI20"),
        (R_LARCH_TLS_LD_PC_HI20, "R_LARCH_TLS_LD_PC_HI20"),
        (R_LARCH_TLS_LD_HI20, "R_LARCH_TLS_LD_HI20"),
        (R_LARCH_TLS_GD_PC_HI20, "R_LARCH_TLS_GD_PC_HI20"),
        (R_LARCH_TLS_GD_HI20, "R_LARCH_TLS_GD_HI20"),
        (R_LARCH_TLS_DESC_PC_HI20, "R_LARCH_TLS_DESC_PC_HI20"),
        (R_LARCH_TLS_DESC_HI20, "R_LARCH_TLS_DESC_HI20"),
        (R_LARCH_TLS_LE_HI20_R, "R_LARCH_TLS_LE_HI20_R"),
        (R_LARCH_PCADD_HI20, "R_LARCH_PCADD_HI20"),
    ] {
        v.push(RelSpec { r_type: t, name: n, field: hi20(12), must: ALL, may: ALL, bits: 64, source: PF });
    }
    // 12-bit low parts in si12[21:10] holding X[11:0].
    for (t, n) in [
        (R_LARCH_ABS_LO12, "R_LARCH_ABS_LO12"),
        (R_LARCH_PCALA_LO12, "R_LARCH_PCALA_LO12"),
        (R_LARCH_GOT_PC_LO12, "R_LARCH_GOT_PC_LO12"),
        (R_LARCH_GOT_LO12, "R_LARCH_GOT_LO12"),
        (R_LARCH_TLS_LE_LO12, "R_LARCH_TLS_LE_LO12"),
        (R_LARCH_TLS_IE_PC_LO12, "R_LARCH_TLS_IE_PC_LO12"),
        (R_LARCH_TLS_IE_LO12, "R_LARCH_TLS_IE_LO12"),
        (R_LARCH_TLS_DESC_PC_LO12, "R_LARCH_TLS_DESC_PC_LO12"),
        (R_LARCH_TLS_DESC_LO12, "R_LARCH_TLS_DESC_LO12"),
        (R_LARCH_TLS_LE_LO12_R, "R_LARCH_TLS_LE_LO12_R"),
        (R_LARCH_PCADD_LO12, "R_LARCH_PCADD_LO12"),
    ] {
        v.push(RelSpec { r_type: t, name: n, field: lo12, must: ALL, may: ALL, bits: 64, source: PF });
    }
    // 64-bit parts: si20[24:5] = X[51:32], si12[21:10] = X[63:52].
    for (t, n) in [
        (R_LARCH_ABS64_LO20, "R_LARCH_ABS64_LO20"),
        (R_LARCH_PCALA64_LO20, "R_LARCH_PCALA64_LO20"),
        (R_LARCH_GOT64_PC_LO20, "R_LARCH_GOT64_PC_LO20"),
        (R_LARCH_GOT64_LO20, "R_LARCH_GOT64_LO20"),
        (R_LARCH_TLS_LE64_LO20, "R_LARCH_TLS_LE64_LO20"),
        (R_LARCH_TLS_IE64_PC_LO20, "R_LARCH_TLS_IE64_PC_LO20"),
        (R_LARCH_TLS_IE64_LO20, "R_LARCH_TLS_IE64_LO20"),
        (R_LARCH_TLS_DESC64_PC_LO20, "R_LARCH_TLS_DESC64_PC_LO20"),
        (R_LARCH_TLS_DESC64_LO20, "R_LARCH_TLS_DESC64_LO20"),
    ] {
        v.push(RelSpec { r_type: t, name: n, field: hi20(32), must: ALL, may: ALL, bits: 64, source: PF });
    }
    for (t, n) in [
        (R_LARCH_ABS64_HI12, "R_LARCH_ABS64_HI12"),
        (R_LARCH_PCALA64_HI12, "R_LARCH_PCALA64_HI12"),
        (R_LARCH_GOT64_PC_HI12, "R_LARCH_GOT64_PC_HI12"),
        (R_LARCH_GOT64_HI12, "R_LARCH_GOT64_HI12"),
        (R_LARCH_TLS_LE64_HI12, "R_LARCH_TLS_LE64_HI12"),
        (R_LARCH_TLS_IE64_PC_HI12, "R_LARCH_TLS_IE64_PC_HI12"),
        (R_LARCH_TLS_IE64_HI12, "R_LARCH_TLS_IE64_HI12"),
        (R_LARCH_TLS_DESC64_PC_HI12, "R_LARCH_TLS_DESC64_PC_HI12"),
        (R_LARCH_TLS_DESC64_HI12, "R_LARCH_TLS_DESC64_HI12"),
    ] {
        v.push(RelSpec { r_type: t, name: n, field: hi12_64, must: ALL, may: ALL, bits: 64, source: PF });
    }
    v
}

pub fn specs_for(arch: &str) -> Vec<RelSpec> {
    match arch {
        "x86_64" => x86_64_specs(),
        "aarch64" => aarch64_specs(),
        "riscv64" => riscv64_specs(),
        "loongarch64" => loongarch64_specs(),
        _ => Vec::new(),
    }
}

pub const ARCHS: [&str; 4] = ["x86_64", "aarch64", "riscv64", "loongarch64"];
