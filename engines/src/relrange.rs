//! C12 (unit part) - for every relocation type wild's tables know, and every value of a boundary
//! set, call the real `RelocationKindInfo::write_to_buffer` (range check + write, exactly what
//! `elf_writer::apply_relocation` calls) and compare accept/reject and the written bytes with the
//! psABI model in `manual.rs`.

use crate::manual;
use crate::manual::Field;
use crate::manual::RelSpec;
use crate::report::Report;
use crate::report::parse_u64;
use linker_utils::elf::RelocationKindInfo;
use rayon::prelude::*;
use serde_json::Value;
use serde_json::json;
use std::collections::BTreeMap;
use std::panic::AssertUnwindSafe;
use std::panic::catch_unwind;

const BUF: usize = 16;
const FILL: u8 = 0xA5;

pub fn info_for(arch: &str, r_type: u32) -> Option<RelocationKindInfo> {
    match arch {
        "x86_64" => linker_utils::x86_64::relocation_from_raw(r_type),
        "aarch64" => linker_utils::aarch64::relocation_type_from_raw(r_type),
        "riscv64" => linker_utils::riscv64::relocation_type_from_raw(r_type),
        "loongarch64" => linker_utils::loongarch64::relocation_type_from_raw(r_type),
        _ => None,
    }
}

pub fn type_name(arch: &str, r_type: u32) -> String {
    match arch {
        "x86_64" => linker_utils::elf::x86_64_rel_type_to_string(r_type).into_owned(),
        "aarch64" => linker_utils::elf::aarch64_rel_type_to_string(r_type).into_owned(),
        "riscv64" => linker_utils::elf::riscv64_rel_type_to_string(r_type).into_owned(),
        "loongarch64" => linker_utils::elf::loongarch64_rel_type_to_string(r_type).into_owned(),
        _ => format!("{r_type}"),
    }
}

/// B = {±2^k + d : k in 0..=63, d in -2..=2} ∪ {0, ±1, MIN, MAX}, plus, around each member, the
/// neighbouring multiples of 2, 4, 8, 16 and 4096 and their successors (aligned / misaligned).
pub fn boundary_values() -> Vec<i64> {
    let mut b: Vec<i64> = vec![0, 1, -1, i64::MIN, i64::MAX];
    for k in 0..=63u32 {
        let p = 1u64 << k;
        for d in -2i64..=2 {
            b.push((p as i64).wrapping_add(d));
            b.push((p as i64).wrapping_neg().wrapping_add(d));
        }
    }
    // %hi rounding boundaries (RISC-V, LoongArch CALL36).
    for base in [1i64 << 31, -(1i64 << 31), 1i64 << 37, -(1i64 << 37), 1i64 << 32] {
        for off in [0x800i64, 0x20000] {
            for d in -4i64..=4 {
                b.push(base - off + d);
                b.push(base + off + d);
            }
        }
    }
    let mut all = b.clone();
    for &v in &b {
        for a in [2i64, 4, 8, 16, 4096] {
            let down = v & !(a - 1);
            all.push(down);
            all.push(down.wrapping_add(a));
            all.push(down.wrapping_sub(a));
            all.push(down.wrapping_add(1));
            all.push(down.wrapping_add(a / 2));
        }
    }
    all.sort_unstable();
    all.dedup();
    all
}

fn initial_buffer(spec: Option<&RelSpec>) -> [u8; BUF] {
    let mut buf = [FILL; BUF];
    // The immediate field starts out as zeros (what assemblers emit for RELA targets); everything
    // around it is 0xA5. Dependence on previous field content is C13's subject.
    if let Some(spec) = spec {
        let mask = field_mask(spec);
        let lo = u64::from_le_bytes(buf[..8].try_into().unwrap()) & !mask;
        buf[..8].copy_from_slice(&lo.to_le_bytes());
    }
    buf
}

/// Mask (over the first 8 bytes) of the bits the model compares as "the field".
fn field_mask(spec: &RelSpec) -> u64 {
    match spec.field {
        Field::Insn { fmt, .. } => fmt.mask(),
        // imm16 and bit 30 (MOVN/MOVZ selection, aaelf64 5.7.6 note).
        Field::MovNZ { .. } => manual::A64_MOVW.mask() | (1 << 30),
        _ => 0,
    }
}

/// Bits of the first 8 bytes the type is allowed to change beyond the field proper. For MOV[NZ]
/// wild's code documents that it rewrites the whole opcode (everything except rd[4:0] and
/// hw[22:21]); those bits are not compared.
fn dont_care_mask(spec: &RelSpec) -> u64 {
    match spec.field {
        Field::MovNZ { .. } => 0xFFFF_FFFFu64 & !0x0060_001F,
        _ => 0,
    }
}

/// Expected buffer after an accepted write.
fn expected_buffer(spec: &RelSpec, value: i64, init: &[u8; BUF]) -> Option<[u8; BUF]> {
    let mut out = *init;
    match spec.field {
        Field::Nothing => {}
        Field::Unmodelled => return None,
        Field::Bytes(n) => out[..n].copy_from_slice(&(value as u64).to_le_bytes()[..n]),
        Field::Insn { fmt, lo, hi } => {
            let x = value as u64;
            let width = hi - lo;
            let imm = if width >= 64 { x >> lo } else { (x >> lo) & ((1u64 << width) - 1) };
            let word = u64::from_le_bytes(init[..8].try_into().unwrap());
            let new = (word & !fmt.mask()) | fmt.scatter(imm);
            out[..8].copy_from_slice(&new.to_le_bytes());
        }
        Field::MovNZ { lo } => {
            let word = u64::from_le_bytes(init[..8].try_into().unwrap());
            let (bits, movz) = if value >= 0 { (value as u64, 1u64) } else { (!(value as u64), 0u64) };
            let imm = (bits >> lo) & 0xffff;
            let mask = field_mask(spec);
            let new = (word & !mask) | manual::A64_MOVW.scatter(imm) | (movz << 30);
            out[..8].copy_from_slice(&new.to_le_bytes());
        }
    }
    Some(out)
}

fn hexbuf(b: &[u8]) -> String {
    b.iter().map(|x| format!("{x:02x}")).collect::<Vec<_>>().join(" ")
}

pub struct CaseResult {
    pub cell: &'static str,
    pub violations: Vec<(String, String)>,
    pub detail: Value,
}

pub fn eval_case(arch: &str, r_type: u32, info: RelocationKindInfo, spec: Option<&RelSpec>, value: i64) -> CaseResult {
    let init = initial_buffer(spec);
    let mut buf = init;
    let res = catch_unwind(AssertUnwindSafe(|| info.write_to_buffer(value as u64, &mut buf).map_err(|e| e.to_string())));
    let name = spec.map_or_else(|| type_name(arch, r_type), |s| s.name.to_owned());
    let x = i128::from(value);
    let misaligned = info.alignment > 1 && !(value as u64).is_multiple_of(info.alignment as u64);
    let (in_must, in_may) = match spec {
        Some(s) => (s.must.0 <= x && x < s.must.1, s.may.0 <= x && x < s.may.1),
        None => (false, true),
    };
    let mut violations = Vec::new();
    let mut detail = json!({
        "arch": arch, "type": name, "r_type": r_type, "value": value.to_string(), "value_hex": format!("0x{:x}", value as u64),
        "buffer_before": hexbuf(&init), "buffer_after": hexbuf(&buf),
        "wild_table": format!("size={} range=[{}, {}) alignment={}", info.size, info.range.min, info.range.max, info.alignment),
    });
    if let Some(s) = spec {
        detail["model"] = json!({"field": format!("{:?}", s.field).chars().take(160).collect::<String>(),
            "must_accept": format!("[{}, {})", s.must.0, s.must.1), "may_accept": format!("[{}, {})", s.may.0, s.may.1),
            "source": s.source});
    }
    let key = |class: &str| format!("{arch}:{name}:{class}");
    let cell;
    match res {
        Err(_) => {
            cell = "panic";
            detail["outcome"] = json!("panic");
            violations.push((key("panic"), format!("write_to_buffer({name}, {value}) panicked")));
        }
        Ok(Ok(())) => {
            detail["outcome"] = json!("accepted");
            cell = if spec.is_none() {
                "accepted-unmodelled"
            } else if !in_may {
                "accepted-outside-range"
            } else if in_must {
                "accepted-in-range"
            } else {
                "accepted-free-zone"
            };
            if let Some(s) = spec {
                if !in_may {
                    // Same class names as the end-to-end part of checks/c12.py.
                    let zone = if x >= s.may.1 { "above-range-accepted" } else { "below-range-accepted" };
                    violations.push((
                        key(zone),
                        format!("{name}: value {value} (0x{:x}) is outside [{}, {}) which the psABI / GNU ld / lld allow, but wild accepts it (its table: [{}, {})) and writes a truncated field: {}",
                            value as u64, s.may.0, s.may.1, info.range.min, info.range.max, hexbuf(&buf[..8])),
                    ));
                }
                if let Some(exp) = expected_buffer(s, value, &init) {
                    detail["buffer_expected"] = json!(hexbuf(&exp));
                    let fm = field_mask(s);
                    let dc = dont_care_mask(s);
                    let got8 = u64::from_le_bytes(buf[..8].try_into().unwrap());
                    let exp8 = u64::from_le_bytes(exp[..8].try_into().unwrap());
                    let (field_bad, outside_bad) = match s.field {
                        Field::Bytes(n) => (buf[..n] != exp[..n], buf[n..] != exp[n..]),
                        Field::Nothing => (false, buf != exp),
                        _ => (
                            (got8 ^ exp8) & fm != 0,
                            (got8 ^ exp8) & !fm & !dc != 0 || buf[8..] != exp[8..],
                        ),
                    };
                    if field_bad {
                        violations.push((
                            key("field-content"),
                            format!("{name}: value {value} (0x{:x}) accepted but the field does not hold it: got {} expected {} (model: {:?})",
                                value as u64, hexbuf(&buf[..8]), hexbuf(&exp[..8]), s.field).chars().take(400).collect(),
                        ));
                    }
                    if outside_bad {
                        violations.push((
                            key("writes-outside-field"),
                            format!("{name}: value {value} (0x{:x}): bytes/bits outside the relocation's field changed: got {} expected {}",
                                value as u64, hexbuf(&buf), hexbuf(&exp)),
                        ));
                    }
                }
            }
        }
        Ok(Err(msg)) => {
            detail["outcome"] = json!(format!("rejected: {msg}"));
            let by_alignment = msg.contains("not aligned");
            cell = if by_alignment {
                "rejected-misaligned"
            } else if spec.is_none() {
                "rejected-unmodelled"
            } else if !in_may {
                "rejected-outside-range"
            } else if in_must {
                "rejected-in-range"
            } else {
                "rejected-free-zone"
            };
            if buf != init {
                violations.push((key("rejected-but-modified"), format!("{name}: value {value} rejected ({msg}) but the buffer changed: {}", hexbuf(&buf))));
            }
            if let Some(s) = spec
                && in_must
                && !misaligned
            {
                let half = 1i128 << (s.bits.min(64) - 1);
                if value == i64::MAX && info.range.min == i64::MIN && info.range.max == i64::MAX {
                    // One defect, many types: AllowedRange::no_check() is the half-open range
                    // [i64::MIN, i64::MAX), so the single value i64::MAX is "out of range".
                    violations.push((
                        "all:no-check-range:i64-max-rejected".to_owned(),
                        format!("{name} (and every other type whose table range is AllowedRange::no_check()): value i64::MAX = 0x7fffffffffffffff fits the 64-bit/unchecked field but wild rejects it: {msg}"),
                    ));
                    return CaseResult { cell, violations, detail };
                }
                let zone = if x < 0 {
                    "negative-rejected"
                } else if s.bits < 64 && x >= half {
                    "unsigned-upper-half-rejected"
                } else {
                    "positive-rejected"
                };
                violations.push((
                    key(zone),
                    format!("{name}: value {value} (0x{:x}) fits the field ([{}, {}) per psABI / GNU ld / lld) but wild rejects it: {msg}",
                        value as u64, s.must.0, s.must.1),
                ));
            }
        }
    }
    CaseResult {
        cell,
        violations,
        detail,
    }
}

pub fn run(_thorough: bool) -> Report {
    let values = boundary_values();
    let mut jobs = Vec::new();
    let mut rep = Report::new();
    let mut unmodelled = Vec::new();
    let mut not_in_wild = Vec::new();
    let mut types = 0u64;
    for arch in manual::ARCHS {
        let specs: BTreeMap<u32, RelSpec> = manual::specs_for(arch).into_iter().map(|s| (s.r_type, s)).collect();
        for r_type in 0..=1023u32 {
            let info = info_for(arch, r_type);
            match (info, specs.get(&r_type)) {
                (Some(info), spec) => {
                    types += 1;
                    if spec.is_none() {
                        unmodelled.push(format!("{arch}:{}", type_name(arch, r_type)));
                    }
                    jobs.push((arch, r_type, info, spec.copied()));
                }
                (None, Some(s)) => not_in_wild.push(format!("{arch}:{}", s.name)),
                (None, None) => {}
            }
        }
    }
    let part = jobs
        .par_iter()
        .map(|(arch, r_type, info, spec)| {
            let mut r = Report::new();
            let name = spec.map_or_else(|| type_name(arch, *r_type), |s| s.name.to_owned());
            for (i, &value) in values.iter().enumerate() {
                let c = eval_case(arch, *r_type, *info, spec.as_ref(), value);
                r.evaluations += 1;
                r.cell(&format!("{arch}:{name}:{}", c.cell), 1);
                for (key, what) in c.violations {
                    r.violation(&key, || (what, json!({"arch": arch, "r_type": r_type, "name": name, "value": value.to_string()})));
                }
                if *r_type == 14 && *arch == "x86_64" && (i % 997 == 0 || value == 128 || value == -129) {
                    r.sample(c.detail);
                }
            }
            r
        })
        .reduce(Report::new, |mut a, b| {
            a.merge(b);
            a
        });
    rep.merge(part);
    rep.extra.insert("types".into(), json!(types));
    rep.extra.insert("values_per_type".into(), json!(values.len()));
    rep.extra.insert("unmodelled_types".into(), json!(unmodelled));
    rep.extra.insert("modelled_but_absent_in_wild".into(), json!(not_in_wild));
    rep
}

pub fn replay(case: &Value) -> Report {
    let mut rep = Report::new();
    let arch = case["arch"].as_str().unwrap_or("").to_owned();
    let r_type = case["r_type"].as_u64().unwrap_or(0) as u32;
    let value = parse_u64(&case["value"]).unwrap_or(0) as i64;
    let arch_static = manual::ARCHS.iter().find(|a| **a == arch).copied().unwrap_or("x86_64");
    let Some(info) = info_for(arch_static, r_type) else {
        rep.extra.insert("error".into(), json!("type not in wild's table"));
        return rep;
    };
    let specs = manual::specs_for(arch_static);
    let spec = specs.iter().find(|s| s.r_type == r_type);
    let c = eval_case(arch_static, r_type, info, spec, value);
    rep.evaluations = 1;
    rep.cell(c.cell, 1);
    for (key, what) in c.violations {
        rep.violation(&key, || (what, case.clone()));
    }
    rep.sample(c.detail);
    rep
}
