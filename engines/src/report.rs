//! Collecting results of an enumeration: counters, outcome cells, samples and violations.
//!
//! A violation has a *key* (narrow, stable: variant/type + boundary class, never a value), a
//! human-readable detail of the first instance found, a count, and a self-contained replay object.

use serde_json::Value;
use serde_json::json;
use std::collections::BTreeMap;

#[derive(Default)]
pub struct Report {
    pub evaluations: u64,
    pub outside_statement: u64,
    /// outcome cells: name -> number of evaluations that fell into it
    pub cells: BTreeMap<String, u64>,
    pub violations: BTreeMap<String, Violation>,
    pub samples: Vec<Value>,
    pub extra: BTreeMap<String, Value>,
}

pub struct Violation {
    pub what: String,
    pub count: u64,
    pub replay: Value,
}

impl Report {
    pub fn new() -> Self {
        Self::default()
    }

    pub fn cell(&mut self, name: &str, n: u64) {
        if n == 0 {
            return;
        }
        if let Some(c) = self.cells.get_mut(name) {
            *c += n;
        } else {
            self.cells.insert(name.to_owned(), n);
        }
    }

    /// Record a violation. `make` is only called for the first instance of a key in this report.
    pub fn violation(&mut self, key: &str, make: impl FnOnce() -> (String, Value)) {
        if let Some(v) = self.violations.get_mut(key) {
            v.count += 1;
            return;
        }
        let (what, replay) = make();
        self.violations.insert(
            key.to_owned(),
            Violation {
                what,
                count: 1,
                replay,
            },
        );
    }

    pub fn sample(&mut self, v: Value) {
        if self.samples.len() < 24 {
            self.samples.push(v);
        }
    }

    pub fn merge(&mut self, other: Report) {
        self.evaluations += other.evaluations;
        self.outside_statement += other.outside_statement;
        for (k, n) in other.cells {
            self.cell(&k, n);
        }
        for (k, v) in other.violations {
            if let Some(mine) = self.violations.get_mut(&k) {
                mine.count += v.count;
            } else {
                self.violations.insert(k, v);
            }
        }
        for s in other.samples {
            self.sample(s);
        }
        for (k, v) in other.extra {
            self.extra.entry(k).or_insert(v);
        }
    }

    pub fn to_json(&self, subcommand: &str, tier: &str, wall_s: f64) -> Value {
        let violations: Vec<Value> = self
            .violations
            .iter()
            .map(|(k, v)| json!({"key": k, "what": v.what, "count": v.count, "replay": v.replay}))
            .collect();
        let mut out = json!({
            "subcommand": subcommand,
            "tier": tier,
            "evaluations": self.evaluations,
            "outside_statement": self.outside_statement,
            "distinct_cells": self.cells.len(),
            "cells": self.cells,
            "samples": self.samples,
            "violations": violations,
            "wall_s": (wall_s * 100.0).round() / 100.0,
        });
        for (k, v) in &self.extra {
            out[k] = v.clone();
        }
        out
    }
}

pub fn hex(v: u64) -> String {
    format!("0x{v:x}")
}

/// Parse a u64 given as a JSON number or a decimal / 0x-hex string (values above 2^53 are always
/// written as strings).
pub fn parse_u64(v: &Value) -> Option<u64> {
    if let Some(n) = v.as_u64() {
        return Some(n);
    }
    if let Some(n) = v.as_i64() {
        return Some(n as u64);
    }
    let s = v.as_str()?;
    if let Some(h) = s.strip_prefix("0x") {
        u64::from_str_radix(h, 16).ok()
    } else if let Some(neg) = s.strip_prefix('-') {
        neg.parse::<u64>().ok().map(|n| (n as i64).wrapping_neg() as u64)
    } else {
        s.parse::<u64>().ok()
    }
}
