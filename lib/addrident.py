"""tinyprog family `addrident` (C38): executable E + shared libraries A, B observing the address of
shared entities through every address-taking form.

One *instance* is one global symbol `<kind>_<k>` of one entity kind, defined in the member's definer
module (E or A), together with one use-set per module (uE, uA, uB): the forms ("ways") through which
that module takes the entity's address (and, for functions, whether it also calls it through the
PLT). All instances of a member are packed into one program of three modules; every way of every
module is one *site* that prints the address it sees and what it reads / gets back through it.

Record protocol of the produced program (stdout, one write(2) per line, hex without 0x):
    P <n>                phase n starts (0 observe; 1..3: E / A / B writes, then everybody re-reads)
    a <sid> <addr>       site sid computed this address (printed before the address is used)
    r <sid> <v0> <v1>    data/TLS: the quadwords at [addr] and [addr+size-8]; function: v0 = value
                         returned by calling through the address (or through the PLT for a call site)
    w <sid>              write site stored its two markers through the address printed just before
    END
argv[1..] of the program are instance indices (hex) to skip at run time (crash isolation).

Axis ALIASES (kinds `adat`, `afn`): one instance is ONE object / function defined in the definer under
2-3 names `<kind>_<k>_n<j>[tail]` (binding pattern such as SS, SW, WS, SSW: S = STB_GLOBAL, W = STB_WEAK, in
symbol order; st_size equal for all names or different per name). A use is written `<way>@<j>`: the
module takes the address through name j in that way; every (module, name, way) is one site.
"""
import itertools
from collections import namedtuple

KINDS = ["fn", "dat", "ifn", "tls", "pfn", "pdat", "adat", "afn"]
BASE_KINDS = KINDS[:6]
ALIAS_KINDS = {"adat": "dat", "afn": "fn"}        # alias kind -> the single-name kind it generalises
KCLASS = {"fn": "func", "ifn": "func", "pfn": "func", "dat": "data", "pdat": "data", "tls": "tls",
          "adat": "data", "afn": "func"}
KNAME = {"fn": "function", "dat": "data", "ifn": "ifunc", "tls": "tls", "pfn": "protected-function",
         "pdat": "protected-data", "adat": "data", "afn": "function"}
MODULES = ["E", "A", "B"]
NOTE = '.section .note.GNU-stack,"",@progbits\n'

# way -> code leaving the address in %rax ({s} symbol, {slot} data slot label)
ADDR_CODE = {
    "dpc": "  lea {s}(%rip),%rax\n",
    "d32": "  mov ${s},%eax\n",
    "d32s": "  mov ${s},%rax\n",
    "d64": "  movabs ${s},%rax\n",
    "got": "  mov {s}@GOTPCREL(%rip),%rax\n",
    "gotp": "  pushq {s}@GOTPCREL(%rip)\n  pop %rax\n",
    "gota": "  xor %eax,%eax\n  add {s}@GOTPCREL(%rip),%rax\n",
    "data": "  mov {slot}(%rip),%rax\n",
    # TLS
    "le": "  mov %fs:0,%rax\n  lea {s}@tpoff(%rax),%rax\n",
    "ie": "  mov %fs:0,%rax\n  add {s}@gottpoff(%rip),%rax\n",
    "iem": "  mov {s}@gottpoff(%rip),%rax\n  add %fs:0,%rax\n",
    "gd": "  .byte 0x66\n  lea {s}@tlsgd(%rip),%rdi\n  .value 0x6666\n  rex64\n  call __tls_get_addr@PLT\n",
    "desc": "  lea {s}@tlsdesc(%rip),%rax\n  call *{s}@tlscall(%rax)\n  add %fs:0,%rax\n",
}
CALL_CODE = {
    "call": "  call {s}@PLT\n",
    "callgot": "  call *{s}@GOTPCREL(%rip)\n",
}
DIRECT = ("dpc", "d32", "d32s", "d64", "le")
WRITER_TAG = {"E": 0xE1, "A": 0xA1, "B": 0xB1}

# uses: {"E": tuple(ways), "A": ..., "B": ...}; alias instances: names = binding letter per name
# ("S", "S", "W"), sizes = st_size per name, uses hold "<way>@<name index>"
Inst = namedtuple("Inst", "idx kind k uses names sizes", defaults=((), ()))
Site = namedtuple("Site", "sid mod idx way role nm", defaults=(0,))     # role: obs | wr; nm: name index


def split_use(u):
    """"got@1" -> ("got", 1); "got" -> ("got", 0)"""
    way, _, j = u.partition("@")
    return way, int(j or 0)


def use_ways(uses):
    return [split_use(u)[0] for u in uses]


# The order in which a library's .dynsym lists the names of one object is the order of their hash buckets.
# Names that differ in the last character only have neighbouring hashes (n0 < n1 < n2); a tail
# character chosen per k % 3 gives the orders n0<n1<n2, n1<n2<n0 and n0<n2<n1 as well.
ALIAS_TAILS = (("", "", ""), ("z", "P", "0"), ("a", "z", "A"))


def sym(inst, nm=0):
    if inst.names:
        return f"{inst.kind}_{inst.k}_n{nm}{ALIAS_TAILS[inst.k % 3][nm]}"
    return f"{inst.kind}_{inst.k}"


def size_of(inst):
    """Bytes every view may touch: the object's size; for aliases the smallest st_size of its names (a
    copy relocation made for the shortest name copies no more than that)."""
    if inst.sizes:
        return min(inst.sizes)
    return 16 + 8 * (inst.k % 3)


def full_size(inst):
    return max(inst.sizes) if inst.sizes else size_of(inst)


def markers(inst):
    base = 0x5A00000000000000 | (KINDS.index(inst.kind) << 48) | (inst.idx << 8)
    return base, base | 1


def fn_id(inst):
    return 0x10000000 | inst.idx


def written(writer, inst):
    base = (WRITER_TAG[writer] << 56) | (inst.idx << 8)
    return base | 2, base | 3


def is_addr(way):
    return way in ADDR_CODE


def _subsets(ways):
    out = []
    for n in range(len(ways) + 1):
        for c in itertools.combinations(ways, n):
            out.append(tuple(c))
    return out


def core_ways(kind, definer, ekind, variant):
    """{module: [core ways]} of one kind in one member configuration."""
    cls = KCLASS[kind]
    prot = kind in ("pfn", "pdat")
    # A PC-relative reference from a shared library to a symbol it cannot bind locally is not
    # linkable at all (ELF: preemptible), so A takes addresses directly only where it binds locally.
    a_direct = definer == "A" and (prot or variant == "bsym" or (variant == "bsymfn" and cls == "func"))
    # The direct form of a function's address in non-PIC code is an absolute relocation (what gcc
    # -fno-pic emits: `mov $f,%eax`): a PC-relative reference to a function of another module is
    # ambiguous (GNU ld treats it as a call and makes no canonical PLT entry) in a non-PIE and not
    # linkable in a PIE, so `lea f(%rip)` is a form only where E defines the function itself.
    if cls == "func":
        if ekind == "nonpie":
            e = ["d32", "got", "data", "call"]
        else:
            e = (["dpc"] if definer == "E" else []) + ["got", "data", "call"]
        lib = ["got", "data", "call"]
    elif cls == "data":
        e, lib = ["dpc", "got", "data"], ["got", "data"]
    else:
        e, lib = ["ie", "gd", "desc"], ["ie", "gd", "desc"]
        if definer == "E":
            e = ["le"] + e
    if prot and definer == "A":
        # A binds its protected symbol locally, so E cannot be given a canonical PLT entry / copy of it:
        # GNU ld refuses the direct forms ("non-canonical reference to canonical protected function",
        # "copy relocation against protected symbol").
        e = [w for w in e if w not in DIRECT]
    if variant == "nocopy" and cls == "data" and definer == "A":
        # without copy relocations E has no direct access to A's data (GNU ld: error in a non-PIE, text
        # relocations in a PIE; wild: error)
        e = [w for w in e if w not in DIRECT]
    a = (["dpc"] if a_direct and cls != "tls" else []) + lib
    return {"E": e, "A": a, "B": list(lib)}


def extra_forms(kind, mod, ekind, definer, variant):
    cls = KCLASS[kind]
    if cls == "tls":
        return ["iem"]
    forms = ["gotp", "gota"]
    if mod == "E" and ekind == "nonpie":
        if cls == "func":
            forms = ["d32s", "d64"] + (["dpc"] if definer == "E" else []) + forms
        else:
            forms = ["d32", "d32s", "d64"] + forms
    if cls == "func":
        forms.append("callgot")
    if mod == "E" and definer == "A" and (kind in ("pfn", "pdat") or (variant == "nocopy" and cls == "data")):
        forms = [w for w in forms if w not in DIRECT]
    return forms


def use_triples(kind, definer, ekind, variant, level):
    """The enumerated (uE, uA, uB) of one kind. level 'core': full product of all subsets of the core
    ways of every module; 'full': plus, for every module and every extra instruction form, all
    subsets of that module's core ways joined with the form, against a reduced list for the other
    two modules. Instances with fewer than two address-taking sites are dropped (nothing to compare)."""
    core = core_ways(kind, definer, ekind, variant)
    out, seen = [], set()

    def add(t):
        n = sum(1 for u in t for w in u if is_addr(w))
        if kind == "ifn" and definer == "E" and (t[1] or t[2]) and not any(w in ("d32", "d32s", "d64") for w in t[0]):
            # glibc refuses to start a process in which a library refers to an IFUNC symbol exported by
            # the executable ("creates an unsatisfiable circular dependency"); libraries can refer to
            # E's IFUNC only where E exports its PLT entry as an ordinary function (absolute address
            # taken in a non-PIE).
            return
        if n >= 2 and t not in seen:
            seen.add(t)
            out.append(t)

    for t in itertools.product(*(_subsets(core[m]) for m in MODULES)):
        add(t)
    if level == "full":
        def reduced(m):
            c = core[m]
            first = [(w,) for w in c if is_addr(w)][:2]
            r = first + [tuple(c)]
            if m == "E":
                r = [()] + r
            return r
        for mi, m in enumerate(MODULES):
            for x in extra_forms(kind, m, ekind, definer, variant):
                others = [reduced(o) for o in MODULES if o != m]
                for s in _subsets(core[m]):
                    um = s + (x,)
                    for o1, o2 in itertools.product(*others):
                        t = [o1, o2]
                        t.insert(mi, um)
                        add(tuple(t))
    return out


def build_instances(kinds, definer, ekind, variant, level):
    insts = []
    for kind in kinds:
        for k, (ue, ua, ub) in enumerate(use_triples(kind, definer, ekind, variant, level)):
            insts.append(Inst(len(insts), kind, k, {"E": ue, "A": ua, "B": ub}))
    return insts


# ------------------------------------------------------------------------------------------ aliases
ALIAS_BINDINGS = {"core": ["SS", "SW", "WS", "SSW"], "full": ["SS", "SW", "WS", "WW", "SSW", "SWS", "WSS"]}


def alias_sizes(k, nn, mode):
    """st_size per name. 'same': one size; 'diff': every name another size (which name is the longest
    rotates with k), all of them prefixes of the one object."""
    full = 32 + 8 * (k % 3)
    if mode == "same":
        return (full,) * nn
    return tuple(full - 8 * ((j + k // 3) % nn) for j in range(nn))


def alias_use_triples(kind, definer, ekind, variant, nn, level, sizes_mode):
    """The enumerated (uE, uA, uB) of one alias group with nn names.
      E: every subset D of the names accessed directly (the form that makes a copy relocation / a
         canonical PLT entry: the direct core form of the single-name kind, where one exists) x one further
         indirect use {none, GOT through name j, `.quad` of name j};
      A: none | one name through the GOT | one name through `.quad` | every name through the GOT
         (| `lea` of one name where A binds locally);
      B: none | one name through the GOT | every name through the GOT.
    Functions: B is {none, all}. core level (quick tier) thins: 3 names / functions: E's indirect use
    is GOT only; functions: A has no `.quad`; different sizes: A and B are {none, all}."""
    base = ALIAS_KINDS[kind]
    cls = KCLASS[kind]
    core = core_ways(base, definer, ekind, variant)
    names = list(range(nn))
    edirect = [w for w in core["E"] if w in DIRECT][:1]
    thin = level == "core"
    eind_ways = [w for w in ("got", "data") if w in core["E"]]
    if thin and (nn >= 3 or cls == "func"):
        eind_ways = eind_ways[:1]
    e_opts = []
    for d in (_subsets(names) if edirect else [()]):
        for ind in [None] + [(w, j) for w in eind_ways for j in names]:
            u = tuple(f"{edirect[0]}@{j}" for j in d)
            if ind:
                u += (f"{ind[0]}@{ind[1]}",)
            e_opts.append(u)
    allgot = tuple(f"got@{j}" for j in names)
    a_ways = ["got"] if thin and cls == "func" else ["got", "data"]
    if "dpc" in core["A"]:
        a_ways = ["dpc"] + a_ways
    a_opts = [()] + [(f"{w}@{j}",) for w in a_ways for j in names] + [allgot]
    b_opts = [()] + [(f"got@{j}",) for j in names] + [allgot]
    if cls == "func":
        b_opts = [(), allgot]
    if thin and sizes_mode == "diff":
        a_opts, b_opts = [(), allgot], [(), allgot]
    out = []
    for t in itertools.product(e_opts, a_opts, b_opts):
        if sum(len(u) for u in t) >= 2:
            out.append(t)
    return out


def build_alias_instances(kinds, definer, ekind, variant, level):
    """All alias groups of one member: kind x binding pattern x {same, different} st_size (functions:
    same only) x use triple."""
    insts = []
    for kind in kinds:
        k = 0
        for pat in ALIAS_BINDINGS[level]:
            for mode in (("same", "diff") if KCLASS[kind] == "data" else ("same",)):
                for ue, ua, ub in alias_use_triples(kind, definer, ekind, variant, len(pat), level, mode):
                    insts.append(Inst(len(insts), kind, k, {"E": ue, "A": ua, "B": ub}, tuple(pat),
                                      alias_sizes(k, len(pat), mode)))
                    k += 1
    return insts


def build_sites(insts):
    """Deterministic site numbering: observation sites of every module, then write sites."""
    sites = []
    for m in MODULES:
        for i in insts:
            for u in i.uses[m]:
                w, nm = split_use(u)
                sites.append(Site(len(sites), m, i.idx, w, "obs", nm))
    for m in MODULES:
        for i in insts:
            if KCLASS[i.kind] == "func":
                continue
            ws = [split_use(u) for u in i.uses[m] if is_addr(split_use(u)[0])]
            if ws:
                sites.append(Site(len(sites), m, i.idx, ws[0][0], "wr", ws[0][1]))
    return sites


# ------------------------------------------------------------------------------------------ assembly
def _rt(m):
    """Freestanding runtime local to module m: rt_rec_<m>(edi=tag char, esi=sid, edx=number of values,
    values in r12, r13, r14) prints one record with a single write(2)."""
    return f"""
.text
.type rt_hex_{m},@function
rt_hex_{m}:                      # rax = value, rdi = output cursor -> rdi advanced
  mov %rax,%rcx
  mov $1,%r8d
  mov %rax,%r9
1: shr $4,%r9
  jz 2f
  inc %r8d
  jmp 1b
2: lea (%rdi,%r8),%r9
  mov %r9,%r10
3: mov %ecx,%eax
  and $15,%eax
  cmp $10,%eax
  jb 4f
  add $39,%eax
4: add $48,%eax
  dec %r9
  mov %al,(%r9)
  shr $4,%rcx
  cmp %rdi,%r9
  jne 3b
  mov %r10,%rdi
  ret
.type rt_rec_{m},@function
rt_rec_{m}:
  sub $136,%rsp
  mov %rsp,%r11
  mov %edx,%edx
  mov %rdx,112(%rsp)
  mov %dil,(%r11)
  movb $32,1(%r11)
  lea 2(%r11),%rdi
  mov %esi,%eax
  call rt_hex_{m}
  cmpq $1,112(%rsp)
  jb 9f
  movb $32,(%rdi)
  inc %rdi
  mov %r12,%rax
  call rt_hex_{m}
  cmpq $2,112(%rsp)
  jb 9f
  movb $32,(%rdi)
  inc %rdi
  mov %r13,%rax
  call rt_hex_{m}
  cmpq $3,112(%rsp)
  jb 9f
  movb $32,(%rdi)
  inc %rdi
  mov %r14,%rax
  call rt_hex_{m}
9: movb $10,(%rdi)
  inc %rdi
  mov %rdi,%rdx
  sub %rsp,%rdx
  mov %rsp,%rsi
  mov $1,%edi
  mov $1,%eax
  syscall
  add $136,%rsp
  ret
"""


def _routine_open(name, exported):
    vis = f".globl {name}\n" if exported else f".globl {name}\n.hidden {name}\n"
    return (f".text\n{vis}.type {name},@function\n{name}:\n  push %rbx\n  push %r12\n  push %r13\n"
            "  push %r14\n  push %r15\n  mov %rdi,%r15\n")


ROUTINE_CLOSE = "  pop %r15\n  pop %r14\n  pop %r13\n  pop %r12\n  pop %rbx\n  ret\n"


def _obs_code(m, inst, site):
    s = sym(inst, site.nm)
    cls = KCLASS[inst.kind]
    sz = size_of(inst)
    o = [f"  cmpb $0,{inst.idx}(%r15)\n  jne 7f\n"]
    if site.way in CALL_CODE:
        o.append(CALL_CODE[site.way].format(s=s))
        o.append(f"  mov %rax,%r12\n  xor %r13d,%r13d\n  mov $114,%edi\n  mov ${site.sid},%esi\n"
                 f"  mov $2,%edx\n  call rt_rec_{m}\n")
    else:
        o.append(ADDR_CODE[site.way].format(s=s, slot=f"slot{m}_{site.sid}"))
        o.append(f"  mov %rax,%rbx\n  mov %rax,%r12\n  mov $97,%edi\n  mov ${site.sid},%esi\n"
                 f"  mov $1,%edx\n  call rt_rec_{m}\n")
        if cls == "func":
            o.append("  call *%rbx\n  mov %rax,%r12\n  xor %r13d,%r13d\n")
        else:
            o.append(f"  mov (%rbx),%r12\n  mov {sz - 8}(%rbx),%r13\n")
        o.append(f"  mov $114,%edi\n  mov ${site.sid},%esi\n  mov $2,%edx\n  call rt_rec_{m}\n")
    o.append("7:\n")
    return "".join(o)


def _wr_code(m, inst, site):
    v0, v1 = written(m, inst)
    sz = size_of(inst)
    return (f"  cmpb $0,{inst.idx}(%r15)\n  jne 7f\n" +
            ADDR_CODE[site.way].format(s=sym(inst, site.nm), slot=f"slot{m}_{site.sid}") +
            f"  mov %rax,%rbx\n  mov %rax,%r12\n  mov $97,%edi\n  mov ${site.sid},%esi\n  mov $1,%edx\n"
            f"  call rt_rec_{m}\n  movabs ${v0:#x},%rcx\n  mov %rcx,(%rbx)\n  movabs ${v1:#x},%rcx\n"
            f"  mov %rcx,{sz - 8}(%rbx)\n  mov $119,%edi\n  mov ${site.sid},%esi\n  xor %edx,%edx\n"
            f"  call rt_rec_{m}\n7:\n")


def _defs(insts):
    text, data, tdata = [], [], []
    for i in insts:
        s = sym(i)
        cls = KCLASS[i.kind]
        vis = f".protected {s}\n" if i.kind in ("pfn", "pdat") else ""
        if i.names:
            # one object / function, several names: labels at one address, in name order
            typ = "@function" if cls == "func" else "@object"
            decl = "".join(f"{'.globl' if b == 'S' else '.weak'} {sym(i, j)}\n.type {sym(i, j)},{typ}\n"
                           for j, b in enumerate(i.names))
            labels = "".join(f"{sym(i, j)}:\n" for j in range(len(i.names)))
            if cls == "func":
                text.append(decl + labels + f"  mov ${fn_id(i):#x},%eax\n  ret\n" +
                            "".join(f".size {sym(i, j)},.-{sym(i, j)}\n" for j in range(len(i.names))))
            else:
                m0, m1 = markers(i)
                body = [i.idx] * (full_size(i) // 8)
                body[0], body[size_of(i) // 8 - 1] = m0, m1
                data.append(decl + "".join(f".size {sym(i, j)},{sz}\n" for j, sz in enumerate(i.sizes)) +
                            labels + "".join(f"  .quad {v:#x}\n" for v in body))
        elif i.kind == "ifn":
            text.append(f".globl {s}\n.type {s},@gnu_indirect_function\n{s}:\n  lea impl_{s}(%rip),%rax\n  ret\n"
                        f".size {s},.-{s}\n.type impl_{s},@function\nimpl_{s}:\n  mov ${fn_id(i):#x},%eax\n  ret\n"
                        f".size impl_{s},.-impl_{s}\n")
        elif cls == "func":
            text.append(f".globl {s}\n{vis}.type {s},@function\n{s}:\n  mov ${fn_id(i):#x},%eax\n  ret\n"
                        f".size {s},.-{s}\n")
        else:
            m0, m1 = markers(i)
            n = size_of(i) // 8
            body = [m0] + [i.idx] * (n - 2) + [m1]
            (tdata if cls == "tls" else data).append(
                f".globl {s}\n{vis}.type {s},@object\n.size {s},{size_of(i)}\n{s}:\n" +
                "".join(f"  .quad {v:#x}\n" for v in body))
    out = ""
    if text:
        out += ".text\n" + "".join(text)
    if data:
        out += ".data\n.balign 8\n" + "".join(data)
    if tdata:
        out += '.section .tdata,"awT",@progbits\n.balign 8\n' + "".join(tdata)
    return out


def module_src(m, insts, sites, definer, ninst):
    """Assembly of module m (E also holds _start and the skip table)."""
    by_idx = {i.idx: i for i in insts}
    obsf, obsd, wr, slots = [], [], [], []
    for st in sites:
        if st.mod != m:
            continue
        i = by_idx[st.idx]
        if st.way == "data":
            slots.append(f"slot{m}_{st.sid}:\n  .quad {sym(i, st.nm)}\n")
        if st.role == "wr":
            wr.append(_wr_code(m, i, st))
        elif KCLASS[i.kind] == "func":
            obsf.append(_obs_code(m, i, st))
        else:
            obsd.append(_obs_code(m, i, st))
    exported = m != "E"
    out = [_rt(m)]
    for name, body in (("obsf", obsf), ("obsd", obsd), ("wr", wr)):
        out.append(_routine_open(f"{name}_{m}", exported) + "".join(body) + ROUTINE_CLOSE)
    if slots:
        out.append(".data\n.balign 8\n" + "".join(slots))
    if m == definer:
        out.append(_defs(insts))
    if m == "E":
        out.append(_start_src(ninst))
    out.append(NOTE)
    return "".join(out)


def _start_src(ninst):
    def allmods(r):
        return "".join(f"  mov %r15,%rdi\n  call {r}_{m}{'' if m == 'E' else '@PLT'}\n" for m in MODULES)

    def phase(n):
        return f"  mov $80,%edi\n  mov ${n},%esi\n  xor %edx,%edx\n  call rt_rec_E\n"
    o = [f".bss\n.balign 16\nskip_tab:\n  .zero {ninst + 16}\n.text\n.globl _start\n.type _start,@function\n_start:\n"
         "  mov %rsp,%rbp\n  and $-16,%rsp\n  lea skip_tab(%rip),%r15\n"
         # argv[1..]: hex instance indices to skip
         "  mov (%rbp),%r12\n  lea 16(%rbp),%r13\n"
         "1: dec %r12\n  jle 5f\n  mov (%r13),%rsi\n  add $8,%r13\n  xor %eax,%eax\n"
         "2: movzbl (%rsi),%ecx\n  test %ecx,%ecx\n  jz 4f\n  inc %rsi\n  sub $48,%ecx\n  cmp $10,%ecx\n  jb 3f\n"
         "  sub $39,%ecx\n3: shl $4,%rax\n  add %rcx,%rax\n  jmp 2b\n"
         f"4: cmp ${ninst},%rax\n  jae 1b\n  movb $1,(%r15,%rax)\n  jmp 1b\n5:\n"]
    o.append(phase(0) + allmods("obsf") + allmods("obsd"))
    for n, w in enumerate(MODULES, 1):
        o.append(phase(n) + f"  mov %r15,%rdi\n  call wr_{w}{'' if w == 'E' else '@PLT'}\n" + allmods("obsd"))
    o.append("  mov $69,%edi\n  xor %esi,%esi\n  xor %edx,%edx\n  call rt_rec_E\n"
             "  xor %edi,%edi\n  mov $60,%eax\n  syscall\n")
    return "".join(o)


# ------------------------------------------------------------------------------------------ parsing
def expected_order(insts, sites):
    """The sequence of (phase, sid) a complete run evaluates, in order."""
    by_idx = {i.idx: i for i in insts}
    obsf = {m: [s for s in sites if s.mod == m and s.role == "obs" and KCLASS[by_idx[s.idx].kind] == "func"]
            for m in MODULES}
    obsd = {m: [s for s in sites if s.mod == m and s.role == "obs" and KCLASS[by_idx[s.idx].kind] != "func"]
            for m in MODULES}
    wr = {m: [s for s in sites if s.mod == m and s.role == "wr"] for m in MODULES}
    seq = []
    for m in MODULES:
        seq += [(0, s.sid) for s in obsf[m]]
    for m in MODULES:
        seq += [(0, s.sid) for s in obsd[m]]
    for n, w in enumerate(MODULES, 1):
        seq += [(n, s.sid) for s in wr[w]]
        for m in MODULES:
            seq += [(n, s.sid) for s in obsd[m]]
    return seq


def parse_output(text):
    """-> (addr {(phase, sid): addr}, reads {(phase, sid): (v0, v1)}, wrote set((phase, sid)), ended,
    last (phase, sid) that printed anything)."""
    addr, reads, wrote = {}, {}, set()
    phase, ended, last = 0, False, None
    for line in text.split("\n"):
        w = line.split()
        if not w:
            continue
        try:
            if w[0] == "P":
                phase = int(w[1], 16)
            elif w[0] == "a":
                sid = int(w[1], 16)
                addr[(phase, sid)] = int(w[2], 16)
                last = (phase, sid)
            elif w[0] == "r":
                sid = int(w[1], 16)
                reads[(phase, sid)] = (int(w[2], 16), int(w[3], 16))
                last = (phase, sid)
            elif w[0] == "w":
                sid = int(w[1], 16)
                wrote.add((phase, sid))
                last = (phase, sid)
            elif w[0] == "E":
                ended = True
        except (ValueError, IndexError):
            pass
    return addr, reads, wrote, ended, last
