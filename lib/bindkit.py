"""Helpers shared by C30 (constructor order) and C33 (--wrap): a GNU ar writer with a symbol
index, and "which symbol is this 8-byte word bound to" readers for linked outputs, built only on
elfread (no linker, no binutils).

A *word* is an 8-byte slot in the output image that an input object filled with `.quad SYM`
(R_X86_64_64).  In a non-PIC executable the linker stores SYM's address; in PIE / shared outputs
it leaves a dynamic relocation: R_X86_64_RELATIVE (addend = address), R_X86_64_64 or
R_X86_64_GLOB_DAT against a dynamic symbol (the binding is then the *name* the loader will look
up), or a RELR entry (implicit addend in the word)."""
import struct

import elfread

R_X86_64_64, R_X86_64_GLOB_DAT, R_X86_64_JUMP_SLOT, R_X86_64_RELATIVE = 1, 6, 7, 8


def write_ar(path, members):
    """members: [(name, bytes, [defined global symbol names])] -> GNU ar with a symbol index."""
    names = b"".join(s.encode() + b"\0" for _n, _d, syms in members for s in syms)
    nsyms = sum(len(syms) for _n, _d, syms in members)
    symsize = 4 + 4 * nsyms + len(names)
    symsize += symsize & 1

    def hdr(name, size):
        return ("%-16s%-12d%-6d%-6d%-8s%-10d`\n" % (name, 0, 0, 0, "644", size)).encode()

    pos = 8 + 60 + symsize
    offs = []
    for _n, d, syms in members:
        offs += [pos] * len(syms)
        pos += 60 + len(d) + (len(d) & 1)
    body = struct.pack(">I", nsyms) + b"".join(struct.pack(">I", o) for o in offs) + names
    body += b"\0" * (symsize - len(body))
    out = b"!<arch>\n" + hdr("/", symsize) + body
    for n, d, _syms in members:
        out += hdr(n + "/", len(d)) + d + (b"\n" if len(d) & 1 else b"")
    with open(path, "wb") as f:
        f.write(out)


class Image:
    """A linked output plus the lookups needed to name what a word is bound to."""

    def __init__(self, path, name_filter=None):
        self.e = e = elfread.Elf(path)
        self.addr2names = {}
        self.sym = {}
        for s in e.symbols(".symtab"):
            if not s.name or s.shndx == elfread.SHN_UNDEF or s.type in (elfread.STT_SECTION,
                                                                         elfread.STT_FILE):
                continue
            if name_filter is not None and not name_filter(s.name):
                continue
            self.addr2names.setdefault(s.value, []).append(s.name)
            self.sym.setdefault(s.name, s)
        self.dynamic = bool(e.dynamic())
        self.by_off = {}
        self.relr = set()
        if self.dynamic:
            rel = e.dyn_relocs()
            dynsyms = e.symbols(".dynsym")
            for key in ("rela", "jmprel"):
                for off, rtype, symidx, addend in rel[key]:
                    name = dynsyms[symidx].name if 0 < symidx < len(dynsyms) else None
                    self.by_off[off] = (rtype, name, addend)
            self.relr = set(rel["relr"])
            self.dynsyms = dynsyms

    def name_at(self, addr):
        """Symbol name(s) defined at addr, '|'-joined and sorted; '?<hex>' if none."""
        n = self.addr2names.get(addr)
        return "|".join(sorted(n)) if n else "?%#x" % addr

    def word(self, vaddr):
        """-> binding of the 8-byte word at vaddr:
        'def:<name>'  the word holds / is relocated to the address of a definition in this output
        'dyn:<name>'  the word is filled at load time by a lookup of <name>
        'zero'        the word is 0 and has no dynamic relocation (e.g. an undefined weak)
        'abs:<hex>'   anything else."""
        r = self.by_off.get(vaddr)
        if r is not None:
            rtype, name, addend = r
            if rtype == R_X86_64_RELATIVE:
                return "def:" + self.name_at(addend)
            if rtype in (R_X86_64_64, R_X86_64_GLOB_DAT, R_X86_64_JUMP_SLOT) and name:
                return "dyn:" + name + ("+%d" % addend if addend else "")
            return "reloc:%d:%s:%s" % (rtype, name, addend)
        v = self.e.read_u64(vaddr)
        if vaddr in self.relr:
            return "def:" + self.name_at(v)
        if v == 0:
            return "zero"
        if v in self.addr2names:
            return "def:" + self.name_at(v)
        return "abs:%#x" % v

    def words(self, vaddr, n):
        return [self.word(vaddr + 8 * i) for i in range(n)]

    def section_words(self, name):
        """-> list of bindings of every 8-byte word of section `name` (None if absent)."""
        s = self.e.section(name)
        if s is None:
            return None
        return self.words(s.sh_addr, s.sh_size // 8)


# --------------------------------------------------------------------------- reference-linker cache
# GNU ld's result for a member is a pure function of (ld version, flags, input bytes).  Process
# creation is the scarce resource of this sandbox, so the *observation* made on GNU ld's output
# is memoised on disk exactly like vlib.assemble memoises gas.  wild is never cached.
import hashlib
import json
import os

_FILE_SHA = {}


def file_digest(path):
    k = _FILE_SHA.get(path)
    if k is None:
        with open(path, "rb") as f:
            k = _FILE_SHA[path] = hashlib.sha256(f.read()).hexdigest()
    return k


def ref_key(schema, ldver, flags, files, extra=""):
    """files: input paths in command-line order (their bytes, not their names, enter the key)."""
    h = hashlib.sha256()
    for part in [schema, ldver, "\x1f".join(flags), extra] + [file_digest(p) for p in files]:
        h.update(part.encode() + b"\0")
    return h.hexdigest()[:32]


def ref_get(cache_dir, key):
    try:
        with open(os.path.join(cache_dir, key[:2], key + ".json")) as f:
            return json.load(f)
    except (OSError, ValueError):
        return None


def ref_put(cache_dir, key, value):
    d = os.path.join(cache_dir, key[:2])
    os.makedirs(d, exist_ok=True)
    tmp = os.path.join(d, f".{key}.{os.getpid()}")
    with open(tmp, "w") as f:
        json.dump(value, f)
    os.replace(tmp, os.path.join(d, key + ".json"))


def ld_version():
    import subprocess
    r = subprocess.run(["ld", "--version"], stdout=subprocess.PIPE, stderr=subprocess.PIPE)
    return r.stdout.decode("utf-8", "replace").split("\n")[0].strip()


# --------------------------------------------------------------------------- tagged sites / markers
SITE_TAG = 0x5349544500000000          # 'SITE' << 32 | site id : the word after it is the site
MARK_HEAD, MARK_TAIL = 0xB8, b"RM"     # a definition starts with B8 <id lo> <id hi> 'R' 'M'


def marker_bytes(mid):
    """5 bytes: as code `mov $0x4d52<id>, %eax`; as data just a recognisable header."""
    return bytes([MARK_HEAD, mid & 0xff, mid >> 8 & 0xff]) + MARK_TAIL


def find_sites(e):
    """Scan the file-backed part of every PT_LOAD at 8-byte alignment for SITE tags.
    -> {site id: [vaddr of the word following the tag, ...]}"""
    out = {}
    pat = struct.pack("<I", SITE_TAG >> 32)
    for p in e.segments:
        if p.p_type != elfread.PT_LOAD or not p.p_filesz:
            continue
        data = p.data
        i = data.find(pat)
        while i >= 0:
            va = p.p_vaddr + i - 4
            if i >= 4 and va % 8 == 0:
                sid = struct.unpack_from("<I", data, i - 4)[0]
                out.setdefault(sid, []).append(va + 8)
            i = data.find(pat, i + 1)
    return out


def _image_target(self, vaddr):
    """What the 8-byte word at vaddr refers to, independent of the output's .symtab where
    possible: ('mark', id) the address of a definition carrying marker id; ('name', n) a load-time
    lookup of n (dynamic relocation against n, or the address of a symbol that is undefined here /
    of a copy of it: canonical PLT entry, copy relocation); ('zero',); ('other', text)."""
    r = self.by_off.get(vaddr)
    if r is not None:
        rtype, name, addend = r
        if rtype == R_X86_64_RELATIVE:
            return self._addr_target(addend)
        if rtype in (R_X86_64_64, R_X86_64_GLOB_DAT, R_X86_64_JUMP_SLOT) and name and not addend:
            return ("name", name)
        return ("other", "reloc:%d:%s:%s" % (rtype, name, addend))
    v = self.e.read_u64(vaddr)
    if v == 0 and vaddr not in self.relr:
        return ("zero",)
    return self._addr_target(v)


def _addr_target(self, addr):
    try:
        b = self.e.read_vaddr(addr, 5)
    except elfread.ElfError:
        b = b""
    if len(b) == 5 and b[0] == MARK_HEAD and b[3:5] == MARK_TAIL:
        return ("mark", b[1] | b[2] << 8)
    if not hasattr(self, "_all_by_addr"):
        m = {}
        for which in (".symtab", ".dynsym"):
            for s in self.e.symbols(which):
                if s.name and s.value and s.type not in (elfread.STT_SECTION, elfread.STT_FILE):
                    m.setdefault(s.value, set()).add(s.name)
        self._all_by_addr = m
    names = self._all_by_addr.get(addr)
    if names:
        return ("name", "|".join(sorted(names)))
    return ("other", "addr:%#x" % addr)


Image.target = _image_target
Image._addr_target = _addr_target
