"""Raw ELF64 little-endian relocatable-object writer (x86-64 / AArch64) for inputs an assembler
cannot express: arbitrary r_type values, exact bytes, odd flags/alignments, and -- through
patch() / to_bytes_with_map() -- deliberately malformed structures. Stdlib only.

    o = ElfObject('x86_64')
    t = o.section('.text', flags=SHF_ALLOC | SHF_EXECINSTR, align=16, data=code)
    o.symbol('_start', section=t, type=STT_FUNC, size=len(code))
    o.reloc(t, 1, 2, o.symbol('ext'), -4)
    o.write('x.o')
"""
import struct

ET_REL = 1
EM_X86_64, EM_AARCH64 = 62, 183
MACHINES = {'x86_64': EM_X86_64, 'aarch64': EM_AARCH64}
SHN_UNDEF, SHN_LORESERVE, SHN_ABS, SHN_COMMON, SHN_XINDEX = 0, 0xff00, 0xfff1, 0xfff2, 0xffff
(SHT_NULL, SHT_PROGBITS, SHT_SYMTAB, SHT_STRTAB, SHT_RELA, SHT_HASH, SHT_DYNAMIC, SHT_NOTE,
 SHT_NOBITS, SHT_REL) = range(10)
SHT_INIT_ARRAY, SHT_FINI_ARRAY, SHT_PREINIT_ARRAY, SHT_GROUP, SHT_SYMTAB_SHNDX = 14, 15, 16, 17, 18
SHF_WRITE, SHF_ALLOC, SHF_EXECINSTR, SHF_MERGE, SHF_STRINGS = 1, 2, 4, 0x10, 0x20
SHF_INFO_LINK, SHF_LINK_ORDER, SHF_GROUP, SHF_TLS = 0x40, 0x80, 0x200, 0x400
SHF_GNU_RETAIN, SHF_EXCLUDE = 0x200000, 0x80000000
GRP_COMDAT = 1
STB_LOCAL, STB_GLOBAL, STB_WEAK, STB_GNU_UNIQUE = 0, 1, 2, 10
(STT_NOTYPE, STT_OBJECT, STT_FUNC, STT_SECTION, STT_FILE, STT_COMMON, STT_TLS) = range(7)
STT_GNU_IFUNC = 10
STV_DEFAULT, STV_INTERNAL, STV_HIDDEN, STV_PROTECTED = range(4)
NT_GNU_PROPERTY_TYPE_0 = 5
GNU_PROPERTY_X86_FEATURE_1_AND, GNU_PROPERTY_AARCH64_FEATURE_1_AND = 0xc0000002, 0xc0000000

# (name, struct code) in file order; the field map and patch() use these names.
EHDR_FIELDS = (('ei_mag', '4s'), ('ei_class', 'B'), ('ei_data', 'B'), ('ei_version', 'B'),
               ('ei_osabi', 'B'), ('ei_abiversion', 'B'), ('ei_pad', '7s'), ('e_type', 'H'),
               ('e_machine', 'H'), ('e_version', 'I'), ('e_entry', 'Q'), ('e_phoff', 'Q'),
               ('e_shoff', 'Q'), ('e_flags', 'I'), ('e_ehsize', 'H'), ('e_phentsize', 'H'),
               ('e_phnum', 'H'), ('e_shentsize', 'H'), ('e_shnum', 'H'), ('e_shstrndx', 'H'))
SHDR_FIELDS = (('sh_name', 'I'), ('sh_type', 'I'), ('sh_flags', 'Q'), ('sh_addr', 'Q'),
               ('sh_offset', 'Q'), ('sh_size', 'Q'), ('sh_link', 'I'), ('sh_info', 'I'),
               ('sh_addralign', 'Q'), ('sh_entsize', 'Q'))
SYM_FIELDS = (('st_name', 'I'), ('st_info', 'B'), ('st_other', 'B'), ('st_shndx', 'H'),
              ('st_value', 'Q'), ('st_size', 'Q'))
RELA_FIELDS = (('r_offset', 'Q'), ('r_info', 'Q'), ('r_addend', 'q'))


def _layout(fields):
    out, off = {}, 0
    for name, code in fields:
        size = struct.calcsize('<' + code)
        out[name] = (off, size)
        off += size
    return out


_EHDR, _SHDR, _SYM, _RELA = map(_layout, (EHDR_FIELDS, SHDR_FIELDS, SYM_FIELDS, RELA_FIELDS))


class Sec:
    def __init__(self, name, type, flags, align, data, entsize, link, info, size, addr):
        self.name, self.type, self.flags, self.align = name, type, flags, align
        self.data, self.entsize, self.link, self.info = bytes(data), entsize, link, info
        self.size, self.addr = size, addr      # size: explicit sh_size (NOBITS), else len(data)
        self.index = self.offset = None        # assigned by the last to_bytes*()
        self.relocs = []                       # only for .rela sections made by reloc()
        self.members = None                    # only for groups made by group()

    def __repr__(self):
        return 'Sec(%r, index=%r)' % (self.name, self.index)


class Sym:
    def __init__(self, name, section, value, size, bind, type, vis, shndx):
        self.name, self.section, self.value, self.size = name, section, value, size
        self.bind, self.type, self.vis, self.shndx = bind, type, vis, shndx
        self.index = None                      # assigned by the last to_bytes*()

    def __repr__(self):
        return 'Sym(%r, index=%r)' % (self.name, self.index)


class _Strtab:
    def __init__(self):
        self.buf, self.pos = bytearray(b'\0'), {'': 0}

    def add(self, s):
        if s not in self.pos:
            self.pos[s] = len(self.buf)
            self.buf += s.encode('utf-8', 'surrogateescape') + b'\0'
        return self.pos[s]


class ElfObject:
    def __init__(self, machine='x86_64', e_type=ET_REL, e_flags=0, osabi=0):
        self.machine = MACHINES.get(machine, machine)
        self.e_type, self.e_flags, self.osabi = e_type, e_flags, osabi
        self.sections, self.symbols, self.patches = [], [], []
        self._secsyms, self._relasecs = {}, {}

    # ------------------------------------------------------------------ construction
    def section(self, name, type=SHT_PROGBITS, flags=0, align=1, data=b'', entsize=0, link=None,
                info=None, size=None, addr=0):
        """link: None | int | Sec | 'symtab'.  info: None | int | Sec (its index) | Sym (its index).
        size: explicit sh_size (for SHT_NOBITS, or to lie)."""
        s = Sec(name, type, flags, align, data, entsize, link, info, size, addr)
        self.sections.append(s)
        return s

    def symbol(self, name, section=None, value=0, size=0, bind=STB_GLOBAL, type=STT_NOTYPE,
               vis=STV_DEFAULT, shndx=None):
        """section: Sec | None (undefined) | 'abs' | 'common' (value = alignment). shndx (int)
        overrides st_shndx verbatim. Every call appends a new entry (duplicates are allowed)."""
        s = Sym(name, section, value, size, bind, type, vis, shndx)
        self.symbols.append(s)
        return s

    def section_symbol(self, sec):
        if sec not in self._secsyms:
            self._secsyms[sec] = self.symbol('', section=sec, bind=STB_LOCAL, type=STT_SECTION)
        return self._secsyms[sec]

    def reloc(self, sec, offset, rtype, symbol, addend=0):
        """Append to '.rela' + sec.name (created on first use; one per target section). symbol:
        Sym | int (raw symbol index) | None (index 0). Returns the entry's index in the section."""
        rs = self._relasecs.get(sec)
        if rs is None:
            rs = self.section('.rela' + sec.name, SHT_RELA, SHF_INFO_LINK, 8, b'', 24, 'symtab', sec)
            if sec.flags & SHF_GROUP:
                rs.flags |= SHF_GROUP
            self._relasecs[sec] = rs
        rs.relocs.append((offset, rtype, symbol, addend))
        return len(rs.relocs) - 1

    def rela_section(self, sec):
        return self._relasecs.get(sec)

    def group(self, name_symbol, sections, comdat=True, name='.group'):
        """SHT_GROUP with signature name_symbol (Sym); members get SHF_GROUP, and so do their
        .rela sections, which join the group. Group sections are emitted before all others."""
        g = self.section(name, SHT_GROUP, 0, 4, b'', 4, 'symtab', name_symbol)
        g.members, g.group_flags = list(sections), GRP_COMDAT if comdat else 0
        for m in g.members:
            m.flags |= SHF_GROUP
        return g

    def note_gnu_stack(self, exec=False):
        return self.section('.note.GNU-stack', SHT_PROGBITS, SHF_EXECINSTR if exec else 0, 1)

    def gnu_property(self, props):
        """props: [(pr_type, bytes)] -> .note.gnu.property (NT_GNU_PROPERTY_TYPE_0)."""
        desc = b''
        for pr_type, data in props:
            desc += struct.pack('<II', pr_type, len(data)) + data + bytes(-len(data) % 8)
        note = struct.pack('<III', 4, len(desc), NT_GNU_PROPERTY_TYPE_0) + b'GNU\0' + desc
        return self.section('.note.gnu.property', SHT_NOTE, SHF_ALLOC, 8, note)

    # ------------------------------------------------------------------ patching
    def patch(self, key, value):
        """Overwrite one field after layout. key as in the field map, with Sec / Sym objects
        allowed in place of indices: ('ehdr', f) ('shdr', sec, f) ('sym', sym, f)
        ('rela', relasec, n, f) ('group', sec, n). value: int, or bytes of the field's size."""
        self.patches.append((tuple(key), value))

    def patch_ehdr(self, field, value):
        self.patch(('ehdr', field), value)

    def patch_section_header(self, sec, field, value):
        self.patch(('shdr', sec, field), value)

    def patch_symbol(self, sym, field, value):
        self.patch(('sym', sym, field), value)

    def patch_rela(self, target_sec, n, field, value):
        """Patch entry n of the .rela section that reloc() created for target_sec."""
        self.patch(('rela', self._relasecs[target_sec], n, field), value)

    # ------------------------------------------------------------------ output
    def _ordered_sections(self):
        groups =[s for s in self.sections if s.type == SHT_GROUP and s.members is not None]
        for g in groups:                       # .rela sections of members join the group
            for m in list(g.members):
                rs = self._relasecs.get(m)
                if rs is not None and rs not in g.members:
                    rs.flags |= SHF_GROUP
                    g.members.insert(g.members.index(m) + 1, rs)
        gset = set(groups)
        return groups + [s for s in self.sections if s not in gset]

    def to_bytes(self):
        return self.to_bytes_with_map()[0]

    def write(self, path):
        with open(path, 'wb') as f:
            f.write(self.to_bytes())

    def to_bytes_with_map(self):
        """-> (bytes, fmap). fmap maps ('ehdr', field), ('shdr', idx, field), ('sym', idx, field),
        ('rela', secidx, n, field) and ('group', secidx, n) to (file_offset, size)."""
        user = self._ordered_sections()
        null = Sec('', SHT_NULL, 0, 0, b'', 0, None, None, None, 0)
        symtab = Sec('.symtab', SHT_SYMTAB, 0, 8, b'', 24, None, None, None, 0)
        strtab = Sec('.strtab', SHT_STRTAB, 0, 1, b'', 0, None, None, None, 0)
        shstrtab = Sec('.shstrtab', SHT_STRTAB, 0, 1, b'', 0, None, None, None, 0)
        secs = [null] + user + [symtab, strtab, shstrtab]
        syms = [Sym('', None, 0, 0, STB_LOCAL, STT_NOTYPE, 0, 0)]
        syms += [s for s in self.symbols if s.bind == STB_LOCAL]
        nlocal = len(syms)
        syms += [s for s in self.symbols if s.bind != STB_LOCAL]
        for i, s in enumerate(secs):
            s.index = i
        xindex = None
        if any(isinstance(s.section, Sec) and s.shndx is None and s.section.index is not None
               and s.section.index >= SHN_LORESERVE for s in syms):
            xindex = Sec('.symtab_shndx', SHT_SYMTAB_SHNDX, 0, 4, b'', 4, symtab, None, None, 0)
            secs.insert(-3, xindex)
        for i, s in enumerate(secs):
            s.index = i
        for i, s in enumerate(syms):
            s.index = i

        def ref(v, what):
            if v is None:
                return 0
            if isinstance(v, str) and v == 'symtab':
                return symtab.index
            if isinstance(v, (Sec, Sym)):
                lst = secs if isinstance(v, Sec) else syms
                if v.index is None or v.index >= len(lst) or lst[v.index] is not v:
                    raise ValueError('%s refers to %r, which is not part of this object' % (what, v))
                return v.index
            return v

        # symbol table
        names, symdata, xdata = _Strtab(), bytearray(), bytearray()
        for s in syms:
            real = 0
            if s.shndx is not None:
                shndx = s.shndx
            elif isinstance(s.section, Sec):
                real = ref(s.section, 'symbol %r' % s.name)
                shndx = real if real < SHN_LORESERVE else SHN_XINDEX
            else:
                shndx = {None: SHN_UNDEF, 'abs': SHN_ABS, 'common': SHN_COMMON}[s.section]
            xdata += struct.pack('<I', real if shndx == SHN_XINDEX and s.shndx is None else 0)
            symdata += struct.pack('<IBBHQQ', names.add(s.name), (s.bind << 4 | s.type & 0xf) & 0xff,
                                   s.vis, shndx, s.value & 0xffffffffffffffff, s.size)
        symtab.data, symtab.link, symtab.info = bytes(symdata), strtab, nlocal
        strtab.data = bytes(names.buf)
        if xindex is not None:
            xindex.data = bytes(xdata)
        # generated section bodies
        for s in user:
            if s.type == SHT_RELA and s.relocs:
                s.data = b''.join(struct.pack(
                    '<QQq', off & 0xffffffffffffffff,
                    (ref(sym, s.name) << 32 | rtype & 0xffffffff) & 0xffffffffffffffff, addend)
                    for off, rtype, sym, addend in s.relocs)
            elif s.type == SHT_GROUP and s.members is not None:
                s.data = struct.pack('<%dI' % (1 + len(s.members)), s.group_flags,
                                     *[ref(m, s.name) for m in s.members])
        shnames = _Strtab()
        name_offs = [shnames.add(s.name) for s in secs]
        shstrtab.data = bytes(shnames.buf)
        # file layout: header, section bodies in header-table order, section header table
        out = bytearray(64)
        for s in secs[1:]:
            a = s.align if s.align > 1 and s.align & (s.align - 1) == 0 else 1
            out += bytes(-len(out) % min(a, 4096))
            s.offset = len(out)
            if s.type != SHT_NOBITS:
                out += s.data
        null.offset = 0
        out += bytes(-len(out) % 8)
        shoff, shnum = len(out), len(secs)
        fmap = {('ehdr', f): v for f, v in _EHDR.items()}
        for s, name_off in zip(secs, name_offs):
            size = s.size if s.size is not None else len(s.data)
            link, info = ref(s.link, s.name), ref(s.info, s.name)
            if s is null:                      # extended numbering lives in header 0
                size = shnum if shnum >= SHN_LORESERVE else 0
                link = shstrtab.index if shstrtab.index >= SHN_LORESERVE else 0
            for f, (o, n) in _SHDR.items():
                fmap['shdr', s.index, f] = (len(out) + o, n)
            out += struct.pack('<IIQQQQIIQQ', name_off, s.type, s.flags, s.addr, s.offset, size,
                               link, info, s.align, s.entsize)
            if s.type == SHT_RELA and s.relocs:
                for k in range(len(s.relocs)):
                    for f, (o, n) in _RELA.items():
                        fmap['rela', s.index, k, f] = (s.offset + 24 * k + o, n)
            elif s.type == SHT_GROUP and s.members is not None:
                for k in range(len(s.members) + 1):
                    fmap['group', s.index, k] = (s.offset + 4 * k, 4)
        for sym in syms:
            for f, (o, n) in _SYM.items():
                fmap['sym', sym.index, f] = (symtab.offset + 24 * sym.index + o, n)
        struct.pack_into('<4sBBBBB7sHHIQQQIHHHHHH', out, 0, b'\x7fELF', 2, 1, 1, self.osabi, 0,
                         bytes(7), self.e_type, self.machine, 1, 0, 0, shoff, self.e_flags, 64, 0,
                         0, 64, shnum if shnum < SHN_LORESERVE else 0,
                         shstrtab.index if shstrtab.index < SHN_LORESERVE else SHN_XINDEX)
        for key, value in self.patches:
            key = tuple(k.index if isinstance(k, (Sec, Sym)) else k for k in key)
            if key not in fmap:
                raise KeyError('no such field: %r' % (key,))
            off, n = fmap[key]
            if isinstance(value, int):
                value = (value & (1 << 8 * n) - 1).to_bytes(n, 'little')
            if len(value) != n:
                raise ValueError('field %r takes %d bytes' % (key, n))
            out[off:off + n] = value
        return bytes(out), fmap
