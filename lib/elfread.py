"""Independent ELF64 little-endian reader (x86-64 / AArch64), transcribed from the ELF gABI, the
psABIs, the LSB (eh_frame, symbol versioning) and glibc's lookup algorithm. Stdlib only.
Never raises on a well-formed file; malformed structures raise ElfError."""
import struct
from collections import namedtuple

# --------------------------------------------------------------------------- constants
ET_NONE, ET_REL, ET_EXEC, ET_DYN, ET_CORE = 0, 1, 2, 3, 4
EM_X86_64, EM_AARCH64 = 62, 183
SHN_UNDEF, SHN_LORESERVE, SHN_ABS, SHN_COMMON, SHN_XINDEX = 0, 0xff00, 0xfff1, 0xfff2, 0xffff
PN_XNUM = 0xffff
(SHT_NULL, SHT_PROGBITS, SHT_SYMTAB, SHT_STRTAB, SHT_RELA, SHT_HASH, SHT_DYNAMIC, SHT_NOTE,
 SHT_NOBITS, SHT_REL, SHT_SHLIB, SHT_DYNSYM) = range(12)
SHT_INIT_ARRAY, SHT_FINI_ARRAY, SHT_PREINIT_ARRAY, SHT_GROUP, SHT_SYMTAB_SHNDX, SHT_RELR = \
    14, 15, 16, 17, 18, 19
SHT_CREL = 0x40000014
SHT_GNU_ATTRIBUTES, SHT_GNU_HASH, SHT_GNU_LIBLIST = 0x6ffffff5, 0x6ffffff6, 0x6ffffff7
SHT_GNU_VERDEF, SHT_GNU_VERNEED, SHT_GNU_VERSYM = 0x6ffffffd, 0x6ffffffe, 0x6fffffff
SHT_X86_64_UNWIND = 0x70000001
SHF_WRITE, SHF_ALLOC, SHF_EXECINSTR, SHF_MERGE, SHF_STRINGS = 1, 2, 4, 0x10, 0x20
SHF_INFO_LINK, SHF_LINK_ORDER, SHF_OS_NONCONFORMING, SHF_GROUP, SHF_TLS = \
    0x40, 0x80, 0x100, 0x200, 0x400
SHF_COMPRESSED, SHF_GNU_RETAIN, SHF_EXCLUDE = 0x800, 0x200000, 0x80000000
GRP_COMDAT = 1
PT_NULL, PT_LOAD, PT_DYNAMIC, PT_INTERP, PT_NOTE, PT_SHLIB, PT_PHDR, PT_TLS = range(8)
PT_GNU_EH_FRAME, PT_GNU_STACK, PT_GNU_RELRO, PT_GNU_PROPERTY = \
    0x6474e550, 0x6474e551, 0x6474e552, 0x6474e553
PF_X, PF_W, PF_R = 1, 2, 4
STB_LOCAL, STB_GLOBAL, STB_WEAK, STB_GNU_UNIQUE = 0, 1, 2, 10
(STT_NOTYPE, STT_OBJECT, STT_FUNC, STT_SECTION, STT_FILE, STT_COMMON, STT_TLS) = range(7)
STT_GNU_IFUNC = 10
STV_DEFAULT, STV_INTERNAL, STV_HIDDEN, STV_PROTECTED = range(4)
DT = {
    0: 'NULL', 1: 'NEEDED', 2: 'PLTRELSZ', 3: 'PLTGOT', 4: 'HASH', 5: 'STRTAB', 6: 'SYMTAB',
    7: 'RELA', 8: 'RELASZ', 9: 'RELAENT', 10: 'STRSZ', 11: 'SYMENT', 12: 'INIT', 13: 'FINI',
    14: 'SONAME', 15: 'RPATH', 16: 'SYMBOLIC', 17: 'REL', 18: 'RELSZ', 19: 'RELENT',
    20: 'PLTREL', 21: 'DEBUG', 22: 'TEXTREL', 23: 'JMPREL', 24: 'BIND_NOW', 25: 'INIT_ARRAY',
    26: 'FINI_ARRAY', 27: 'INIT_ARRAYSZ', 28: 'FINI_ARRAYSZ', 29: 'RUNPATH', 30: 'FLAGS',
    32: 'PREINIT_ARRAY', 33: 'PREINIT_ARRAYSZ', 34: 'SYMTAB_SHNDX', 35: 'RELRSZ', 36: 'RELR',
    37: 'RELRENT', 0x6ffffef5: 'GNU_HASH', 0x6ffffff0: 'VERSYM', 0x6ffffff9: 'RELACOUNT',
    0x6ffffffa: 'RELCOUNT', 0x6ffffffb: 'FLAGS_1', 0x6ffffffc: 'VERDEF',
    0x6ffffffd: 'VERDEFNUM', 0x6ffffffe: 'VERNEED', 0x6fffffff: 'VERNEEDNUM',
    0x6ffffef6: 'TLSDESC_PLT', 0x6ffffef7: 'TLSDESC_GOT', 0x70000001: 'AARCH64_BTI_PLT',
    0x70000003: 'AARCH64_PAC_PLT', 0x70000005: 'AARCH64_VARIANT_PCS',
}
for _k, _v in DT.items():
    globals()['DT_' + _v] = _k
DF_ORIGIN, DF_SYMBOLIC, DF_TEXTREL, DF_BIND_NOW, DF_STATIC_TLS = 1, 2, 4, 8, 16
DF_1_NOW, DF_1_PIE = 1, 0x08000000
VER_FLG_BASE, VER_FLG_WEAK = 1, 2
VER_NDX_LOCAL, VER_NDX_GLOBAL = 0, 1
NT_GNU_ABI_TAG, NT_GNU_BUILD_ID, NT_GNU_PROPERTY_TYPE_0 = 1, 3, 5
GNU_PROPERTY_X86_FEATURE_1_AND, GNU_PROPERTY_AARCH64_FEATURE_1_AND = 0xc0000002, 0xc0000000
DW_EH_PE_absptr, DW_EH_PE_uleb128, DW_EH_PE_udata2, DW_EH_PE_udata4, DW_EH_PE_udata8 = 0, 1, 2, 3, 4
DW_EH_PE_sleb128, DW_EH_PE_sdata2, DW_EH_PE_sdata4, DW_EH_PE_sdata8 = 9, 10, 11, 12
DW_EH_PE_pcrel, DW_EH_PE_textrel, DW_EH_PE_datarel, DW_EH_PE_funcrel, DW_EH_PE_aligned = \
    0x10, 0x20, 0x30, 0x40, 0x50
DW_EH_PE_indirect, DW_EH_PE_omit = 0x80, 0xff

R_X86_64 = dict(enumerate(
    'NONE 64 PC32 GOT32 PLT32 COPY GLOB_DAT JUMP_SLOT RELATIVE GOTPCREL 32 32S 16 PC16 8 PC8 '
    'DTPMOD64 DTPOFF64 TPOFF64 TLSGD TLSLD DTPOFF32 GOTTPOFF TPOFF32 PC64 GOTOFF64 GOTPC32 '
    'GOT64 GOTPCREL64 GOTPC64 GOTPLT64 PLTOFF64 SIZE32 SIZE64 GOTPC32_TLSDESC TLSDESC_CALL '
    'TLSDESC IRELATIVE RELATIVE64 39 40 GOTPCRELX REX_GOTPCRELX'.split()))
del R_X86_64[39], R_X86_64[40]
R_X86_64 = {k: 'R_X86_64_' + v for k, v in R_X86_64.items()}
R_AARCH64 = {0: 'NONE', 256: 'NONE'}
for _base, _names in (
    (257, 'ABS64 ABS32 ABS16 PREL64 PREL32 PREL16 MOVW_UABS_G0 MOVW_UABS_G0_NC MOVW_UABS_G1 '
          'MOVW_UABS_G1_NC MOVW_UABS_G2 MOVW_UABS_G2_NC MOVW_UABS_G3 MOVW_SABS_G0 MOVW_SABS_G1 '
          'MOVW_SABS_G2 LD_PREL_LO19 ADR_PREL_LO21 ADR_PREL_PG_HI21 ADR_PREL_PG_HI21_NC '
          'ADD_ABS_LO12_NC LDST8_ABS_LO12_NC TSTBR14 CONDBR19 281 JUMP26 CALL26 '
          'LDST16_ABS_LO12_NC LDST32_ABS_LO12_NC LDST64_ABS_LO12_NC MOVW_PREL_G0 MOVW_PREL_G0_NC '
          'MOVW_PREL_G1 MOVW_PREL_G1_NC MOVW_PREL_G2 MOVW_PREL_G2_NC MOVW_PREL_G3 294 295 296 297 '
          '298 LDST128_ABS_LO12_NC MOVW_GOTOFF_G0 MOVW_GOTOFF_G0_NC MOVW_GOTOFF_G1 '
          'MOVW_GOTOFF_G1_NC MOVW_GOTOFF_G2 MOVW_GOTOFF_G2_NC MOVW_GOTOFF_G3 GOTREL64 GOTREL32 '
          'GOT_LD_PREL19 LD64_GOTOFF_LO15 ADR_GOT_PAGE LD64_GOT_LO12_NC LD64_GOTPAGE_LO15 PLT32'),
    (512, 'TLSGD_ADR_PREL21 TLSGD_ADR_PAGE21 TLSGD_ADD_LO12_NC TLSGD_MOVW_G1 TLSGD_MOVW_G0_NC '
          'TLSLD_ADR_PREL21 TLSLD_ADR_PAGE21 TLSLD_ADD_LO12_NC TLSLD_MOVW_G1 TLSLD_MOVW_G0_NC '
          'TLSLD_LD_PREL19 TLSLD_MOVW_DTPREL_G2 TLSLD_MOVW_DTPREL_G1 TLSLD_MOVW_DTPREL_G1_NC '
          'TLSLD_MOVW_DTPREL_G0 TLSLD_MOVW_DTPREL_G0_NC TLSLD_ADD_DTPREL_HI12 '
          'TLSLD_ADD_DTPREL_LO12 TLSLD_ADD_DTPREL_LO12_NC TLSLD_LDST8_DTPREL_LO12 '
          'TLSLD_LDST8_DTPREL_LO12_NC TLSLD_LDST16_DTPREL_LO12 TLSLD_LDST16_DTPREL_LO12_NC '
          'TLSLD_LDST32_DTPREL_LO12 TLSLD_LDST32_DTPREL_LO12_NC TLSLD_LDST64_DTPREL_LO12 '
          'TLSLD_LDST64_DTPREL_LO12_NC TLSIE_MOVW_GOTTPREL_G1 TLSIE_MOVW_GOTTPREL_G0_NC '
          'TLSIE_ADR_GOTTPREL_PAGE21 TLSIE_LD64_GOTTPREL_LO12_NC TLSIE_LD_GOTTPREL_PREL19 '
          'TLSLE_MOVW_TPREL_G2 TLSLE_MOVW_TPREL_G1 TLSLE_MOVW_TPREL_G1_NC TLSLE_MOVW_TPREL_G0 '
          'TLSLE_MOVW_TPREL_G0_NC TLSLE_ADD_TPREL_HI12 TLSLE_ADD_TPREL_LO12 '
          'TLSLE_ADD_TPREL_LO12_NC TLSLE_LDST8_TPREL_LO12 TLSLE_LDST8_TPREL_LO12_NC '
          'TLSLE_LDST16_TPREL_LO12 TLSLE_LDST16_TPREL_LO12_NC TLSLE_LDST32_TPREL_LO12 '
          'TLSLE_LDST32_TPREL_LO12_NC TLSLE_LDST64_TPREL_LO12 TLSLE_LDST64_TPREL_LO12_NC '
          'TLSDESC_LD_PREL19 TLSDESC_ADR_PREL21 TLSDESC_ADR_PAGE21 TLSDESC_LD64_LO12 '
          'TLSDESC_ADD_LO12 TLSDESC_OFF_G1 TLSDESC_OFF_G0_NC TLSDESC_LDR TLSDESC_ADD TLSDESC_CALL '
          'TLSLE_LDST128_TPREL_LO12 TLSLE_LDST128_TPREL_LO12_NC TLSLD_LDST128_DTPREL_LO12 '
          'TLSLD_LDST128_DTPREL_LO12_NC'),
    (1024, 'COPY GLOB_DAT JUMP_SLOT RELATIVE TLS_DTPMOD TLS_DTPREL TLS_TPREL TLSDESC IRELATIVE'),
):
    for _i, _n in enumerate(_names.split()):
        if not _n.isdigit():
            R_AARCH64[_base + _i] = _n
R_AARCH64 = {k: 'R_AARCH64_' + v for k, v in R_AARCH64.items()}


class ElfError(Exception):
    pass


Symbol = namedtuple('Symbol', 'index name value size bind type visibility shndx version '
                    'version_hidden other', defaults=(None, False, 0))
Reloc = namedtuple('Reloc', 'section_name target_section_index offset type sym_index sym_name '
                   'addend')
GnuHash = namedtuple('GnuHash', 'nbuckets symoffset bloom_size bloom_shift bloom buckets chains')
SysvHash = namedtuple('SysvHash', 'nbucket nchain buckets chains')
CIE = namedtuple('CIE', 'offset vaddr version augmentation code_align data_align ra_reg '
                 'fde_encoding lsda_encoding personality length instructions personality_encoding')
FDE = namedtuple('FDE', 'offset vaddr cie_offset pc_begin pc_range lsda length cie instructions')
EhFrameHdr = namedtuple('EhFrameHdr', 'version eh_frame_ptr fde_count table')


class Section:
    FIELDS = ('sh_name', 'sh_type', 'sh_flags', 'sh_addr', 'sh_offset', 'sh_size', 'sh_link',
              'sh_info', 'sh_addralign', 'sh_entsize')

    def __init__(self, elf, index, vals):
        self._elf, self.index, self.name = elf, index, ''
        for f, v in zip(self.FIELDS, vals):
            setattr(self, f, v)

    @property
    def data(self):
        if self.sh_type == SHT_NOBITS or self.sh_type == SHT_NULL:
            return b''
        return self._elf._slice(self.sh_offset, self.sh_size, 'section %d data' % self.index)

    def __repr__(self):
        return 'Section(%d, %r, type=%#x, addr=%#x, off=%#x, size=%#x)' % (
            self.index, self.name, self.sh_type, self.sh_addr, self.sh_offset, self.sh_size)


class Segment:
    FIELDS = ('p_type', 'p_flags', 'p_offset', 'p_vaddr', 'p_paddr', 'p_filesz', 'p_memsz',
              'p_align')

    def __init__(self, elf, index, vals):
        self._elf, self.index = elf, index
        for f, v in zip(self.FIELDS, vals):
            setattr(self, f, v)

    @property
    def data(self):
        return self._elf._slice(self.p_offset, self.p_filesz, 'segment %d data' % self.index)

    def __repr__(self):
        return 'Segment(%d, type=%#x, flags=%d, off=%#x, vaddr=%#x, filesz=%#x, memsz=%#x)' % (
            self.index, self.p_type, self.p_flags, self.p_offset, self.p_vaddr, self.p_filesz,
            self.p_memsz)


def _cstr(buf, off, what='string'):
    if off < 0 or off > len(buf):
        raise ElfError('%s offset %#x outside table of size %#x' % (what, off, len(buf)))
    end = buf.find(b'\0', off)
    if end < 0:
        raise ElfError('%s at %#x is not NUL-terminated' % (what, off))
    return buf[off:end].decode('utf-8', 'surrogateescape')


def uleb(buf, pos):
    r = shift = 0
    while True:
        if pos >= len(buf):
            raise ElfError('truncated ULEB128')
        b = buf[pos]
        pos += 1
        r |= (b & 0x7f) << shift
        shift += 7
        if not b & 0x80:
            return r, pos


def sleb(buf, pos):
    r = shift = 0
    while True:
        if pos >= len(buf):
            raise ElfError('truncated SLEB128')
        b = buf[pos]
        pos += 1
        r |= (b & 0x7f) << shift
        shift += 7
        if not b & 0x80:
            if b & 0x40:
                r -= 1 << shift
            return r, pos


def dl_new_hash(name):
    """GNU hash (glibc dl_new_hash): h = 5381; h = h*33 + c."""
    if isinstance(name, str):
        name = name.encode('utf-8', 'surrogateescape')
    h = 5381
    for c in name:
        h = (h * 33 + c) & 0xffffffff
    return h


def elf_hash(name):
    """SysV hash from the gABI (with the 32-bit truncation glibc's _dl_elf_hash applies)."""
    if isinstance(name, str):
        name = name.encode('utf-8', 'surrogateescape')
    h = 0
    for c in name:
        h = ((h << 4) + c) & 0xffffffff
        g = h & 0xf0000000
        if g:
            h ^= g >> 24
        h &= ~g & 0xffffffff
    return h


def _memo(fn):
    def wrapper(self, *args):
        key = (fn.__name__,) + args
        if key not in self._cache:
            self._cache[key] = fn(self, *args)
        return self._cache[key]
    wrapper.__doc__, wrapper.__name__ = fn.__doc__, fn.__name__
    return wrapper


def _bytes(name):
    return name.encode('utf-8', 'surrogateescape') if isinstance(name, str) else bytes(name)


class Elf:
    def __init__(self, path=None, data=None):
        if data is None:
            with open(path, 'rb') as f:
                data = f.read()
        self.path, self.data = path, bytes(data)
        self._cache = {}
        self._parse_header()
        self._parse_sections()
        self._parse_segments()

    # ----------------------------------------------------------------------- low level
    def _slice(self, off, size, what):
        if off < 0 or size < 0 or off + size > len(self.data):
            raise ElfError('%s: range %#x+%#x exceeds file size %#x' % (what, off, size,
                                                                      len(self.data)))
        return self.data[off:off + size]

    def _unpack(self, fmt, off, what):
        return struct.unpack('<' + fmt, self._slice(off, struct.calcsize('<' + fmt), what))

    def _parse_header(self):
        d = self.data
        if len(d) < 64:
            raise ElfError('file too small for an ELF64 header (%d bytes)' % len(d))
        if d[:4] != b'\x7fELF':
            raise ElfError('bad ELF magic')
        if d[4] != 2:
            raise ElfError('not ELFCLASS64 (EI_CLASS=%d)' % d[4])
        if d[5] != 1:
            raise ElfError('not ELFDATA2LSB (EI_DATA=%d)' % d[5])
        self.e_ident = d[:16]
        self.ei_osabi, self.ei_abiversion = d[7], d[8]
        (self.e_type, self.e_machine, self.e_version, self.e_entry, self.e_phoff, self.e_shoff,
         self.e_flags, self.e_ehsize, self.e_phentsize, self.e_phnum, self.e_shentsize,
         self.e_shnum, self.e_shstrndx) = struct.unpack_from('<HHIQQQIHHHHHH', d, 16)
        self.e_phnum_raw, self.e_shnum_raw, self.e_shstrndx_raw = \
            self.e_phnum, self.e_shnum, self.e_shstrndx
        if self.e_shoff and (self.e_shnum == 0 or self.e_shstrndx == SHN_XINDEX
                             or self.e_phnum == PN_XNUM):
            if self.e_shentsize != 64:
                raise ElfError('e_shentsize is %d, expected 64' % self.e_shentsize)
            s0 = self._unpack('IIQQQQIIQQ', self.e_shoff, 'section header 0')
            if self.e_shnum == 0:
                self.e_shnum = s0[5]
            if self.e_shstrndx == SHN_XINDEX:
                self.e_shstrndx = s0[6]
            if self.e_phnum == PN_XNUM:
                self.e_phnum = s0[7]

    def _parse_sections(self):
        self.sections = []
        if not self.e_shoff or not self.e_shnum:
            return
        if self.e_shentsize != 64:
            raise ElfError('e_shentsize is %d, expected 64' % self.e_shentsize)
        tab = self._slice(self.e_shoff, self.e_shnum * 64, 'section header table')
        for i in range(self.e_shnum):
            self.sections.append(Section(self, i, struct.unpack_from('<IIQQQQIIQQ', tab, i * 64)))
        if self.e_shstrndx != SHN_UNDEF:
            if self.e_shstrndx >= self.e_shnum:
                raise ElfError('e_shstrndx %d out of range (%d sections)' % (self.e_shstrndx,
                                                                            self.e_shnum))
            strs = self.sections[self.e_shstrndx]
            if strs.sh_type != SHT_STRTAB:
                raise ElfError('e_shstrndx section has type %#x, not SHT_STRTAB' % strs.sh_type)
            strs = strs.data
            for s in self.sections:
                s.name = _cstr(strs, s.sh_name, 'section %d name' % s.index)

    def _parse_segments(self):
        self.segments = []
        if not self.e_phoff or not self.e_phnum:
            return
        if self.e_phentsize != 56:
            raise ElfError('e_phentsize is %d, expected 56' % self.e_phentsize)
        tab = self._slice(self.e_phoff, self.e_phnum * 56, 'program header table')
        for i in range(self.e_phnum):
            t, fl, off, va, pa, fs, ms, al = struct.unpack_from('<IIQQQQQQ', tab, i * 56)
            self.segments.append(Segment(self, i, (t, fl, off, va, pa, fs, ms, al)))

    def section(self, name):
        for s in self.sections:
            if s.name == name:
                return s
        return None

    def sections_named(self, name):
        return [s for s in self.sections if s.name == name]

    def _sec(self, idx, what):
        if not 0 <= idx < len(self.sections):
            raise ElfError('%s: section index %d out of range' % (what, idx))
        return self.sections[idx]

    def _sec_of_type(self, sh_type):
        for s in self.sections:
            if s.sh_type == sh_type:
                return s
        return None

    # ----------------------------------------------------------------------- load image
    def vaddr_to_offset(self, vaddr):
        for p in self.segments:
            if p.p_type == PT_LOAD and p.p_vaddr <= vaddr < p.p_vaddr + p.p_filesz:
                return p.p_offset + (vaddr - p.p_vaddr)
        return None

    def read_vaddr(self, vaddr, n):
        out = bytearray()
        while n > 0:
            for p in self.segments:
                if p.p_type == PT_LOAD and p.p_vaddr <= vaddr < p.p_vaddr + p.p_memsz:
                    break
            else:
                raise ElfError('address %#x is not inside any PT_LOAD' % vaddr)
            rel = vaddr - p.p_vaddr
            take = min(n, p.p_memsz - rel)
            nfile = max(0, min(take, p.p_filesz - rel))
            if nfile:
                out += self._slice(p.p_offset + rel, nfile, 'PT_LOAD %d contents' % p.index)
            out += bytes(take - nfile)
            vaddr += take
            n -= take
        return bytes(out)

    def read_u64(self, vaddr):
        return struct.unpack('<Q', self.read_vaddr(vaddr, 8))[0]

    def read_u32(self, vaddr):
        return struct.unpack('<I', self.read_vaddr(vaddr, 4))[0]

    def read_cstr(self, vaddr):
        out = bytearray()
        while True:
            for p in self.segments:
                if p.p_type == PT_LOAD and p.p_vaddr <= vaddr < p.p_vaddr + p.p_memsz:
                    break
            else:
                raise ElfError('string at %#x runs outside any PT_LOAD' % vaddr)
            chunk = self.read_vaddr(vaddr, min(p.p_vaddr + p.p_memsz - vaddr, 1 << 16))
            end = chunk.find(b'\0')
            if end >= 0:
                return (bytes(out) + chunk[:end]).decode('utf-8', 'surrogateescape')
            out += chunk
            vaddr += len(chunk)

    # ----------------------------------------------------------------------- dynamic
    @_memo
    def dynamic(self):
        """[(tag, value)] up to (excluding) the first DT_NULL; PT_DYNAMIC first, else .dynamic."""
        for p in self.segments:      # (a debug-only file keeps the header but not the contents)
            if p.p_type == PT_DYNAMIC and p.p_offset + p.p_filesz <= len(self.data):
                raw = p.data
                break
        else:
            s = self._sec_of_type(SHT_DYNAMIC)
            if s is None:
                return []
            raw = s.data
        out = []
        for i in range(len(raw) // 16):
            tag, val = struct.unpack_from('<qQ', raw, i * 16)
            if tag == DT_NULL:
                break
            out.append((tag, val))
        return out

    def dynamic_dict(self):
        """tag -> value (first occurrence); use dynamic() for repeated tags like DT_NEEDED."""
        d = {}
        for t, v in self.dynamic():
            d.setdefault(t, v)
        return d

    def _dynstr(self, off):
        dd = self.dynamic_dict()
        if DT_STRTAB not in dd:
            raise ElfError('dynamic section has no DT_STRTAB')
        if DT_STRSZ in dd and off >= dd[DT_STRSZ]:
            raise ElfError('dynamic string offset %#x >= DT_STRSZ %#x' % (off, dd[DT_STRSZ]))
        return self.read_cstr(dd[DT_STRTAB] + off)

    def needed(self):
        return [self._dynstr(v) for t, v in self.dynamic() if t == DT_NEEDED]

    def _dynstr_tag(self, tag):
        dd = self.dynamic_dict()
        return self._dynstr(dd[tag]) if tag in dd else None

    def soname(self):
        return self._dynstr_tag(DT_SONAME)

    def runpath(self):
        return self._dynstr_tag(DT_RUNPATH)

    def rpath(self):
        return self._dynstr_tag(DT_RPATH)

    def _dyn_table(self, addr_tag, size_tag, entsize, what):
        dd = self.dynamic_dict()
        if addr_tag not in dd or size_tag not in dd:
            return b''
        size = dd[size_tag]
        if size % entsize:
            raise ElfError('%s size %#x is not a multiple of %d' % (what, size, entsize))
        off = self.vaddr_to_offset(dd[addr_tag])
        if off is None:
            if size == 0:
                return b''
            raise ElfError('%s address %#x is not file-backed' % (what, dd[addr_tag]))
        return self._slice(off, size, what)

    def dyn_relocs(self):
        dd = self.dynamic_dict()
        out = {}
        for key, at, st in (('rela', DT_RELA, DT_RELASZ), ('jmprel', DT_JMPREL, DT_PLTRELSZ)):
            is_rel = key == 'jmprel' and dd.get(DT_PLTREL, DT_RELA) == DT_REL
            ent = 16 if is_rel else 24
            raw = self._dyn_table(at, st, ent, 'DT_' + DT[at])
            lst = []
            for i in range(len(raw) // ent):
                if is_rel:
                    o, info = struct.unpack_from('<QQ', raw, i * ent)
                    a = None
                else:
                    o, info, a = struct.unpack_from('<QQq', raw, i * ent)
                lst.append((o, info & 0xffffffff, info >> 32, a))
            out[key] = lst
        raw = self._dyn_table(DT_REL, DT_RELSZ, 16, 'DT_REL')
        out['rel'] = [(o, info & 0xffffffff, info >> 32, None)
                      for o, info in struct.iter_unpack('<QQ', raw)]
        out['relr'] = decode_relr(self.relr_raw())
        return out

    def relr_raw(self):
        raw = self._dyn_table(DT_RELR, DT_RELRSZ, 8, 'DT_RELR')
        return [v for (v,) in struct.iter_unpack('<Q', raw)]

    # ----------------------------------------------------------------------- symbols
    def _symtab_section(self, which):
        if isinstance(which, Section):
            return which
        want ={'.symtab': SHT_SYMTAB, '.dynsym': SHT_DYNSYM}.get(which)
        for s in self.sections:
            if s.name == which and (want is None or s.sh_type == want):
                return s
        return self._sec_of_type(want) if want is not None else None

    def _raw_symbols(self, which):
        """-> list of (st_name, st_info, st_other, st_shndx, st_value, st_size), strtab bytes or
        None (None => names come through DT_STRTAB), symtab section or None."""
        s = self._symtab_section(which)
        if s is not None:
            if s.sh_entsize != 24:
                raise ElfError('%s: sh_entsize %d, expected 24' % (s.name, s.sh_entsize))
            if s.sh_size % 24:
                raise ElfError('%s: size %#x not a multiple of 24' % (s.name, s.sh_size))
            strs = self._sec(s.sh_link, s.name + ' sh_link')
            if strs.sh_type != SHT_STRTAB:
                raise ElfError('%s: sh_link section is not a string table' % s.name)
            return list(struct.iter_unpack('<IBBHQQ', s.data)), strs.data, s
        if which != '.dynsym' or DT_SYMTAB not in self.dynamic_dict():
            return [], b'', None
        dd = self.dynamic_dict()
        if dd.get(DT_SYMENT, 24) != 24:
            raise ElfError('DT_SYMENT is %d, expected 24' % dd[DT_SYMENT])
        n = self._dynsym_count()
        off = self.vaddr_to_offset(dd[DT_SYMTAB])
        if off is None:
            raise ElfError('DT_SYMTAB address %#x is not file-backed' % dd[DT_SYMTAB])
        raw = self._slice(off, n * 24, 'dynamic symbol table')
        return list(struct.iter_unpack('<IBBHQQ', raw)), None, None

    def _dynsym_count(self):
        """Number of dynamic symbols when there are no section headers (as a loader would know)."""
        dd = self.dynamic_dict()
        if DT_HASH in dd:
            return self.sysv_hash().nchain
        n = 1
        if DT_GNU_HASH in dd:
            g = self.gnu_hash()
            n = g.symoffset + len(g.chains)
        # DT_GNU_HASH does not cover trailing unhashed (undefined) symbols when nothing at all is
        # hashed; the dynamic relocations are the only other reference to them.
        rel = self.dyn_relocs()
        return max([n] + [r[2] + 1 for k in ('rela', 'jmprel', 'rel') for r in rel[k]])

    def symbols(self, which='.symtab'):
        """which: '.symtab', '.dynsym' (falls back to DT_SYMTAB without section headers) or a
        Section object of type SHT_SYMTAB / SHT_DYNSYM."""
        sec = self._symtab_section(which)
        return self._symbols(sec if sec is not None else which)

    @_memo
    def _symbols(self, which):
        raw, strs, sec = self._raw_symbols(which)
        xindex = None
        if sec is not None:
            for s in self.sections:
                if s.sh_type == SHT_SYMTAB_SHNDX and s.sh_link == sec.index:
                    xindex = s.data
        is_dyn = which == '.dynsym' or (sec is not None and sec.sh_type == SHT_DYNSYM)
        versym = vernames = None
        if is_dyn:
            versym = self.versym()
            if versym:
                if len(versym) < len(raw):
                    raise ElfError('.gnu.version has %d entries for %d dynamic symbols'
                                   % (len(versym), len(raw)))
                vernames = self._version_names()
        out = []
        for i, (st_name, info, other, shndx, value, size) in enumerate(raw):
            if strs is None:
                name = self._dynstr(st_name)
            else:
                name = _cstr(strs, st_name, '%s symbol %d name' % (which, i))
            if shndx == SHN_XINDEX:
                if xindex is None or (i + 1) * 4 > len(xindex):
                    raise ElfError('symbol %d has SHN_XINDEX but no SYMTAB_SHNDX entry' % i)
                shndx = struct.unpack_from('<I', xindex, i * 4)[0]
            ver, hidden = None, False
            if versym:
                v = versym[i]
                hidden = bool(v & 0x8000)
                v &= 0x7fff
                if v > VER_NDX_GLOBAL:
                    # An undefined symbol refers to verneed first, a defined one to verdef.
                    order = ('need', 'def') if shndx == SHN_UNDEF else ('def', 'need')
                    for kind in order:
                        if v in vernames[kind]:
                            ver = vernames[kind][v]
                            break
                    else:
                        raise ElfError('dynamic symbol %d (%s) has undefined version index %d'
                                       % (i, name, v))
            out.append(Symbol(i, name, value, size, info >> 4, info & 0xf, other & 3, shndx, ver,
                              hidden, other))
        return out

    # ----------------------------------------------------------------------- versions
    def _ver_region(self, sh_type, addr_tag, num_tag, what):
        """-> (bytes, count, string getter) for .gnu.version_d / .gnu.version_r."""
        s = self._sec_of_type(sh_type)
        if s is not None:
            strs = self._sec(s.sh_link, what + ' sh_link').data
            return s.data, s.sh_info, lambda o: _cstr(strs, o, what + ' string')
        dd = self.dynamic_dict()
        if addr_tag not in dd:
            return b'', 0, None
        off = self.vaddr_to_offset(dd[addr_tag])
        if off is None:
            raise ElfError('%s address %#x is not file-backed' % (what, dd[addr_tag]))
        return self.data[off:], dd.get(num_tag, 0), self._dynstr

    @_memo
    def verdefs(self):
        """[(index, flags, name, [parent names])]"""
        raw, count, getstr = self._ver_region(SHT_GNU_VERDEF, DT_VERDEF, DT_VERDEFNUM, 'verdef')
        out, pos = [], 0
        for _ in range(count):
            if pos + 20 > len(raw):
                raise ElfError('verdef entry at %#x truncated' % pos)
            ver, flags, ndx, cnt, _h, aux, nxt = struct.unpack_from('<HHHHIII', raw, pos)
            if ver != 1:
                raise ElfError('verdef entry at %#x has vd_version %d' % (pos, ver))
            names, apos = [], pos + aux
            for _ in range(cnt):
                if apos + 8 > len(raw):
                    raise ElfError('verdaux entry at %#x truncated' % apos)
                vda_name, vda_next = struct.unpack_from('<II', raw, apos)
                names.append(getstr(vda_name))
                if not vda_next:
                    break
                apos += vda_next
            if not names:
                raise ElfError('verdef entry at %#x has no name' % pos)
            out.append((ndx, flags, names[0], names[1:]))
            if not nxt:
                break
            pos += nxt
        return out

    @_memo
    def verneeds(self):
        """[(file, [(index, name, flags)])]"""
        raw, count, getstr = self._ver_region(SHT_GNU_VERNEED, DT_VERNEED, DT_VERNEEDNUM,
                                              'verneed')
        out, pos = [], 0
        for _ in range(count):
            if pos + 16 > len(raw):
                raise ElfError('verneed entry at %#x truncated' % pos)
            ver, cnt, vfile, aux, nxt = struct.unpack_from('<HHIII', raw, pos)
            if ver != 1:
                raise ElfError('verneed entry at %#x has vn_version %d' % (pos, ver))
            items, apos = [], pos + aux
            for _ in range(cnt):
                if apos + 16 > len(raw):
                    raise ElfError('vernaux entry at %#x truncated' % apos)
                _h, flags, other, vna_name, vna_next = struct.unpack_from('<IHHII', raw, apos)
                items.append((other, getstr(vna_name), flags))
                if not vna_next:
                    break
                apos += vna_next
            out.append((getstr(vfile), items))
            if not nxt:
                break
            pos += nxt
        return out

    @_memo
    def versym(self):
        """Raw u16 per dynamic symbol ([] when the file has no version table)."""
        s = self._sec_of_type(SHT_GNU_VERSYM)
        if s is not None:
            raw = s.data
        else:
            dd = self.dynamic_dict()
            if DT_VERSYM not in dd:
                return []
            off = self.vaddr_to_offset(dd[DT_VERSYM])
            if off is None:
                raise ElfError('DT_VERSYM address %#x is not file-backed' % dd[DT_VERSYM])
            raw = self._slice(off, self._dynsym_count() * 2, 'version symbol table')
        return [v for (v,) in struct.iter_unpack('<H', raw[:len(raw) & ~1])]

    def _version_names(self):
        d = {'def': {}, 'need': {}}
        for ndx, flags, name, _parents in self.verdefs():
            d['def'].setdefault(ndx & 0x7fff, name)
        for _file, items in self.verneeds():
            for other, name, _flags in items:
                d['need'].setdefault(other & 0x7fff, name)
        return d

    # ----------------------------------------------------------------------- relocations
    @_memo
    def relocations(self):
        """Every SHT_RELA / SHT_REL (addend None) / SHT_CREL section, in section order. sym_name
        is the section's name for an unnamed STT_SECTION symbol."""
        out = []
        symcache = {}
        for s in self.sections:
            if s.sh_type not in (SHT_RELA, SHT_REL, SHT_CREL):
                continue
            if s.sh_link not in symcache:
                syms = []
                if s.sh_link:      # sh_link 0: no symbol table (e.g. static-pie .rela.dyn)
                    st = self._sec(s.sh_link, s.name + ' sh_link')
                    if st.sh_type not in (SHT_SYMTAB, SHT_DYNSYM):
                        raise ElfError('%s: sh_link %d is not a symbol table' % (s.name, s.sh_link))
                    syms = self.symbols(st)
                symcache[s.sh_link] = syms
            syms = symcache[s.sh_link]
            if s.sh_type == SHT_CREL:
                entries = decode_crel(s.data)
            else:
                ent = 24 if s.sh_type == SHT_RELA else 16
                if s.sh_entsize != ent:
                    raise ElfError('%s: sh_entsize %d, expected %d' % (s.name, s.sh_entsize, ent))
                if s.sh_size % ent:
                    raise ElfError('%s: size %#x not a multiple of %d' % (s.name, s.sh_size, ent))
                if ent == 24:
                    entries = struct.iter_unpack('<QQq', s.data)
                else:
                    entries = ((o, i, None) for o, i in struct.iter_unpack('<QQ', s.data))
                entries = [(o, i & 0xffffffff, i >> 32, a) for o, i, a in entries]
            for off, rtype, symidx, addend in entries:
                name = None
                if symidx < len(syms):
                    sym = syms[symidx]
                    name = sym.name
                    if not name and sym.type == STT_SECTION and sym.shndx < len(self.sections):
                        name = self.sections[sym.shndx].name
                elif syms:
                    raise ElfError('%s: symbol index %d out of range' % (s.name, symidx))
                out.append(Reloc(s.name, s.sh_info, off, rtype, symidx, name, addend))
        return out

    def reloc_name(self, rtype):
        tab = {EM_X86_64: R_X86_64, EM_AARCH64: R_AARCH64}.get(self.e_machine, {})
        return tab.get(rtype, 'R_%d' % rtype)

    def pointer_array(self, section_name):
        s = self.section(section_name)
        if s is None:
            return []
        if s.sh_size % 8:
            raise ElfError('%s: size %#x not a multiple of 8' % (section_name, s.sh_size))
        return [v for (v,) in struct.iter_unpack('<Q', s.data)]

    # ----------------------------------------------------------------------- hash tables
    def _u32s(self, vaddr, n, what):
        off = self.vaddr_to_offset(vaddr)
        if off is None:
            raise ElfError('%s at %#x is not file-backed' % (what, vaddr))
        return list(struct.unpack('<%dI' % n, self._slice(off, 4 * n, what)))

    @_memo
    def gnu_hash(self):
        dd = self.dynamic_dict()
        if DT_GNU_HASH not in dd:
            return None
        base = dd[DT_GNU_HASH]
        nbuckets, symoffset, bloom_size, bloom_shift = self._u32s(base, 4, 'DT_GNU_HASH header')
        boff = self.vaddr_to_offset(base + 16)
        if boff is None:
            raise ElfError('DT_GNU_HASH bloom filter is not file-backed')
        bloom = list(struct.unpack('<%dQ' % bloom_size,
                                   self._slice(boff, 8 * bloom_size, 'DT_GNU_HASH bloom filter')))
        buckets = self._u32s(base + 16 + 8 * bloom_size, nbuckets, 'DT_GNU_HASH buckets') \
            if nbuckets else []
        cbase = base + 16 + 8 * bloom_size + 4 * nbuckets
        # The chain array has no stored length: it ends with the chain of the highest bucket.
        chains, top = [], max(buckets, default=0)
        if top:
            if top < symoffset:
                raise ElfError('DT_GNU_HASH bucket value %d below symoffset %d' % (top, symoffset))
            chains = self._u32s(cbase, top - symoffset + 1, 'DT_GNU_HASH chains')
            while not chains[-1] & 1:
                chains += self._u32s(cbase + 4 * len(chains), 1, 'DT_GNU_HASH chains')
        return GnuHash(nbuckets, symoffset, bloom_size, bloom_shift, bloom, buckets, chains)

    @_memo
    def sysv_hash(self):
        dd = self.dynamic_dict()
        if DT_HASH not in dd:
            return None
        nbucket, nchain = self._u32s(dd[DT_HASH], 2, 'DT_HASH header')
        words = self._u32s(dd[DT_HASH] + 8, nbucket + nchain, 'DT_HASH arrays')
        return SysvHash(nbucket, nchain, words[:nbucket], words[nbucket:])

    def _dynsym_at(self, idx):
        """(name bytes, st_shndx, st_info, st_value) of dynamic symbol idx through DT_SYMTAB/DT_STRTAB,
        the way the dynamic loader reads it."""
        dd = self.dynamic_dict()
        if DT_SYMTAB not in dd:
            raise ElfError('dynamic section has no DT_SYMTAB')
        st_name, info, _other, shndx, value, _size = struct.unpack(
            '<IBBHQQ', self.read_vaddr(dd[DT_SYMTAB] + 24 * idx, 24))
        return _bytes(self._dynstr(st_name)), shndx, info, value

    def _match(self, idx, name, defined_only):
        sname, shndx, info, value = self._dynsym_at(idx)
        if defined_only:
            # glibc check_match: skip undefined symbols and zero-valued non-ABS non-TLS ones.
            if shndx == SHN_UNDEF or (value == 0 and shndx != SHN_ABS and info & 0xf != STT_TLS):
                return False
        return sname == name

    def gnu_lookup(self, name, defined_only=True):
        """glibc do_lookup_x, DT_GNU_HASH branch. -> dynsym index or None."""
        g = self.gnu_hash()
        if g is None:
            return None
        if g.nbuckets == 0 or g.bloom_size == 0 or g.bloom_size & (g.bloom_size - 1):
            raise ElfError('DT_GNU_HASH unusable: nbuckets=%d bloom_size=%d'
                           % (g.nbuckets, g.bloom_size))
        name = _bytes(name)
        h = dl_new_hash(name)
        word = g.bloom[(h // 64) & (g.bloom_size - 1)]
        bit1, bit2 = h & 63, (h >> g.bloom_shift) & 63
        if not (word >> bit1) & (word >> bit2) & 1:
            return None
        idx = g.buckets[h % g.nbuckets]
        if idx == 0:
            return None
        if idx < g.symoffset:
            raise ElfError('DT_GNU_HASH bucket value %d below symoffset %d' % (idx, g.symoffset))
        while True:
            if idx - g.symoffset >= len(g.chains):
                raise ElfError('DT_GNU_HASH chain for %r runs past the end of the table' % name)
            c = g.chains[idx - g.symoffset]
            if (c ^ h) >> 1 == 0 and self._match(idx, name, defined_only):
                return idx
            if c & 1:
                return None
            idx += 1

    def sysv_lookup(self, name, defined_only=True):
        """glibc do_lookup_x, DT_HASH branch. -> dynsym index or None."""
        t = self.sysv_hash()
        if t is None:
            return None
        if t.nbucket == 0:
            raise ElfError('DT_HASH has no buckets')
        name = _bytes(name)
        idx, steps = t.buckets[elf_hash(name) % t.nbucket], 0
        while idx != 0:
            if idx >= t.nchain:
                raise ElfError('DT_HASH chain index %d out of range (nchain %d)' % (idx, t.nchain))
            if self._match(idx, name, defined_only):
                return idx
            steps += 1
            if steps > t.nchain:
                raise ElfError('DT_HASH chain for %r is cyclic' % name)
            idx = t.chains[idx]
        return None

    # ----------------------------------------------------------------------- notes
    @_memo
    def notes(self):
        """[(section name or 'PT_NOTE#<i>', owner, type, desc)]; sections if there are any
        SHT_NOTE sections, otherwise the PT_NOTE segments."""
        regions = [(s.name, s.data, s.sh_addralign) for s in self.sections
                   if s.sh_type == SHT_NOTE]
        if not regions:
            regions = [('PT_NOTE#%d' % p.index, p.data, p.p_align) for p in self.segments
                       if p.p_type == PT_NOTE]
        out = []
        for where, raw, align in regions:
            align = 8 if align == 8 else 4
            pos = 0
            while pos < len(raw):
                if pos + 12 > len(raw):
                    raise ElfError('%s: truncated note header at %#x' % (where, pos))
                namesz, descsz, ntype = struct.unpack_from('<III', raw, pos)
                pos += 12
                dpos = pos + namesz + align - 1 & -align    # padding is relative to the note start
                if pos + namesz > len(raw) or dpos + descsz > len(raw):
                    raise ElfError('%s: note at %#x overruns its container' % (where, pos - 12))
                owner = raw[pos:pos + namesz].split(b'\0')[0].decode('utf-8', 'surrogateescape')
                out.append((where, owner, ntype, raw[dpos:dpos + descsz]))
                pos = dpos + (descsz + align - 1 & -align)
        return out

    def gnu_properties(self):
        """[(pr_type, data)] from every NT_GNU_PROPERTY_TYPE_0 note."""
        out = []
        for where, owner, ntype, desc in self.notes():
            if owner != 'GNU' or ntype != NT_GNU_PROPERTY_TYPE_0:
                continue
            pos = 0
            while pos < len(desc):
                if pos + 8 > len(desc):
                    raise ElfError('%s: truncated GNU property header' % where)
                pr_type, datasz = struct.unpack_from('<II', desc, pos)
                if pos + 8 + datasz > len(desc):
                    raise ElfError('%s: GNU property %#x overruns the note' % (where, pr_type))
                out.append((pr_type, desc[pos + 8:pos + 8 + datasz]))
                pos += 8 + (datasz + 7 & -8)
        return out

    def build_id(self):
        """Build-id bytes (use .hex()) or None."""
        for _where, owner, ntype, desc in self.notes():
            if owner == 'GNU' and ntype == NT_GNU_BUILD_ID:
                return desc
        return None

    def interp(self):
        for p in self.segments:
            if p.p_type == PT_INTERP:
                return p.data.split(b'\0')[0].decode('utf-8', 'surrogateescape')
        return None

    # ----------------------------------------------------------------------- exception frames
    def _read_encoded(self, buf, pos, enc, field_vaddr, datarel_base=None, what='pointer'):
        """libgcc read_encoded_value_with_base. -> (value, new pos). Does not dereference
        DW_EH_PE_indirect (the slot usually needs a dynamic relocation first)."""
        if enc == DW_EH_PE_omit:
            return None, pos
        if enc & 0x70 == DW_EH_PE_aligned:
            pad = -(field_vaddr) % 8
            pos, field_vaddr, enc = pos + pad, field_vaddr + pad, DW_EH_PE_absptr
        fmt = enc & 0x0f
        if fmt == DW_EH_PE_uleb128:
            v, end = uleb(buf, pos)
        elif fmt == DW_EH_PE_sleb128:
            v, end = sleb(buf, pos)
        else:
            code = {0: 'Q', 2: 'H', 3: 'I', 4: 'Q', 10: 'h', 11: 'i', 12: 'q'}.get(fmt)
            if code is None:
                raise ElfError('%s: unknown DW_EH_PE format %#x' % (what, enc))
            end = pos + struct.calcsize(code)
            if end > len(buf):
                raise ElfError('%s: truncated encoded value' % what)
            v = struct.unpack_from('<' + code, buf, pos)[0]
        app = enc & 0x70
        if v != 0 and app:
            if app == DW_EH_PE_pcrel:
                v += field_vaddr
            elif app == DW_EH_PE_datarel and datarel_base is not None:
                v += datarel_base
            else:
                raise ElfError('%s: unsupported DW_EH_PE application %#x' % (what, enc))
        return v & 0xffffffffffffffff, end

    def _eh_frame_region(self):
        s = self.section('.eh_frame')
        if s is not None and s.sh_type != SHT_NOBITS:
            return s.sh_addr, s.data
        hdr = self.eh_frame_hdr() if not self.sections else None
        if hdr is None or hdr.eh_frame_ptr is None:
            return None
        for p in self.segments:
            if p.p_type == PT_LOAD and p.p_vaddr <= hdr.eh_frame_ptr < p.p_vaddr + p.p_filesz:
                n = p.p_vaddr + p.p_filesz - hdr.eh_frame_ptr
                return hdr.eh_frame_ptr, self.read_vaddr(hdr.eh_frame_ptr, n)
        raise ElfError('eh_frame_ptr %#x is not file-backed' % hdr.eh_frame_ptr)

    @_memo
    def eh_frame(self):
        """CIE and FDE records of .eh_frame in file order, up to the zero terminator."""
        region = self._eh_frame_region()
        if region is None:
            return []
        base, buf = region
        out, cies, pos = [], {}, 0
        while pos + 4 <= len(buf):
            start = pos
            length = struct.unpack_from('<I', buf, pos)[0]
            pos += 4
            if length == 0:
                if getattr(self, 'eh_frame_skip_zero', False):
                    # caller's choice: zero words between records are decoded through and listed
                    if pos < len(buf):
                        self.eh_frame_zero_words = getattr(self, 'eh_frame_zero_words', []) + [start]
                    continue
                break
            if length == 0xffffffff:
                if pos + 8 > len(buf):
                    raise ElfError('.eh_frame+%#x: truncated extended length' % start)
                length = struct.unpack_from('<Q', buf, pos)[0]
                pos += 8
            end = pos + length
            if end > len(buf) or length < 4:
                raise ElfError('.eh_frame+%#x: record length %#x does not fit' % (start, length))
            idpos = pos
            cid = struct.unpack_from('<I', buf, pos)[0]
            pos += 4
            w = '.eh_frame+%#x' % start
            if cid == 0:
                rec = self._parse_cie(buf, pos, end, start, base, w)
                cies[start] = rec
            else:
                cie = cies.get(idpos - cid)
                if cie is None:
                    raise ElfError('%s: FDE refers to %#x, which is not a preceding CIE'
                                   % (w, idpos - cid))
                fenc = cie.fde_encoding
                pc_begin, pos = self._read_encoded(buf, pos, fenc, base + pos, what=w)
                pc_range, pos = self._read_encoded(buf, pos, fenc & 0x0f, base + pos, what=w)
                lsda = None
                if cie.augmentation.startswith('z'):
                    alen, pos = uleb(buf, pos)
                    if pos + alen > end:
                        raise ElfError('%s: FDE augmentation data overruns the record' % w)
                    if cie.lsda_encoding != DW_EH_PE_omit:
                        lsda, _ = self._read_encoded(buf, pos, cie.lsda_encoding, base + pos,
                                                     what=w)
                    pos += alen
                if pos > end:
                    raise ElfError('%s: FDE fields overrun the record' % w)
                rec = FDE(start, base + start, idpos - cid, pc_begin, pc_range, lsda,
                          end - start, cie, buf[pos:end])
            out.append(rec)
            pos = end
        return out

    def _parse_cie(self, buf, pos, end, start, base, w):
        version = buf[pos]
        pos += 1
        if version not in (1, 3):
            raise ElfError('%s: CIE version %d' % (w, version))
        z = buf.find(b'\0', pos, end)
        if z < 0:
            raise ElfError('%s: unterminated CIE augmentation string' % w)
        aug = buf[pos:z].decode('latin-1')
        pos = z + 1
        if aug.startswith('eh'):
            pos += 8
        code_align, pos = uleb(buf, pos)
        data_align, pos = sleb(buf, pos)
        if version == 1:
            ra_reg, pos = buf[pos], pos + 1
        else:
            ra_reg, pos = uleb(buf, pos)
        fde_enc, lsda_enc, pers, pers_enc = DW_EH_PE_absptr, DW_EH_PE_omit, None, DW_EH_PE_omit
        if aug.startswith('z'):
            alen, pos = uleb(buf, pos)
            aend = pos + alen
            if aend > end:
                raise ElfError('%s: CIE augmentation data overruns the record' % w)
            for ch in aug[1:]:
                if ch == 'R':
                    fde_enc, pos = buf[pos], pos + 1
                elif ch == 'L':
                    lsda_enc, pos = buf[pos], pos + 1
                elif ch == 'P':
                    pers_enc, pos = buf[pos], pos + 1
                    pers, pos = self._read_encoded(buf, pos, pers_enc, base + pos, what=w)
                elif ch not in 'SBG':
                    break
            pos = aend
        if pos > end:
            raise ElfError('%s: CIE fields overrun the record' % w)
        return CIE(start, base + start, version, aug, code_align, data_align, ra_reg, fde_enc,
                   lsda_enc, pers, end - start, buf[pos:end], pers_enc)

    @_memo
    def eh_frame_hdr(self):
        """EhFrameHdr(version, eh_frame_ptr, fde_count, table=[(initial_loc, fde_addr)]) or None."""
        s = self.section('.eh_frame_hdr')
        if s is not None:
            base, buf = s.sh_addr, s.data
        else:
            for p in self.segments:
                if p.p_type == PT_GNU_EH_FRAME:
                    base, buf = p.p_vaddr, p.data
                    break
            else:
                return None
        if len(buf) < 4:
            raise ElfError('.eh_frame_hdr: too small (%d bytes)' % len(buf))
        version, ptr_enc, count_enc, table_enc = buf[:4]
        if version != 1:
            raise ElfError('.eh_frame_hdr: version %d' % version)
        w = '.eh_frame_hdr'
        ptr, pos = self._read_encoded(buf, 4, ptr_enc, base + 4, base, w)
        count, pos = self._read_encoded(buf, pos, count_enc, base + pos, base, w)
        table = []
        if count is not None and table_enc != DW_EH_PE_omit:
            for _ in range(count):
                loc, pos = self._read_encoded(buf, pos, table_enc, base + pos, base, w)
                fde, pos = self._read_encoded(buf, pos, table_enc, base + pos, base, w)
                table.append((loc, fde))
        return EhFrameHdr(version, ptr, count, table)


def decode_relr(entries):
    """Generic-ABI RELR decoding: an even entry is an address; an odd entry is a bitmap for the
    63 words following the last address / bitmap range."""
    out, where = [], None
    for e in entries:
        if e & 1 == 0:
            out.append(e)
            where = e + 8
        else:
            if where is None:
                raise ElfError('RELR bitmap entry %#x precedes any address entry' % e)
            bits, i = e >> 1, 0
            while bits:
                if bits & 1:
                    out.append(where + 8 * i)
                bits >>= 1
                i += 1
            where += 63 * 8
    return out


def decode_crel(buf):
    """SHT_CREL body -> [(offset, type, sym_index, addend or None)] (format of the CREL proposal)."""
    hdr, pos = uleb(buf, 0)
    count, has_addend, shift = hdr >> 3, bool(hdr & 4), hdr & 3
    flagbits = 3 if has_addend else 2
    off = sym = typ = add = 0
    out = []
    for _ in range(count):
        if pos >= len(buf):
            raise ElfError('truncated CREL section')
        b = buf[pos]
        pos += 1
        off += (b & 0x7f) >> flagbits
        if b & 0x80:
            rest, pos = uleb(buf, pos)
            off += rest << (7 - flagbits)
        if b & 1:
            d, pos = sleb(buf, pos)
            sym += d
        if b & 2:
            d, pos = sleb(buf, pos)
            typ += d
        if has_addend and b & 4:
            d, pos = sleb(buf, pos)
            add += d
        out.append(((off << shift) & 0xffffffffffffffff, typ & 0xffffffff, sym & 0xffffffff,
                    add if has_addend else None))
    return out
