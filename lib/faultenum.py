"""E-FAULT: exhaustive fault / crash-point enumeration against the real wild *process*.

Used by C17 (exit status reflects whether the output was written) and C18 (a failed link leaves no
output file produced by that link). One *case* = one real `wild` process run in a fresh directory:

    (program, natural-error scenario | injected fault at a phase point | strace deviation,
     fork / no-fork, threads, write mode, prior state of the output path)

`run_case` performs the run and returns everything both oracles need: the wait status of the
process the caller started (the *parent* in fork mode), snapshots of the output path before the
link, at the moment the started process exited, and after every descendant has gone, and the phase
log of that very run (so whether / where / in which process the fault fired is observed, not
assumed). Nothing is sampled: plans are explicit lists and every member is run.
"""
import base64
import os
import random
import resource
import select
import shlex
import shutil
import signal
import subprocess
import time

import vlib

FAULTS = ("panic", "abort", "segv", "kill9", "term", "allocfail", "exit0")
# Faults whose effect is "the process is killed by a signal" (allocfail = handle_alloc_error =
# abort). No handler can run for kill9; abort/segv/term run no Rust destructors either.
SIGNAL_FAULTS = {"abort": "SIGABRT", "segv": "SIGSEGV", "kill9": "SIGKILL", "term": "SIGTERM",
                 "allocfail": "SIGABRT"}
UNPRIV = 65534          # uid/gid used where the case needs real permission checks (we run as root)
PAST = 978307200        # 2001-01-01: mtime given to every pre-existing output
UNMAP_EXIT = "exit:Unmap output file#1"
WRITE_EXIT = "exit:Write output file#1"
TIMEOUT = 90
RAYON_ABORT = "Rayon: detected unexpected panic; aborting"

# ---------------------------------------------------------------------------------------------
# The two programs

EXE_A = r"""
.section .text._start,"ax",@progbits
.globl _start
.type _start,@function
_start:
  call foo
  call bar
  lea msg(%rip), %rsi
  mov counter(%rip), %edi
  sub $7, %edi
  mov $60, %eax
  syscall
"""
EXE_B = r"""
.section .text.foo,"ax",@progbits
.globl foo
.type foo,@function
foo:
  mov counter(%rip), %eax
  lea table(%rip), %rdx
  ret
.section .rodata.table,"a",@progbits
.globl table
table: .quad foo
.quad counter
.section .rodata.msg,"a",@progbits
.globl msg
msg: .asciz "hello from the fault enumeration harness"
.section .data.counter,"aw",@progbits
.globl counter
counter: .long COUNTER
extra: .long EXTRA
"""
EXE_C = r"""
.section .text.bar,"ax",@progbits
.globl bar
.type bar,@function
bar:
  lea buffer(%rip), %rax
  lea .Lstr(%rip), %rcx
  mov %rcx, (%rax)
  ret
.section .rodata.str1.1,"aMS",@progbits,1
.Lstr: .asciz "a mergeable string"
.section .bss.buffer,"aw",@nobits
.globl buffer
buffer: .zero 64
"""
SO_A = r"""
.section .text.api1,"ax",@progbits
.globl api1
.type api1,@function
api1:
  call api2@PLT
  mov gvar@GOTPCREL(%rip), %rax
  ret
"""
SO_B = r"""
.section .text.api2,"ax",@progbits
.globl api2
.type api2,@function
api2:
  lea ldata(%rip), %rax
  ret
.section .data.gvar,"aw",@progbits
.globl gvar
.type gvar,@object
gvar: .quad api2
ldata: .long COUNTER
extra: .long EXTRA
.size gvar, 16
"""


def _b(src, counter="7", extra="1"):
    return src.replace("COUNTER", counter).replace("EXTRA", extra)


PROGRAMS = {
    # inputs: the fault-free link. old: same program with another constant = "older valid output".
    # vary: the object replaced in the corrupt / duplicate / overflow scenarios. drop: the object
    # left out for the undefined-symbol scenario.
    "exe": dict(out="out", flags=[], inputs=["a.o", "b.o", "c.o"], vary="b.o", drop="b.o",
                undef_flags=[],
                sources={"a.o": EXE_A, "b.o": _b(EXE_B), "c.o": EXE_C,
                         "b_old.o": _b(EXE_B, "8"), "b_ovf.o": _b(EXE_B, "7", "big")}),
    "so": dict(out="libx.so", flags=["-shared"], inputs=["sa.o", "b.o"], vary="b.o", drop="b.o",
               undef_flags=["-z", "defs"],
               sources={"sa.o": SO_A, "b.o": _b(SO_B), "b_old.o": _b(SO_B, "8"),
                        "b_ovf.o": _b(SO_B, "7", "big")}),
}

# Natural errors, in the order of the stage at which wild detects them. `late` = detected after
# the output file has been created (these are the ones C18 is mostly about).
SCENARIOS = {
    "missing-input":      dict(stage="open inputs", late=False),
    "corrupt-object":     dict(stage="parse inputs", late=False),
    "duplicate-symbol":   dict(stage="symbol db", late=False),
    "undefined-symbol":   dict(stage="layout (gc)", late=False),
    "out-nodir":          dict(stage="create output", late=False, fixed_prior="absent"),
    "out-unwritable-dir": dict(stage="create output", late=False, fixed_prior="absent",
                               unpriv=True),
    "out-is-dir":         dict(stage="create output", late=False, fixed_prior="dir"),
    "script-assert":      dict(stage="layout, after set_size", late=True),
    "reloc-overflow":     dict(stage="write", late=True),
    "inputs-changed":     dict(stage="verify inputs (after write)", late=True, no_ld=True),
}
WMODE_FLAG = {"default": [], "inplace": ["--update-in-place"], "noinplace": ["--no-update-in-place"]}
PRIORS = ("absent", "older", "unrelated", "readonly")   # + "busy" where a check asks for it
WMODES = ("default", "inplace", "noinplace")

CTX = {}
BUSY = {}        # case directory -> process executing the file at the output path


def setup_limits():
    resource.setrlimit(resource.RLIMIT_CORE, (0, 0))


def materialize(base):
    """Assembles every input variant into base/in and returns the context the workers use."""
    setup_limits()
    ind = os.path.join(base, "in")
    os.makedirs(ind, exist_ok=True)
    os.chmod(base, 0o755)
    ctx = {"base": base, "in": ind, "progs": {}}
    for prog, P in PROGRAMS.items():
        d = os.path.join(ind, prog)
        os.makedirs(d, exist_ok=True)
        for name, src in P["sources"].items():
            shutil.copyfile(vlib.assemble(src), os.path.join(d, name))
        with open(os.path.join(d, P["vary"]), "rb") as f:
            data = f.read()
        with open(os.path.join(d, "b_trunc.o"), "wb") as f:
            f.write(data[:len(data) // 2])
        shutil.copyfile(os.path.join(d, P["vary"]), os.path.join(d, "b_dup.o"))
        with open(os.path.join(d, "assert.ld"), "w") as f:
            f.write('ASSERT(0, "boom")\n')
        for n in os.listdir(d):
            os.chmod(os.path.join(d, n), 0o644)
        ctx["progs"][prog] = {"dir": d}
    CTX.clear()
    CTX.update(ctx)
    # The "older valid output" of each program: the same program built from an older source.
    for prog in PROGRAMS:
        r = run_case(dict(prog=prog, fork=False, threads=4, wmode="default", prior="absent",
                          older_build=True, keep_output=True, id="older-" + prog))
        if r["rc"] != 0 or not r.get("out_b64"):
            raise RuntimeError(f"cannot link the older build of {prog}: {r}")
        CTX["progs"][prog]["older"] = base64.b64decode(r["out_b64"])
    return ctx


def case_inputs(case):
    """(input names, extra flags, output path relative to the case dir) of a case."""
    P = PROGRAMS[case["prog"]]
    inputs, extra, out = list(P["inputs"]), [], P["out"]
    scen = case.get("scenario")
    if case.get("older_build"):
        inputs = ["b_old.o" if n == P["vary"] else n for n in inputs]
    if scen == "missing-input":
        inputs.append("nonexistent.o")
    elif scen == "corrupt-object":
        inputs = ["b_trunc.o" if n == P["vary"] else n for n in inputs]
    elif scen == "duplicate-symbol":
        inputs.append("b_dup.o")
    elif scen == "undefined-symbol":
        inputs = [n for n in inputs if n != P["drop"]]
        extra += P["undef_flags"]
    elif scen == "script-assert":
        inputs.append("assert.ld")
    elif scen == "reloc-overflow":
        inputs = ["b_ovf.o" if n == P["vary"] else n for n in inputs]
        extra.append("--defsym=big=0x100000000")
    elif scen == "out-nodir":
        out = os.path.join("nodir", out)
    elif scen == "out-unwritable-dir":
        out = os.path.join("rodir", out)
    return inputs, extra, out


def build_argv(case, indir=None, private=()):
    """wild's argv (without the program name). Inputs are absolute paths into the shared input
    directory, except names in `private`, which live in the case directory."""
    P = PROGRAMS[case["prog"]]
    inputs, extra, out = case_inputs(case)
    indir = indir or CTX["progs"][case["prog"]]["dir"]
    argv = [n if n in private else os.path.join(indir, n) for n in inputs]
    argv += ["-o", out, f"--threads={case['threads']}", *P["flags"], *extra]
    if not case["fork"]:
        argv.append("--no-fork")
    argv += WMODE_FLAG[case["wmode"]]
    return argv, out


def ld_argv(case, out):
    inputs, extra, _ = case_inputs(case)
    indir = CTX["progs"][case["prog"]]["dir"]
    return ["ld", *[os.path.join(indir, n) for n in inputs], "-o", out,
            *PROGRAMS[case["prog"]]["flags"], *extra]


def base_env():
    return {"PATH": os.environ.get("PATH", "/usr/bin:/bin"), "LANG": "C", "RUST_BACKTRACE": "0"}


def snapshot(path):
    try:
        st = os.lstat(path)
    except OSError:
        return {"exists": False}
    import stat as _s
    kind = "file" if _s.S_ISREG(st.st_mode) else "dir" if _s.S_ISDIR(st.st_mode) else "other"
    d = {"exists": True, "type": kind, "ino": st.st_ino, "size": st.st_size,
         "mtime_ns": st.st_mtime_ns, "mode": oct(st.st_mode & 0o7777)}
    if kind == "file":
        d["sha"] = vlib.file_sha(path)
    return d


def effect(before, after):
    """What the link did to the output path: None (absent, or exactly the pre-link file),
    'created', 'replaced' (another inode), 'rewritten' (same inode, other bytes),
    'touched' (same inode and bytes, other mtime)."""
    if not after["exists"]:
        return None
    if not before["exists"]:
        return "created"
    if after["ino"] != before["ino"] or after["type"] != before["type"]:
        return "replaced"
    if after.get("sha") != before.get("sha") or after["size"] != before["size"]:
        return "rewritten"
    if after["mtime_ns"] != before["mtime_ns"]:
        return "touched"
    return None


def parse_phaselog(path):
    """[(point 'name#count', pid, on_main)] in log order."""
    out = []
    try:
        with open(path) as f:
            for line in f:
                parts = line.rstrip("\n").split("\t")
                if len(parts) != 3:
                    continue
                out.append((parts[0], int(parts[1][4:]), parts[2] == "main=true"))
    except OSError:
        pass
    return out


def toplevel_stages(log):
    """For every log line, the outermost phase open on the main thread of the line's process at
    that moment (the line's own phase if none is open)."""
    stacks = {}
    res = []
    for point, pid, on_main in log:
        name = point.rsplit("#", 1)[0]
        st = stacks.setdefault(pid, [])
        if on_main and name.startswith("enter:"):
            st.append(name[6:])
            res.append(st[0])
        elif on_main and name.startswith("exit:"):
            res.append(st[0] if st else name[5:])
            if st and st[-1] == name[5:]:
                st.pop()
        else:
            res.append(st[0] if st else name)
    return res


def prepare_prior(case, d, out_path):
    """Creates the prior state of the output path. Returns True when the run must be unprivileged."""
    prior = case["prior"]
    scen = case.get("scenario")
    unpriv = bool(scen and SCENARIOS[scen].get("unpriv")) or prior == "readonly"
    if scen == "out-unwritable-dir":
        os.mkdir(os.path.join(d, "rodir"))
    if prior == "absent":
        pass
    elif prior == "dir":
        os.mkdir(out_path)
        os.utime(out_path, (PAST, PAST))
    elif prior in ("older", "readonly"):
        with open(out_path, "wb") as f:
            f.write(CTX["progs"][case["prog"]]["older"])
        os.chmod(out_path, 0o444 if prior == "readonly" else 0o755)
        os.utime(out_path, (PAST, PAST))
    elif prior == "unrelated":
        with open(out_path, "wb") as f:
            f.write(b"This is not an output of any linker.\n" * 300)
        os.chmod(out_path, 0o644)
        os.utime(out_path, (PAST, PAST))
    elif prior == "busy":
        # An executable that is being executed right now (opening it for writing gives ETXTBSY).
        shutil.copyfile(shutil.which("sleep"), out_path)
        os.chmod(out_path, 0o755)
        os.utime(out_path, (PAST, PAST))
        BUSY[d] = subprocess.Popen([out_path, "3600"], stdin=subprocess.DEVNULL,
                                   stdout=subprocess.DEVNULL, stderr=subprocess.DEVNULL)
    else:
        raise ValueError(prior)
    if unpriv:
        for p in (d, out_path):
            if os.path.lexists(p):
                os.chown(p, UNPRIV, UNPRIV)
        if scen == "out-unwritable-dir":
            os.chown(os.path.join(d, "rodir"), UNPRIV, UNPRIV)
            os.chmod(os.path.join(d, "rodir"), 0o555)
    return unpriv


def _gone(pid):
    """True when the process has terminated (possibly still a zombie)."""
    try:
        with open(f"/proc/{pid}/stat") as f:
            return f.read().rsplit(")", 1)[1].split()[0] in ("Z", "X")
    except (OSError, IndexError):
        return True


def _killpg(pgid):
    try:
        os.killpg(pgid, signal.SIGKILL)
    except OSError:
        pass


def run_case(case):
    """Runs one case in a fresh directory. Returns a result dict (JSON-able)."""
    base = case.get("base") or CTX["base"]
    d = os.path.join(base, "c%s.%d" % (case.get("id", "x"), os.getpid()))
    shutil.rmtree(d, ignore_errors=True)
    os.makedirs(d)
    try:
        return _run_case_in(case, d)
    finally:
        holder = BUSY.pop(d, None)
        if holder is not None:
            holder.kill()
            holder.wait()
        # rodir may be 0555 and owned by another uid; we are root, rmtree copes.
        shutil.rmtree(d, ignore_errors=True)


def _run_case_in(case, d):
    prog = case["prog"]
    scen = case.get("scenario")
    private = ()
    if scen == "inputs-changed":
        # The input that gets touched mid-link must be private to this case.
        P = PROGRAMS[prog]
        shutil.copyfile(os.path.join(CTX["progs"][prog]["dir"], P["vary"]),
                        os.path.join(d, P["vary"]))
        private = (P["vary"],)
    argv, out_rel = build_argv(case, private=private)
    out_path = os.path.join(d, out_rel)
    if case.get("strace"):
        # strace -P matches path arguments literally, so the output is named absolutely.
        argv[argv.index("-o") + 1] = out_path
    unpriv = prepare_prior(case, d, out_path)
    os.chmod(d, 0o755)
    log = os.path.join(d, "phase.log")
    env = base_env()
    env["WILD_VERIF_PHASELOG"] = log
    fault = case.get("fault")
    pause_dir = None
    if fault:
        env["WILD_VERIF_AT"] = fault[0]
        env["WILD_VERIF_DO"] = fault[1]
    ext_signal = None
    if scen == "inputs-changed":
        pause_dir = os.path.join(d, "pause")
        os.mkdir(pause_dir)
        env["WILD_VERIF_AT"] = "enter:Layout#1"
        env["WILD_VERIF_DO"] = "pause:" + pause_dir
    elif fault and fault[1] == "segv" and case.get("segv_external"):
        # The hook's raise(SIGSEGV) is swallowed once by the Rust runtime's stack-overflow
        # handler (it resets the disposition and returns), so the process is instead paused at
        # the point and sent SIGSEGV from outside until it dies of it.
        pause_dir = os.path.join(d, "pause")
        os.mkdir(pause_dir)
        env["WILD_VERIF_DO"] = "pause:" + pause_dir
        ext_signal = signal.SIGSEGV
    cmd = [case.get("wild") or vlib.WILD, *argv]
    st = case.get("strace")
    strace_log = None
    if st:
        # Hook-free deviation: exactly one syscall on the output path answers differently.
        strace_log = os.path.join(d, "strace.log")
        inj = ["-e", f"inject={st['syscall']}:{st['what']}:when={st['when']}"]
        if st["syscall"] == "none":     # learning run: trace only
            inj = []
        cmd = ["strace", "-f", "-qq", "-o", strace_log, "-P", out_path, *inj, *cmd]
        env.pop("WILD_VERIF_PHASELOG")
    if unpriv:
        for p in (d,) + ((pause_dir,) if pause_dir else ()):
            os.chown(p, UNPRIV, UNPRIV)
    before = snapshot(out_path)
    kw = dict(user=UNPRIV, group=UNPRIV, extra_groups=[]) if unpriv else {}
    # Inherited process environment (a history of the invoking process, not of wild): SIGCHLD
    # ignored by the invoker survives execve, and makes waitpid() on the forked worker fail with
    # ECHILD; closed standard descriptors make the fork pipe land on fds 0-2.
    penv = case.get("penv")
    if penv == "sigchld-ignored":
        import signal as _signal
        kw["preexec_fn"] = lambda: _signal.signal(_signal.SIGCHLD, _signal.SIG_IGN)
    elif penv == "stdio-closed":
        def _close_stdio():
            for fd in (0, 1, 2):
                try:
                    os.close(fd)
                except OSError:
                    pass
        kw["preexec_fn"] = _close_stdio
    r, w = os.pipe()
    t0 = time.time()
    p = subprocess.Popen(cmd, cwd=d, env=env, stdin=subprocess.DEVNULL, stdout=subprocess.PIPE,
                         stderr=subprocess.PIPE, pass_fds=(w,), start_new_session=True, **kw)
    os.close(w)
    timed_out = False
    try:
        if pause_dir:
            deadline = time.time() + TIMEOUT
            reached = os.path.join(pause_dir, "reached")
            while not os.path.exists(reached) and p.poll() is None and time.time() < deadline:
                time.sleep(0.002)
            delivered = False
            if os.path.exists(reached) and ext_signal:
                pid = next((e[1] for e in parse_phaselog(log) if e[0] == fault[0]), None)
                for _ in range(200):
                    if pid is None or _gone(pid):
                        delivered = pid is not None
                        break
                    try:
                        os.kill(pid, ext_signal)
                    except OSError:
                        pass
                    time.sleep(0.002)
            elif os.path.exists(reached):
                now = time.time()
                os.utime(os.path.join(d, private[0]), (now + 3, now + 3))
            if not delivered:
                with open(os.path.join(pause_dir, "go"), "w"):
                    pass
        try:
            so, se = p.communicate(timeout=TIMEOUT)
            rc = p.returncode
        except subprocess.TimeoutExpired:
            timed_out = True
            _killpg(p.pid)
            so, se = p.communicate()
            rc = "timeout"
        at_exit = snapshot(out_path)
        # Every descendant holds the write end of our pipe; EOF = they have all gone.
        lingering = False
        deadline = time.time() + (5 if timed_out else 30)
        while True:
            left = deadline - time.time()
            if left <= 0:
                lingering = True
                break
            rd, _, _ = select.select([r], [], [], left)
            if rd and os.read(r, 1) == b"":
                break
        settled = snapshot(out_path)
    finally:
        _killpg(p.pid)
        os.close(r)
    wall = time.time() - t0
    plog = parse_phaselog(log)
    res = {"id": case.get("id"), "rc": rc, "before": before, "at_exit": at_exit,
           "settled": settled, "stderr": se.decode("utf-8", "replace")[-400:],
           "lingering": lingering, "wall": round(wall, 3), "argv": argv, "unpriv": unpriv,
           "env": {k: v for k, v in env.items() if k.startswith("WILD_")},
           "npoints": len(plog)}
    if case.get("want_log"):
        res["log"] = plog
    if case.get("keep_output"):
        try:
            with open(out_path, "rb") as f:
                res["out_b64"] = base64.b64encode(f.read()).decode()
        except OSError:
            res["out_b64"] = None
    if strace_log:
        try:
            with open(strace_log) as f:
                lines = f.read().splitlines()
            res["strace_injected"] = sum(1 for line in lines if "(INJECTED)" in line)
            res["strace_killed"] = sum(1 for line in lines if "+++ killed by" in line)
            if case.get("want_strace"):
                res["strace_lines"] = lines
        except OSError:
            res["strace_injected"] = None
    if fault:
        idx = next((i for i, e in enumerate(plog) if e[0] == fault[0]), None)
        res["fired"] = idx is not None
        if idx is not None:
            pid, on_main = plog[idx][1], plog[idx][2]
            seen = {e[0] for e in plog[:idx]}
            res["fired_main"] = on_main
            # In fork mode the process we started is the parent; the link runs in its child.
            res["fired_in_parent"] = bool(case["fork"] and pid == p.pid)
            # The fault's log line is written before the fault acts. A fault on a worker thread
            # (and SIGSEGV sent from outside) does not stop the main thread at once, so "the
            # process died before the output was unmapped" is claimed only when the unmap exit
            # point appears nowhere in the log.
            res["before_unmap"] = UNMAP_EXIT not in {e[0] for e in plog}
            res["after_write"] = WRITE_EXIT in seen
            res["stage"] = toplevel_stages(plog[:idx + 1])[idx]
    return res


# ---------------------------------------------------------------------------------------------
# Plans

EXPECTED_STATUS = {"panic": 101, "abort": -6, "segv": -11, "kill9": -9, "term": -15,
                   "allocfail": -6}


def calibrate():
    """Checks, on one --no-fork run per fault kind, that the hook really terminates the process
    the way the fault kind says. Returns {"status": {kind: observed}, "segv_external": bool,
    "unusable": [kinds]}; kinds in `unusable` must not be enumerated."""
    cfg = dict(prog="exe", fork=False, threads=4, wmode="default", prior="absent")
    out = {"status": {}, "segv_external": False, "unusable": []}
    for kind, want in EXPECTED_STATUS.items():
        r = run_case(dict(cfg, fault=("enter:Layout#1", kind), id="cal-" + kind))
        out["status"][kind] = r["rc"]
        if r["rc"] == want and r.get("fired"):
            continue
        if kind == "segv":
            r = run_case(dict(cfg, fault=("enter:Layout#1", kind), segv_external=True,
                              id="cal-segv-ext"))
            out["status"]["segv (SIGSEGV sent from outside while paused at the point)"] = r["rc"]
            if r["rc"] == want:
                out["segv_external"] = True
                continue
        out["unusable"].append(kind)
    return out

class Machinery(Exception):
    pass


def learn(configs, reps=2):
    """`reps` fault-free runs per configuration. Returns {cfg_key: {points (ordered union of the
    runs' phase points - the set depends slightly on scheduling, e.g. `Work with object#3`),
    sha (the complete output; all runs must agree), stable}}."""
    cases = [dict(cfg, want_log=True, id=f"L{i}.{rep}")
             for i, cfg in enumerate(configs) for rep in range(reps)]
    results = vlib.pmap(run_case, cases, chunksize=2)
    info = {}
    for case, res in zip(cases, results):
        k = cfg_key(case)
        e = info.setdefault(k, {"logs": [], "shas": set(), "baseline_fails": False})
        e["logs"].append(res["log"])
        if res["rc"] not in (0, "timeout") and case["prior"] == "readonly" and \
                "Permission denied" in res["stderr"]:
            # With a read-only file at the output path the fault-free link is itself a failing
            # link in the in-place modes (EACCES); its points are those passed before the error.
            e["baseline_fails"] = True
            e["shas"].add(None)
            continue
        if res["rc"] != 0 or res["at_exit"].get("type") != "file":
            raise Machinery(f"fault-free link failed for {cfg_name(case)}: rc={res['rc']} "
                            f"{res['stderr']}")
        if res["settled"].get("sha") != res["at_exit"].get("sha"):
            raise Machinery(f"fault-free output of {cfg_name(case)} changes after exit")
        e["shas"].add(res["at_exit"]["sha"])
    for k, e in info.items():
        if len(e["shas"]) != 1:
            raise Machinery(f"fault-free output of {k} is not deterministic")
        e["sha"] = next(iter(e["shas"]))
        e["points"] = points_of(e["logs"])
        e["stable"] = all({p for p, _, _ in lg} == set(e["points"]) for lg in e["logs"])
        del e["logs"]
    return info


def points_of(logs):
    """Ordered union of the points of several logs of one configuration."""
    seen, order = set(), []
    for log in logs:
        for point, _pid, _main in log:
            if point not in seen:
                seen.add(point)
                order.append(point)
    return order


def is_enter_first(point):
    name, n = point.rsplit("#", 1)
    return n == "1" and not name.startswith("exit:")


def cfg_key(c):
    return (c["prog"], c["fork"], c["threads"], c["wmode"], c["prior"])


def cfg_name(c):
    return "%s/%s/t%d/%s/%s%s" % (c["prog"], "fork" if c["fork"] else "nofork", c["threads"],
                                  c["wmode"], c["prior"],
                                  "/" + c["penv"] if c.get("penv") else "")


def key_name(k):
    return cfg_name(dict(prog=k[0], fork=k[1], threads=k[2], wmode=k[3], prior=k[4]))


def run_plan(cases, wall_cap, t0, seed=0, batch=1500):
    """Runs cases in parallel, in order, in batches; stops starting new batches once `wall_cap`
    seconds (since t0) have passed. Returns (results, n_not_run)."""
    for i, c in enumerate(cases):
        c.setdefault("id", i)
    if seed:
        cases = list(cases)
        random.Random(seed).shuffle(cases)
    results = []
    pos = 0
    while pos < len(cases):
        if time.time() - t0 > wall_cap:
            break
        chunk = cases[pos:pos + batch]
        results.extend(zip(chunk, vlib.pmap(run_case, chunk, chunksize=4)))
        pos += len(chunk)
    return results, len(cases) - pos


# ---------------------------------------------------------------------------------------------
# Hook-free deviations (strace), restricted to syscalls that touch the output path

DEVIATIONS = {"openat": ["error=EACCES", "error=EMFILE", "error=ENOSPC"],
              "open": ["error=EACCES"], "creat": ["error=EACCES"],
              "ftruncate": ["error=ENOSPC", "error=EFBIG"], "fallocate": ["error=ENOSPC"],
              "mmap": ["error=ENOMEM"], "fchmod": ["error=EPERM"], "chmod": ["error=EPERM"],
              "rename": ["error=EACCES"], "renameat": ["error=EACCES"],
              "renameat2": ["error=EACCES"], "unlink": ["error=EACCES"],
              "unlinkat": ["error=EACCES"], "write": ["error=ENOSPC"],
              "pwrite64": ["error=ENOSPC"], "close": ["error=EIO"], "fstat": ["error=EIO"],
              "newfstatat": ["error=EIO"], "statx": ["error=EIO"], "stat": ["error=EIO"],
              "lstat": ["error=EIO"]}


def strace_cases(configs, base):
    """One case per (syscall that touches the output path in the fault-free run of the
    configuration, occurrence n within its thread, deviation); learnt from a real strace of the
    fault-free link with the same prior state. Returns (cases, {config: {syscall: max n}})."""
    cases, table = [], {}
    for i, cfg in enumerate(configs):
        r = run_case(dict(cfg, id=f"S{i}", strace=dict(syscall="none", what="error=EIO", when=1),
                          want_strace=True))
        if r["rc"] != 0:
            raise Machinery(f"strace of the fault-free link {cfg_name(cfg)} failed: "
                            f"rc={r['rc']} {r['stderr']}")
        per = {}
        for line in r["strace_lines"]:
            parts = line.split(None, 1)
            if len(parts) == 2 and parts[0].isdigit() and "(" in parts[1]:
                name = parts[1].split("(", 1)[0]
                if name.isidentifier():
                    c = per.setdefault(name, {})
                    c[parts[0]] = c.get(parts[0], 0) + 1
        sys_n = {name: max(c.values()) for name, c in per.items()}
        table[cfg_name(cfg)] = sys_n
        for name, n in sorted(sys_n.items()):
            for when in range(1, n + 1):
                for what in DEVIATIONS.get(name, []) + ["signal=KILL"]:
                    cases.append(dict(cfg, strace=dict(syscall=name, what=what, when=when)))
    return cases, table


# ---------------------------------------------------------------------------------------------
# Replay support

def shell_repro(case, res):
    """A human-runnable approximation of the case (prior state set-up is described in words)."""
    env = " ".join(f"{k}={shlex.quote(v)}" for k, v in sorted(res["env"].items())
                   if k != "WILD_VERIF_PHASELOG")
    return f"cd <fresh dir>; {env} {vlib.WILD} {' '.join(shlex.quote(a) for a in res['argv'])}; echo $?"


def replay_record(case, res, observed, expected):
    P = PROGRAMS[case["prog"]]
    inputs, _, _ = case_inputs(case)
    blobs = {}
    d = CTX["progs"][case["prog"]]["dir"]
    for n in inputs:
        try:
            with open(os.path.join(d, n), "rb") as f:
                blobs[n] = base64.b64encode(f.read()).decode()
        except OSError:
            blobs[n] = None
    c = {k: v for k, v in case.items() if k not in ("base", "want_log")}
    return {"case": c, "argv": res["argv"], "env": res["env"], "fault": case.get("fault"),
            "scenario": case.get("scenario"), "strace": case.get("strace"),
            "prior_state": case["prior"],
            "prior_state_setup": {
                "absent": "nothing at the output path",
                "older": "prior_file_b64 at the output path, mode 0755, mtime 2001-01-01",
                "readonly": "prior_file_b64 at the output path, mode 0444, mtime 2001-01-01, "
                            "directory and file owned by the unprivileged uid",
                "unrelated": "300 lines of text at the output path, mode 0644, mtime 2001-01-01",
                "busy": "a copy of `sleep` at the output path, mode 0755, mtime 2001-01-01, being "
                        "executed (`<out> 3600 &`) while wild runs",
                "dir": "a directory at the output path"}[case["prior"]],
            "prior_file_b64": (base64.b64encode(CTX["progs"][case["prog"]]["older"]).decode()
                               if case["prior"] in ("older", "readonly") else None),
            "write_mode": case["wmode"], "fork": case["fork"],
            "threads": case["threads"], "unprivileged_uid": UNPRIV if res["unpriv"] else None,
            "observed": observed, "expected": expected, "inputs_b64": blobs,
            "input_sources": {n: P["sources"].get(n) for n in inputs},
            "shell": shell_repro(case, res)}
