"""imgsim - a loader model and a tiny AArch64 emulator for statically evaluating linked outputs.

Loader model (transcribed from the gABI / AArch64 psABI / glibc's static-TLS layout, independent of
wild): map the PT_LOAD segments of one or more images at chosen bases, lay out static TLS
(variant I, TCB of 16 bytes), apply DT_RELR, DT_RELA and DT_JMPREL eagerly (RELATIVE, ABS64,
GLOB_DAT, JUMP_SLOT, COPY, TLS_TPREL, TLS_DTPMOD, TLS_DTPREL, TLSDESC, IRELATIVE) with symbols looked
up through each image's own hash table in load order.

Emulator: exactly the instruction forms the generated probes, PLT stubs and range-extension thunks
use (adrp, adr, add/sub imm and shifted register, logical shifted register, movz/movk/movn, ldr/str
unsigned-offset incl. SIMD&FP and sign-extending loads, ldr literal, b, bl, br, blr, ret, b.cond,
cbz/cbnz, tbz/tbnz, mrs tpidr_el0, hints). Anything else raises Unsupported (a machinery problem,
never a verdict)."""
import struct

import elfread

M64 = (1 << 64) - 1
RETURN_MAGIC = 0xFFFF0000DEAD0000
HOOK_BASE = 0xFFFF0000C0DE0000
TCB_SIZE = 16

(R_COPY, R_GLOB_DAT, R_JUMP_SLOT, R_RELATIVE, R_TLS_DTPMOD, R_TLS_DTPREL, R_TLS_TPREL, R_TLSDESC,
 R_IRELATIVE) = range(1024, 1033)
R_ABS64 = 257


class SimError(Exception):
    pass


class Unsupported(SimError):
    pass


class Fault(SimError):
    """The emulated program did something a real one would die of (unmapped access, runaway)."""


def sext(v, bits):
    v &= (1 << bits) - 1
    return v - (1 << bits) if v >> (bits - 1) else v


class Memory:
    def __init__(self):
        self.regions = []        # (start, bytearray)

    def map(self, start, data):
        self.regions.append((start, bytearray(data)))

    def _find(self, addr, n):
        for start, buf in self.regions:
            if start <= addr and addr + n <= start + len(buf):
                return buf, addr - start
        raise Fault(f"access to unmapped address {addr:#x} (+{n})")

    def read(self, addr, n):
        buf, o = self._find(addr, n)
        return bytes(buf[o:o + n])

    def write(self, addr, data):
        buf, o = self._find(addr, len(data))
        buf[o:o + len(data)] = data

    def r64(self, addr):
        return struct.unpack("<Q", self.read(addr, 8))[0]

    def r32(self, addr):
        return struct.unpack("<I", self.read(addr, 4))[0]

    def w64(self, addr, v):
        self.write(addr, struct.pack("<Q", v & M64))


class Image:
    def __init__(self, path, base, name=None):
        self.elf = elfread.Elf(path)
        self.path, self.name = path, name or path
        self.base = base if self.elf.e_type == elfread.ET_DYN else 0
        self.tls = None          # (vaddr, filesz, memsz, align)
        for p in self.elf.segments:
            if p.p_type == elfread.PT_TLS:
                self.tls = (p.p_vaddr, p.p_filesz, p.p_memsz, max(1, p.p_align))
        self.tls_offset = None   # tp-relative offset of this module's TLS block
        self.tls_modid = None
        self._sym = None

    def symtab(self):
        """{name: Symbol} of .symtab (machinery: locating probes; ground truth never uses it except
        where a check says so)."""
        if self._sym is None:
            self._sym = {}
            for s in self.elf.symbols(".symtab"):
                if s.name and s.shndx != 0:
                    self._sym.setdefault(s.name, s)
        return self._sym

    def addr(self, name):
        s = self.symtab().get(name)
        if s is None:
            return None
        return s.value if s.shndx == elfread.SHN_ABS else s.value + self.base

    def lookup_dynamic(self, name):
        """Defined dynamic symbol `name` via the image's own hash table(s), or None."""
        dd = self.elf.dynamic_dict()
        i = None
        if elfread.DT_GNU_HASH in dd:
            i = self.elf.gnu_lookup(name)
        elif elfread.DT_HASH in dd:
            i = self.elf.sysv_lookup(name)
        return None if i is None else self.elf.symbols(".dynsym")[i]


class Process:
    """Images loaded in order (executable first), static TLS laid out, relocations applied."""

    def __init__(self, images, tp=0x7000_0000_1000, hooks=None):
        self.images = images
        self.mem = Memory()
        self.tp = tp
        self.hooks = {}          # magic address -> callable(cpu)
        self.hook_addr = {}      # symbol name -> magic address
        for i, (name, fn) in enumerate((hooks or {}).items()):
            a = HOOK_BASE + 16 * i
            self.hooks[a] = fn
            self.hook_addr[name] = a
        self._tlsdesc_static = HOOK_BASE + 0x8000
        self.hooks[self._tlsdesc_static] = self._tlsdesc_static_resolver
        for im in images:
            for p in im.elf.segments:
                if p.p_type == elfread.PT_LOAD and p.p_memsz:
                    start = im.base + p.p_vaddr
                    data = im.elf.read_vaddr(p.p_vaddr, p.p_memsz)
                    lo = start & ~0xfff
                    self.mem.map(lo, bytes(start - lo) + data + bytes((-(start + len(data))) & 0xfff))
        self._layout_tls()
        self.stack_top = 0x7fff_0000_0000
        self.mem.map(self.stack_top - 0x10000, bytes(0x10000))
        self.unresolved = []
        for im in images:
            self._relocate(im, irelative=False)
        for im in images:
            self._relocate(im, irelative=True)

    # ---------------------------------------------------------------- static TLS (variant I, glibc)
    def _layout_tls(self):
        offset = TCB_SIZE
        maxalign = 16
        modid = 0
        for im in self.images:
            if not im.tls:
                continue
            modid += 1
            vaddr, filesz, memsz, align = im.tls
            first = vaddr & (align - 1)
            firstbyte = (-first) & (align - 1)
            off = (offset + align - 1) & ~(align - 1)
            if off - offset < firstbyte:
                off += align
            im.tls_offset = off - firstbyte
            im.tls_modid = modid
            offset = im.tls_offset + memsz
            maxalign = max(maxalign, align)
        if self.tp & (maxalign - 1):
            self.tp = (self.tp + maxalign - 1) & ~(maxalign - 1)
        size = (offset + 0xfff) & ~0xfff
        self.mem.map(self.tp, bytes(size + 0x1000))
        for im in self.images:
            if im.tls:
                vaddr, filesz, memsz, align = im.tls
                self.mem.write(self.tp + im.tls_offset, im.elf.read_vaddr(vaddr, filesz))

    def _tlsdesc_static_resolver(self, cpu):
        cpu.x[0] = self.mem.r64(cpu.x[0] + 8)

    # -------------------------------------------------------------------------------- relocation
    def resolve(self, name, skip=None, for_copy=False):
        """(image, Symbol) of the first definition of `name` in load order; None if not found."""
        for im in self.images:
            if for_copy and im is skip:
                continue
            s = im.lookup_dynamic(name)
            if s is not None and s.shndx != 0:
                return im, s
        return None

    def _symval(self, im, symidx):
        """-> (address or None when undefined weak / hook, defining image, Symbol)"""
        dynsym = im.elf.symbols(".dynsym")
        sym = dynsym[symidx]
        if not sym.name:
            return (im.base if sym.shndx else 0), im, sym
        r = self.resolve(sym.name)
        if r is None:
            if sym.name in self.hook_addr:
                return self.hook_addr[sym.name], None, sym
            if sym.bind == elfread.STB_WEAK:
                return 0, None, sym
            self.unresolved.append(sym.name)
            return 0, None, sym
        dim, dsym = r
        if dsym.shndx == elfread.SHN_ABS:
            return dsym.value, dim, dsym
        if dsym.type == elfread.STT_TLS:
            return dsym.value, dim, dsym
        return dim.base + dsym.value, dim, dsym

    def _relocate(self, im, irelative):
        if not im.elf.dynamic():
            return
        rel = im.elf.dyn_relocs()
        mem = self.mem
        if not irelative:
            for off in rel["relr"]:
                a = im.base + off
                mem.w64(a, mem.r64(a) + im.base)
        seen = set()
        for key in ("rela", "jmprel"):
            for off, rtype, symidx, addend in rel[key]:
                if (off, rtype, symidx) in seen:
                    continue          # DT_JMPREL overlapping DT_RELA
                seen.add((off, rtype, symidx))
                if (rtype == R_IRELATIVE) != irelative:
                    continue
                p = im.base + off
                a = addend or 0
                if rtype == 0:
                    continue
                if rtype == R_RELATIVE:
                    mem.w64(p, im.base + a)
                elif rtype == R_IRELATIVE:
                    cpu = Cpu(self)
                    mem.w64(p, cpu.call(im.base + a))
                elif rtype in (R_ABS64, R_GLOB_DAT, R_JUMP_SLOT):
                    v, dim, dsym = self._symval(im, symidx)
                    if dsym is not None and dsym.type == elfread.STT_GNU_IFUNC and dim is not None:
                        v = Cpu(self).call(v)
                    mem.w64(p, v + a)
                elif rtype == R_COPY:
                    sym = im.elf.symbols(".dynsym")[symidx]
                    r = self.resolve(sym.name, skip=im, for_copy=True)
                    if r is None:
                        raise SimError(f"COPY relocation: no source for {sym.name}")
                    dim, dsym = r
                    mem.write(p, mem.read(dim.base + dsym.value, dsym.size))
                elif rtype in (R_TLS_TPREL, R_TLS_DTPMOD, R_TLS_DTPREL, R_TLSDESC):
                    if symidx:
                        v, dim, dsym = self._symval(im, symidx)
                        if dim is None:
                            v, dim = 0, None
                    else:
                        v, dim = 0, im
                    if rtype == R_TLS_DTPMOD:
                        mem.w64(p, dim.tls_modid if dim else 0)
                    elif rtype == R_TLS_DTPREL:
                        mem.w64(p, v + a)
                    elif rtype == R_TLS_TPREL:
                        mem.w64(p, (dim.tls_offset + v + a) if dim and dim.tls_offset is not None else 0)
                    else:
                        mem.w64(p, self._tlsdesc_static)
                        mem.w64(p + 8, (dim.tls_offset + v + a) if dim and dim.tls_offset is not None else 0)
                else:
                    raise SimError(f"{im.name}: dynamic relocation type {im.elf.reloc_name(rtype)} "
                                   f"is not one the AArch64 loader applies")

    def tls_get_addr_hook(self, cpu):
        """__tls_get_addr(tls_index*) for statically laid out modules."""
        mod, off = self.mem.r64(cpu.x[0]), self.mem.r64(cpu.x[0] + 8)
        for im in self.images:
            if im.tls_modid == mod:
                cpu.x[0] = (self.tp + im.tls_offset + off) & M64
                return
        raise Fault(f"__tls_get_addr: module id {mod} does not exist")


class Cpu:
    def __init__(self, proc):
        self.p = proc
        self.mem = proc.mem
        self.x = [0] * 31
        self.sp = proc.stack_top - 0x100
        self.n = self.z = self.c = self.v = 0
        self.pc = 0
        self.last_load = None      # effective address of the most recent data load
        self.first_target = None
        self.steps = 0

    # register helpers: r31 is XZR (zr=True) or SP
    def get(self, r, sp=False):
        if r == 31:
            return self.sp if sp else 0
        return self.x[r]

    def set(self, r, v, sp=False, sf=1):
        v &= M64 if sf else 0xffffffff
        if r == 31:
            if sp:
                self.sp = v
            return
        self.x[r] = v

    def call(self, addr, args=(), limit=2000):
        for i, a in enumerate(args):
            self.x[i] = a & M64
        self.x[30] = RETURN_MAGIC
        self.pc = addr
        self.steps = 0
        while self.pc != RETURN_MAGIC:
            if self.steps >= limit:
                raise Fault(f"no return after {limit} instructions (pc={self.pc:#x})")
            self.steps += 1
            h = self.p.hooks.get(self.pc)
            if h is not None:
                h(self)
                self.pc = self.x[30]
                continue
            self.step()
        return self.x[0]

    def cond(self, c):
        n, z, cf, v = self.n, self.z, self.c, self.v
        r = [z, cf, n, v, cf and not z, n == v, n == v and not z, 1][c >> 1]
        r = bool(r)
        if c & 1 and c != 15:
            r = not r
        return r

    def _addsub(self, a, b, sub, sf, setflags):
        bits = 64 if sf else 32
        mask = (1 << bits) - 1
        a &= mask
        b &= mask
        if sub:
            res = a + ((~b) & mask) + 1
        else:
            res = a + b
        out = res & mask
        if setflags:
            self.n = out >> (bits - 1)
            self.z = int(out == 0)
            self.c = int(res > mask)
            sa, sb_, so = sext(a, bits), sext((~b) & mask if sub else b, bits), sext(out, bits)
            self.v = int((sa + sb_ + (1 if sub else 0)) != so)
        return out

    def step(self):
        pc = self.pc
        if pc & 3:
            raise Fault(f"misaligned pc {pc:#x}")
        insn = self.mem.r32(pc)
        nxt = pc + 4
        rd, rn = insn & 31, (insn >> 5) & 31
        if (insn & 0xfffff01f) == 0xd503201f:                      # hint: nop, bti, paci*...
            pass
        elif (insn & 0x1f000000) == 0x10000000:                     # adr / adrp
            imm = sext((((insn >> 5) & 0x7ffff) << 2) | ((insn >> 29) & 3), 21)
            if insn >> 31:
                self.set(rd, (pc & ~0xfff) + (imm << 12))
            else:
                self.set(rd, pc + imm)
        elif (insn & 0x1f800000) == 0x11000000:                     # add/sub immediate
            sf, sub, s = insn >> 31, (insn >> 30) & 1, (insn >> 29) & 1
            imm = (insn >> 10) & 0xfff
            if (insn >> 22) & 1:
                imm <<= 12
            out = self._addsub(self.get(rn, sp=True), imm, sub, sf, s)
            self.set(rd, out, sp=not s, sf=sf)
        elif (insn & 0x1f200000) == 0x0b000000:                     # add/sub shifted register
            sf, sub, s = insn >> 31, (insn >> 30) & 1, (insn >> 29) & 1
            sh, rm, amt = (insn >> 22) & 3, (insn >> 16) & 31, (insn >> 10) & 63
            out = self._addsub(self.get(rn), self._shift(self.get(rm), sh, amt, sf), sub, sf, s)
            self.set(rd, out, sf=sf)
        elif (insn & 0x1f000000) == 0x0a000000:                     # logical shifted register
            sf, opc = insn >> 31, (insn >> 29) & 3
            sh, neg, rm, amt = (insn >> 22) & 3, (insn >> 21) & 1, (insn >> 16) & 31, (insn >> 10) & 63
            b = self._shift(self.get(rm), sh, amt, sf)
            if neg:
                b = ~b
            a = self.get(rn)
            out = (a & b, a | b, a ^ b, a & b)[opc] & (M64 if sf else 0xffffffff)
            if opc == 3:
                bits = 64 if sf else 32
                self.n, self.z, self.c, self.v = out >> (bits - 1), int(out == 0), 0, 0
            self.set(rd, out, sf=sf)
        elif (insn & 0x1f800000) == 0x12800000:                     # movn / movz / movk
            sf, opc, hw, imm = insn >> 31, (insn >> 29) & 3, (insn >> 21) & 3, (insn >> 5) & 0xffff
            if opc == 0:
                self.set(rd, ~(imm << (16 * hw)), sf=sf)
            elif opc == 2:
                self.set(rd, imm << (16 * hw), sf=sf)
            elif opc == 3:
                old = self.get(rd)
                self.set(rd, (old & ~(0xffff << (16 * hw))) | (imm << (16 * hw)), sf=sf)
            else:
                raise Unsupported(f"{insn:#010x} at {pc:#x}")
        elif (insn & 0x3b000000) == 0x39000000:                     # ldr/str (unsigned offset)
            size, vec, opc = insn >> 30, (insn >> 26) & 1, (insn >> 22) & 3
            imm12 = (insn >> 10) & 0xfff
            if vec:
                scale = ((opc & 2) << 1) | size
                ea = (self.get(rn, sp=True) + (imm12 << scale)) & M64
                if opc & 1:
                    self.mem.read(ea, 1 << scale)
                    self.last_load = ea
                else:
                    raise Unsupported(f"SIMD store {insn:#010x} at {pc:#x}")
            else:
                ea = (self.get(rn, sp=True) + (imm12 << size)) & M64
                n = 1 << size
                if opc == 0:
                    self.mem.write(ea, (self.get(rd) & ((1 << (8 * n)) - 1)).to_bytes(n, "little"))
                else:
                    v = int.from_bytes(self.mem.read(ea, n), "little")
                    self.last_load = ea
                    if opc == 2:
                        v = sext(v, 8 * n) & M64
                    elif opc == 3:
                        v = sext(v, 8 * n) & 0xffffffff
                    self.set(rd, v)
        elif (insn & 0x3b000000) == 0x18000000:                     # ldr (literal)
            opc, vec = insn >> 30, (insn >> 26) & 1
            ea = (pc + (sext((insn >> 5) & 0x7ffff, 19) << 2)) & M64
            if vec or opc == 3:
                raise Unsupported(f"{insn:#010x} at {pc:#x}")
            self.last_load = ea
            if opc == 0:
                self.set(rd, self.mem.r32(ea))
            elif opc == 1:
                self.set(rd, self.mem.r64(ea))
            else:
                self.set(rd, sext(self.mem.r32(ea), 32))
        elif (insn & 0x7c000000) == 0x14000000:                     # b / bl
            if insn >> 31:
                self.x[30] = nxt
            nxt = (pc + (sext(insn & 0x3ffffff, 26) << 2)) & M64
        elif (insn & 0xff000010) == 0x54000000:                     # b.cond
            if self.cond(insn & 15):
                nxt = (pc + (sext((insn >> 5) & 0x7ffff, 19) << 2)) & M64
        elif (insn & 0x7e000000) == 0x34000000:                     # cbz / cbnz
            v = self.get(rd) & (M64 if insn >> 31 else 0xffffffff)
            if (v == 0) != bool((insn >> 24) & 1):
                nxt = (pc + (sext((insn >> 5) & 0x7ffff, 19) << 2)) & M64
        elif (insn & 0x7e000000) == 0x36000000:                     # tbz / tbnz
            bit = ((insn >> 31) << 5) | ((insn >> 19) & 31)
            if ((self.get(rd) >> bit) & 1) == ((insn >> 24) & 1):
                nxt = (pc + (sext((insn >> 5) & 0x3fff, 14) << 2)) & M64
        elif (insn & 0xfffffc1f) == 0xd61f0000:                     # br
            nxt = self.get(rn)
        elif (insn & 0xfffffc1f) == 0xd63f0000:                     # blr
            t = self.get(rn)
            self.x[30] = nxt
            nxt = t
        elif (insn & 0xfffffc1f) == 0xd65f0000:                     # ret
            nxt = self.get(rn)
        elif (insn & 0xffffffe0) == 0xd53bd040:                     # mrs xt, tpidr_el0
            self.set(rd, self.p.tp)
        else:
            raise Unsupported(f"instruction {insn:#010x} at {pc:#x}")
        self.pc = nxt

    @staticmethod
    def _shift(v, kind, amt, sf):
        bits = 64 if sf else 32
        mask = (1 << bits) - 1
        v &= mask
        if amt == 0:
            return v
        if kind == 0:
            return (v << amt) & mask
        if kind == 1:
            return v >> amt
        if kind == 2:
            return (sext(v, bits) >> amt) & mask
        return ((v >> amt) | (v << (bits - amt))) & mask
