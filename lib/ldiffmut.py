"""Single-site relocation corruptions of linked binaries, for the linker-diff check (C34).

Given a binary linked by wild with WILD_WRITE_LAYOUT=1 (so that `<out>.layout` records where every
input section was placed) this module

  * parses the `.layout` side file (postcard encoding of linker_layout::Layout),
  * enumerates every RELA record of every placed input section as a *site* at its output address,
  * works out, for each site, how the reference is materialised in the output (the relocated field
    in code/data, the GOT slot it goes through, the GOT slot behind its PLT stub, the dynamic
    relocation that will fill the field at load time) by checking candidate interpretations
    against the addresses of the referenced symbol (taken from the layout + the input object's
    symbol table, i.e. independent of the output's own symbol table where possible); only
    interpretations that verify exactly are used, everything else is counted as unclassified,
  * produces, for each materialised reference, the byte patches that redirect it alone to another
    location (next function/object, +8, address 0).

Nothing here knows anything about linker-diff."""
import os
import struct
from collections import namedtuple

import elfread as E

# ------------------------------------------------------------------------------------ side files


def layout_path(p):
    return p + ".layout"


def trace_path(p):
    """linker_trace::trace_path: base.with_extension(ext + ".trace") (so `w` -> `w..trace`)."""
    d, f = os.path.split(p)
    if "." in f.lstrip("."):
        stem, ext = f.rsplit(".", 1)
    else:
        stem, ext = f, ""
    return os.path.join(d, stem + "." + ext + ".trace")


def _varint(b, p):
    v = s = 0
    while True:
        c = b[p]
        p += 1
        v |= (c & 0x7f) << s
        s += 7
        if c < 0x80:
            return v, p


LayoutFile = namedtuple("LayoutFile", "path archive_entry sections temporary")


def parse_layout(data):
    """-> list of LayoutFile; sections[i] is None or (start, end) for input section index i."""
    p = 0
    n, p = _varint(data, p)
    files = []
    for _ in range(n):
        ln, p = _varint(data, p)
        path = data[p:p + ln].decode()
        p += ln
        opt = data[p]
        p += 1
        entry = None
        if opt == 1:
            a, p = _varint(data, p)
            b, p = _varint(data, p)
            ln, p = _varint(data, p)
            entry = (a, b, bytes(data[p:p + ln]))
            p += ln
        elif opt != 0:
            raise ValueError("layout: bad Option tag %d" % opt)
        ns, p = _varint(data, p)
        secs = []
        for _ in range(ns):
            o = data[p]
            p += 1
            if o == 0:
                secs.append(None)
            elif o == 1:
                a, p = _varint(data, p)
                b, p = _varint(data, p)
                secs.append((a, b))
            else:
                raise ValueError("layout: bad Option tag %d" % o)
        temp = data[p]
        p += 1
        files.append(LayoutFile(path, entry, secs, bool(temp)))
    if p < len(data):
        _, p = _varint(data, p)   # metrics.thunk_count
    if p != len(data):
        raise ValueError("layout: %d trailing bytes" % (len(data) - p))
    return files


# ------------------------------------------------------------------------------------ helpers

def s32(v):
    v &= 0xffffffff
    return v - (1 << 32) if v & 0x80000000 else v


def s64(v):
    v &= (1 << 64) - 1
    return v - (1 << 64) if v >> 63 else v


def sext(v, bits):
    v &= (1 << bits) - 1
    return v - (1 << bits) if v >> (bits - 1) else v


def sec_class(name):
    """Input section name -> class used in violation keys (.text.foo -> .text, ...)."""
    for p in (".text", ".data.rel.ro", ".rodata", ".data", ".bss", ".tdata", ".tbss",
              ".init_array", ".fini_array", ".preinit_array", ".eh_frame", ".ctors", ".dtors",
              ".gcc_except_table", ".ldata", ".lrodata"):
        if name == p or name.startswith(p + "."):
            return p
    return name


Patch = namedtuple("Patch", "off data")   # file offset, replacement bytes


class Image:
    """The wild-linked output plus the indexes the classification needs."""

    def __init__(self, path):
        self.path = path
        self.elf = E.Elf(path)
        e = self.elf
        self.machine = e.e_machine
        self.secs = [s for s in e.sections if s.sh_flags & E.SHF_ALLOC and s.sh_size]
        self.got_ranges = [(s.sh_addr, s.sh_addr + s.sh_size, s.name) for s in e.sections
                           if s.name in (".got", ".got.plt")]
        self.plt_ranges = [(s.sh_addr, s.sh_addr + s.sh_size, s.name) for s in e.sections
                           if s.name in (".plt", ".plt.got", ".plt.sec", ".iplt")]
        self.tls = next((p for p in e.segments if p.p_type == E.PT_TLS), None)
        self.is_dyn = e.e_type == E.ET_DYN
        syms = [s for s in e.symbols(".symtab")]
        self.symtab = syms
        self.by_name = {}
        for s in syms:
            if s.shndx != E.SHN_UNDEF and s.name and s.bind != E.STB_LOCAL:
                self.by_name.setdefault(s.name, s)
        self.dynsyms = e.symbols(".dynsym") if e.section(".dynsym") is not None else []
        for s in self.dynsyms:
            if s.shndx != E.SHN_UNDEF and s.name:
                self.by_name.setdefault(s.name, s)
        # dynamic relocation records by the address they fill: addr -> (file_off, type, sym, addend)
        self.dynrel = {}
        for s in e.sections:
            if s.sh_type == E.SHT_RELA and s.sh_flags & E.SHF_ALLOC:
                d = s.data
                for i in range(len(d) // 24):
                    o, info, a = struct.unpack_from("<QQq", d, i * 24)
                    self.dynrel.setdefault(o, []).append(
                        (s.sh_offset + i * 24, info & 0xffffffff, info >> 32, a))
        # function / object / tls symbol addresses for "next of the same kind"
        self.kind_addrs = {"func": set(), "data": set(), "tls": set()}
        for s in syms:
            if s.shndx in (E.SHN_UNDEF, E.SHN_ABS) or s.shndx >= len(e.sections):
                continue
            sec = e.sections[s.shndx]
            if not sec.sh_flags & E.SHF_ALLOC:
                continue
            if s.type == E.STT_TLS:
                self.kind_addrs["tls"].add(s.value + (self.tls.p_vaddr if self.tls else 0))
            elif s.type in (E.STT_FUNC, E.STT_GNU_IFUNC) and sec.sh_flags & E.SHF_EXECINSTR:
                self.kind_addrs["func"].add(s.value)
            elif s.type == E.STT_OBJECT and not sec.sh_flags & E.SHF_EXECINSTR:
                self.kind_addrs["data"].add(s.value)
        self.kind_addrs = {k: sorted(v) for k, v in self.kind_addrs.items()}

    # -- address helpers
    def off(self, vaddr):
        return self.elf.vaddr_to_offset(vaddr)

    def rd(self, vaddr, n):
        o = self.off(vaddr)
        if o is None or o + n > len(self.elf.data):
            return None
        return self.elf.data[o:o + n]

    def u32(self, vaddr):
        b = self.rd(vaddr, 4)
        return None if b is None else struct.unpack("<I", b)[0]

    def u64(self, vaddr):
        b = self.rd(vaddr, 8)
        return None if b is None else struct.unpack("<Q", b)[0]

    def in_got(self, a):
        return next((n for lo, hi, n in self.got_ranges if lo <= a < hi), None)

    def in_plt(self, a):
        return next((n for lo, hi, n in self.plt_ranges if lo <= a < hi), None)

    def section_at(self, a):
        for s in self.secs:
            if s.sh_addr <= a < s.sh_addr + s.sh_size:
                return s
        return None

    def kind_of_addr(self, a):
        s = self.section_at(a)
        if s is None:
            return None
        if s.sh_flags & E.SHF_TLS:
            return "tls"
        return "func" if s.sh_flags & E.SHF_EXECINSTR else "data"

    def next_of_kind(self, kind, anchor, avoid=()):
        """Address of the next symbol of `kind` strictly after `anchor` (wrapping), whose distance
        from the anchor is not in `avoid`."""
        lst = self.kind_addrs.get(kind) or []
        after = [a for a in lst if a > anchor] + [a for a in lst if a < anchor]
        for a in after:
            if a - anchor not in avoid:
                return a
        return None

    # -- TLS
    def tp(self):
        """x86-64 (variant II): thread pointer = end of the TLS block rounded up to its alignment."""
        t = self.tls
        if t is None:
            return None
        al = max(t.p_align, 1)
        return (t.p_vaddr + t.p_memsz + al - 1) // al * al

    def dynsym_name(self, idx):
        return self.dynsyms[idx].name if 0 <= idx < len(self.dynsyms) else None


# ------------------------------------------------------------------------------------ references
#
# A Ref describes one materialisation of a site's reference in the output and knows how to patch
# it so that it resolves to a different address / symbol.

class Ref:
    where = None      # None: the field is in the site's own section; else "got" / "gotplt"
    how = ""          # short description of the mechanism (for reports)

    def redirections(self, img):
        """-> list of (redir name, [Patch] or None, note). None = not applicable (counted)."""
        raise NotImplementedError


def choose_targets(img, ref):
    """redirection name -> (new address for the referenced thing or None, note)."""
    t = ref.target
    anchor = getattr(ref, "anchor", None)
    if anchor is None:
        anchor = t
    out = {}
    if getattr(ref, "is_got_field", False):
        rng = next(((lo, hi) for lo, hi, n in img.got_ranges if lo <= t < hi), None)
        nxt = None
        if rng:
            if t + 16 < rng[1]:
                nxt = t + 16
            elif t - 8 >= rng[0]:
                nxt = t - 8
        out["next"] = (nxt, "another GOT slot" if nxt is not None else "no other GOT slot")
    elif t is None:
        out["next"] = (None, "target address unknown")
    else:
        n = img.next_of_kind(ref.kind, anchor, avoid=(8,))
        if n is None:
            out["next"] = (None, "no other %s symbol" % ref.kind)
        else:
            out["next"] = (t + (n - anchor), "next %s symbol at %#x (after %#x)" % (ref.kind, n, anchor))
    out["plus8"] = (None if t is None else t + 8, "+8")
    out["zero"] = (None if t is None else 0, "symbol address 0")
    return out


class AddrRef(Ref):
    """A field whose stored integer moves 1:1 with the referenced address: a 32/64-bit absolute or
    PC-relative field in section contents and/or the addend of a RELATIVE-style dynamic relocation.
    `fields` = list of (file_off, width, signed) all of which hold a value that shifts with the
    target. `target` = the address currently referenced (symbol address S, addend excluded) or None
    when only the shifted value is known; `kind` = func/data/tls for choosing the next symbol;
    `zero_value` = value delta that makes the symbol part zero (None if not expressible)."""

    def __init__(self, img, fields, target, kind, how, where=None, zero_delta="sym",
                 tls_zero_abs=None):
        self.fields, self.target, self.kind, self.how, self.where = fields, target, kind, how, where
        self.zero_delta = zero_delta
        self.tls_zero_abs = tls_zero_abs

    def _shift(self, img, delta):
        out = []
        for off, width, signed in self.fields:
            fmt = {4: "<i" if signed else "<I", 8: "<q" if signed else "<Q"}[width]
            old = struct.unpack_from(fmt, img.elf.data, off)[0]
            new = old + delta
            if width == 4:
                # A 32-bit field of either signedness must keep denoting the same kind of value.
                if signed and not -(1 << 31) <= new < (1 << 31):
                    return None
                if not signed and not 0 <= new < (1 << 32):
                    return None
            else:
                new &= (1 << 64) - 1
                fmt = "<Q"
            data = struct.pack(fmt, new)
            if data == img.elf.data[off:off + width]:
                return None
            out.append(Patch(off, data))
        return out

    def redirections(self, img):
        res = []
        t = self.target
        tg = choose_targets(img, self)
        for name in ("next", "plus8"):
            new, note = tg[name]
            res.append((name, None if new is None else self._shift(img, new - t), note))
        if self.tls_zero_abs is not None:
            # TLS offsets: "address 0" = offset 0 from the thread pointer / module base.
            off, width, signed = self.fields[0]
            fmt = {4: "<i", 8: "<q"}[width]
            old = struct.unpack_from(fmt, img.elf.data, off)[0]
            p = self._shift(img, self.tls_zero_abs - old) if old != self.tls_zero_abs else None
            res.append(("zero", p, "TLS offset 0"))
        elif t is None:
            res.append(("zero", None, "target address unknown"))
        else:
            res.append(("zero", self._shift(img, -t), "symbol address 0"))
        return res


class DynSymRef(Ref):
    """A field filled at load time by symbolic dynamic relocation(s) (GLOB_DAT, JUMP_SLOT,
    R_*_64/ABS64, TPOFF64, DTPMOD64+DTPOFF64). Redirected by naming a different dynamic symbol,
    by the addend (only where the dynamic loader honours it) or by turning it into R_*_NONE."""

    def __init__(self, img, records, how, where=None, addend_honoured=False):
        self.records, self.how, self.where = records, how, where
        self.addend_honoured = addend_honoured

    def redirections(self, img):
        res = []
        off0, rtype0, sym0, add0 = self.records[0]
        cur = img.dynsyms[sym0]
        cands = [s for s in img.dynsyms[1:] if s.index != sym0 and s.type == cur.type and s.name]
        if not cands:
            cands = [s for s in img.dynsyms[1:] if s.index != sym0 and s.name and
                     s.type in (E.STT_FUNC, E.STT_OBJECT, E.STT_NOTYPE, E.STT_TLS,
                                E.STT_GNU_IFUNC)]
        after = [s for s in cands if s.index > sym0] + [s for s in cands if s.index < sym0]
        if after:
            n = after[0]
            ps = []
            for off, rtype, sym, add in self.records:
                ps.append(Patch(off + 8, struct.pack("<Q", (n.index << 32) | rtype)))
            res.append(("next", ps, "dynamic symbol %s -> %s" % (cur.name, n.name)))
        else:
            res.append(("next", None, "no other dynamic symbol"))
        if self.addend_honoured:
            off, rtype, sym, add = self.records[-1]
            res.append(("plus8", [Patch(off + 16, struct.pack("<q", add + 8))], "addend +8"))
        else:
            res.append(("plus8", None, "loader ignores the addend of this relocation type"))
        ps = [Patch(off + 8, struct.pack("<Q", 0)) for off, rtype, sym, add in self.records]
        res.append(("zero", ps, "dynamic relocation -> R_NONE (field stays 0)"))
        return res


_MECH = [
    ("link-time address in slot", "abs"), ("RELATIVE addend", "relative"),
    ("IRELATIVE resolver address", "irelative"), ("static TP offset in slot", "tpoff"),
    ("static DTP offset in slot", "dtpoff"), ("DTP offset in GD pair", "dtpoff"),
    ("TPOFF64 addend", "tpoff-addend"), ("address of PLT stub", "pltaddr"),
    ("absolute 32-bit", "abs32"), ("GOT-base-relative", "gotoff"),
    ("PC-relative to PLT stub", "to-plt"), ("branch to PLT stub", "to-plt"),
    ("PC-relative to GOT slot", "to-got"), ("ADRP to GOT page", "to-got"),
    ("LDR from GOT slot", "to-got"), ("relaxed GD->IE", "relaxed-to-got"),
    ("relaxed GOT load: absolute", "relaxed-abs32"), ("relaxed GOT load: PC-relative", "relaxed-pcrel"),
    ("relaxed IE->LE", "relaxed-tpoff"), ("relaxed GD->LE", "relaxed-tpoff"),
    ("relaxed GOT", "relaxed-imm"), ("PC-relative", "pcrel"), ("TP offset", "tpoff"),
    ("DTP offset", "dtpoff"), ("branch immediate", "imm"), ("ADRP page", "imm"),
    ("lo12 immediate", "imm"), ("ADR immediate", "imm"),
]


def mech_of(how):
    """Short slug of the mechanism through which a reference is materialised (for keys)."""
    if how.startswith("symbolic "):
        return "dyn-" + how[len("symbolic "):].replace("R_X86_64_", "").replace("R_AARCH64_", "")
    for prefix, slug in _MECH:
        if how.startswith(prefix):
            return slug
    return "other"


Site = namedtuple("Site", "obj secname secidx offset rtype rname symname symkind addend addr refs "
                  "unclassified")


# ------------------------------------------------------------------------------------ x86-64

X = {v: k for k, v in E.R_X86_64.items()}
R64, RPC32, RPLT32, RGOTPCREL, R32, R32S = (X["R_X86_64_64"], X["R_X86_64_PC32"],
                                            X["R_X86_64_PLT32"], X["R_X86_64_GOTPCREL"],
                                            X["R_X86_64_32"], X["R_X86_64_32S"])
RGOTPCRELX, RREXGOTPCRELX = X["R_X86_64_GOTPCRELX"], X["R_X86_64_REX_GOTPCRELX"]
RGOTTPOFF, RTLSGD, RTLSLD = X["R_X86_64_GOTTPOFF"], X["R_X86_64_TLSGD"], X["R_X86_64_TLSLD"]
RTPOFF32, RDTPOFF32, RPC64 = X["R_X86_64_TPOFF32"], X["R_X86_64_DTPOFF32"], X["R_X86_64_PC64"]
RTPOFF64, RDTPOFF64, RDTPMOD64 = (X["R_X86_64_TPOFF64"], X["R_X86_64_DTPOFF64"],
                                  X["R_X86_64_DTPMOD64"])
RRELATIVE, RGLOB_DAT, RJUMP_SLOT, RIRELATIVE = (X["R_X86_64_RELATIVE"], X["R_X86_64_GLOB_DAT"],
                                                X["R_X86_64_JUMP_SLOT"], X["R_X86_64_IRELATIVE"])
RGOTOFF64, RGOTPC32 = X["R_X86_64_GOTOFF64"], X["R_X86_64_GOTPC32"]


class Classifier:
    """Per-architecture interpretation of one site."""

    def __init__(self, img):
        self.img = img

    # --- the 8-byte slot at address g (in .got / .got.plt or a data pointer): how is it filled?
    def slot_ref(self, g, S, symname, kind, where, tls=None):
        """g: slot address. S: address the slot should denote (None if external). tls: None, or
        'tpoff' / 'dtpoff' when the slot holds a TLS offset of the symbol at image address S.
        Returns (Ref or None, reason)."""
        img = self.img
        off = img.off(g)
        if off is None:
            return None, "slot not file-backed"
        content = img.u64(g)
        recs = img.dynrel.get(g, [])
        rel_t, glob_t, jump_t, irel_t, abs_t, tpoff_t, dtpoff_t, dtpmod_t = self.DYN
        if not recs:
            if tls == "tpoff":
                want = self.tpoff(S)
                if want is not None and s64(content) == want:
                    return AddrRef(img, [(off, 8, True)], S, "tls", "static TP offset in slot",
                                   where, tls_zero_abs=0), ""
                return None, "slot content is not the TP offset"
            if tls == "dtpoff":
                if S is not None and img.tls and content == S - img.tls.p_vaddr:
                    return AddrRef(img, [(off, 8, True)], S, "tls", "static DTP offset in slot",
                                   where, tls_zero_abs=0), ""
                return None, "slot content is not the DTP offset"
            if S is not None and content == S:
                return AddrRef(img, [(off, 8, False)], S, kind, "link-time address in slot",
                               where), ""
            return None, "slot content %#x does not denote the symbol" % content
        types = [r[1] for r in recs]
        if len(recs) == 1 and types[0] == rel_t:
            roff, _, _, add = recs[0]
            if S is not None and add == S and tls is None:
                f = [(roff + 16, 8, True)]
                if content == S:
                    f.append((off, 8, False))
                return AddrRef(img, f, S, kind, "RELATIVE addend", where), ""
            return None, "RELATIVE addend %#x does not denote the symbol" % add
        if len(recs) == 1 and types[0] == irel_t:
            roff, _, _, add = recs[0]
            f = [(roff + 16, 8, True)]
            if content == add:
                f.append((off, 8, False))
            return AddrRef(img, f, add, "func", "IRELATIVE resolver address", where), ""
        if len(recs) == 1 and types[0] in (glob_t, jump_t, abs_t) and recs[0][2]:
            if img.dynsym_name(recs[0][2]) != symname:
                return None, "dynamic relocation names another symbol"
            return DynSymRef(img, recs, "symbolic %s" % img.elf.reloc_name(types[0]), where,
                             addend_honoured=types[0] == abs_t), ""
        if len(recs) == 1 and types[0] == tpoff_t and tls == "tpoff":
            roff, _, sym, add = recs[0]
            if sym:
                if img.dynsym_name(sym) != symname:
                    return None, "dynamic relocation names another symbol"
                return DynSymRef(img, recs, "symbolic TPOFF64", where, addend_honoured=True), ""
            if S is not None and img.tls and add == S - img.tls.p_vaddr:
                return AddrRef(img, [(roff + 16, 8, True)], S, "tls", "TPOFF64 addend", where,
                               tls_zero_abs=0), ""
            return None, "TPOFF64 addend does not denote the symbol"
        return None, "unhandled dynamic relocation(s) %s" % [img.elf.reloc_name(t) for t in types]

    def gd_pair_ref(self, g, S, symname, where):
        """General-dynamic pair at g (module id) / g+8 (offset)."""
        img = self.img
        rel_t, glob_t, jump_t, irel_t, abs_t, tpoff_t, dtpoff_t, dtpmod_t = self.DYN
        r0, r1 = img.dynrel.get(g, []), img.dynrel.get(g + 8, [])
        off1 = img.off(g + 8)
        if off1 is None:
            return None, "slot not file-backed"
        if len(r0) == 1 and r0[0][1] == dtpmod_t and r0[0][2] and len(r1) == 1 and \
                r1[0][1] == dtpoff_t and r1[0][2] == r0[0][2]:
            if img.dynsym_name(r0[0][2]) != symname:
                return None, "dynamic relocation names another symbol"
            return DynSymRef(img, [r0[0], r1[0]], "symbolic DTPMOD64+DTPOFF64", where,
                             addend_honoured=True), ""
        if not r1 and (not r0 or (len(r0) == 1 and r0[0][1] == dtpmod_t and not r0[0][2])):
            c = img.u64(g + 8)
            if S is not None and img.tls and c == S - img.tls.p_vaddr:
                return AddrRef(img, [(off1, 8, True)], S, "tls", "DTP offset in GD pair", where,
                               tls_zero_abs=0), ""
            return None, "GD pair offset word does not denote the symbol"
        return None, "unhandled GD pair relocations"


class X86(Classifier):
    DYN = (RRELATIVE, RGLOB_DAT, RJUMP_SLOT, RIRELATIVE, R64, RTPOFF64, RDTPOFF64, RDTPMOD64)
    NAMES = E.R_X86_64

    def tpoff(self, S):
        tp = self.img.tp()
        return None if tp is None or S is None else S - tp

    def plt_slot(self, v):
        """GOT slot address used by the PLT stub at v (jmp *disp(%rip) within its 16 bytes)."""
        b = self.img.rd(v, 16)
        if b is None:
            return None
        i = b.find(b"\xff\x25")
        if i < 0 or i + 6 > len(b):
            return None
        return v + i + 6 + s32(struct.unpack_from("<I", b, i + 2)[0])

    def classify(self, P, rtype, A, S, symname, kind, is_tls_sym):
        """-> (list of Ref, reason-if-empty)."""
        img = self.img
        off = img.off(P)
        if off is None:
            return [], "field not file-backed"
        refs = []
        if rtype == R64:
            r, why = self.slot_ref(P, None if S is None else S + A, symname, kind, None)
            if r is None and S is not None and not img.dynrel.get(P):
                # non-PIC reference to an ifunc / function in a shared library: canonical PLT
                v = img.u64(P)
                if img.in_plt(v - A):
                    r = AddrRef(img, [(off, 8, False)], v - A, "func", "address of PLT stub")
            if r is None:
                return [], why
            if isinstance(r, AddrRef) and r.target is not None and S is not None \
                    and r.how != "IRELATIVE resolver address" and r.how != "address of PLT stub":
                r.target = S          # anchor on the symbol, not symbol+addend
            return [r], ""
        if rtype in (R32, R32S):
            v = img.u32(P)
            if S is not None and (v == (S + A) & 0xffffffff) and not img.is_dyn:
                return [AddrRef(img, [(off, 4, rtype == R32S)], S, kind, "absolute 32-bit")], ""
            return [], "32-bit field %#x does not denote the symbol" % v
        if rtype == RPC64:
            v = s64(img.u64(P))
            if S is not None and v == S + A - P:
                return [AddrRef(img, [(off, 8, True)], S, kind, "PC-relative 64-bit")], ""
            return [], "64-bit PC-relative field does not denote the symbol"
        if rtype == RGOTOFF64:
            gb = img.by_name.get("_GLOBAL_OFFSET_TABLE_")
            v = s64(img.u64(P))
            if S is not None and gb is not None and v == S + A - gb.value:
                return [AddrRef(img, [(off, 8, True)], S, kind, "GOT-base-relative 64-bit")], ""
            return [], "GOTOFF64 field does not denote the symbol"
        if rtype in (RTPOFF32, RDTPOFF32):
            v = s32(img.u32(P))
            want = self.tpoff(S)
            if want is not None and v == want + A:
                return [AddrRef(img, [(off, 4, True)], S, "tls", "TP offset", tls_zero_abs=A)], ""
            if rtype == RDTPOFF32 and S is not None and img.tls and \
                    v == S - img.tls.p_vaddr + A:
                return [AddrRef(img, [(off, 4, True)], S, "tls", "DTP offset", tls_zero_abs=A)], ""
            return [], "TLS offset field %#x does not denote the symbol" % v
        if rtype in (RPC32, RPLT32, RGOTPCREL, RGOTPCRELX, RREXGOTPCRELX, RGOTTPOFF, RTLSGD,
                     RTLSLD, RGOTPC32):
            f = s32(img.u32(P))
            V = P + f - A
            if rtype in (RPC32, RPLT32, RGOTPC32):
                if S is not None and V == S:
                    return [AddrRef(img, [(off, 4, True)], S, kind, "PC-relative")], ""
                if S is None and V == 0 - 0 and False:
                    pass
                pn = img.in_plt(V)
                if pn:
                    refs.append(AddrRef(img, [(off, 4, True)], V, "func",
                                        "PC-relative to PLT stub in " + pn))
                    g = self.plt_slot(V)
                    if g is not None and img.in_got(g):
                        r, why = self.slot_ref(g, S, symname, "func",
                                               "gotplt" if img.in_got(g) == ".got.plt" else "got")
                        if r is not None:
                            refs.append(r)
                    return refs, ""
                return [], "PC-relative field resolves to %#x, not the symbol%s" % (
                    V, "" if S is None else " at %#x" % S)
            gn = img.in_got(V)
            if gn:
                where = "gotplt" if gn == ".got.plt" else "got"
                # the code field: redirect to another slot
                fr = AddrRef(img, [(off, 4, True)], V, "data", "PC-relative to GOT slot")
                fr.is_got_field = True
                refs.append(fr)
                if rtype == RGOTTPOFF:
                    r, why = self.slot_ref(V, S, symname, "tls", where, tls="tpoff")
                elif rtype == RTLSGD:
                    r, why = self.gd_pair_ref(V, S, symname, where)
                elif rtype == RTLSLD:
                    r, why = None, "module-id slot holds no address"
                else:
                    r, why = self.slot_ref(V, S, symname, kind, where)
                if r is not None:
                    refs.append(r)
                else:
                    fr.slot_reason = why
                return refs, ""
            # relaxed forms
            if rtype in (RGOTPCREL, RGOTPCRELX, RREXGOTPCRELX):
                if S is not None and V == S:
                    return [AddrRef(img, [(off, 4, True)], S, kind,
                                    "relaxed GOT load: PC-relative")], ""
                v = img.u32(P)
                if S is not None and not img.is_dyn and v == S & 0xffffffff:
                    return [AddrRef(img, [(off, 4, False)], S, kind,
                                    "relaxed GOT load: absolute immediate")], ""
            if rtype == RGOTTPOFF:
                want = self.tpoff(S)
                if want is not None and f == want:
                    return [AddrRef(img, [(off, 4, True)], S, "tls",
                                    "relaxed IE->LE: TP offset immediate", tls_zero_abs=0)], ""
            if rtype == RTLSGD:
                want = self.tpoff(S)
                f8 = img.u32(P + 8)
                o8 = img.off(P + 8)
                if want is not None and f8 is not None and s32(f8) == want:
                    return [AddrRef(img, [(o8, 4, True)], S, "tls",
                                    "relaxed GD->LE: TP offset immediate", tls_zero_abs=0)], ""
                if f8 is not None:
                    V8 = P + 8 + 4 + s32(f8)
                    if img.in_got(V8):
                        where = "gotplt" if img.in_got(V8) == ".got.plt" else "got"
                        fr = AddrRef(img, [(o8, 4, True)], V8, "data",
                                     "relaxed GD->IE: PC-relative to GOT slot")
                        fr.is_got_field = True
                        refs.append(fr)
                        r, why = self.slot_ref(V8, S, symname, "tls", where, tls="tpoff")
                        if r is not None:
                            refs.append(r)
                        return refs, ""
            if rtype == RTLSLD:
                return [], "relaxed LD->LE leaves no relocated field"
            return [], "field resolves to %#x: neither the symbol, a GOT slot nor a known " \
                       "relaxation" % V
        return [], "relocation type not modelled"


# ------------------------------------------------------------------------------------ AArch64

A64 = {v: k for k, v in E.R_AARCH64.items()}


def _a(n):
    return A64["R_AARCH64_" + n]


class AFieldRef(Ref):
    """An AArch64 instruction immediate that encodes part of an address. `enc(addr)` returns the
    new 32-bit instruction word for a reference to `addr` (symbol part; the addend is added
    inside) or None when not encodable."""

    def __init__(self, img, off, target, kind, enc, how, where=None):
        self.off, self.target, self.kind, self.enc, self.how, self.where = \
            off, target, kind, enc, how, where

    def redirections(self, img):
        res = []
        old = img.elf.data[self.off:self.off + 4]
        tg = choose_targets(img, self)
        for name in ("next", "plus8", "zero"):
            addr, note = tg[name]
            p = None
            if addr is not None:
                w = self.enc(addr)
                if w is not None:
                    d = struct.pack("<I", w)
                    if d != old:
                        p = [Patch(self.off, d)]
                    else:
                        note += " (encoding unchanged)"
                else:
                    note += " (not encodable)"
            res.append((name, p, note))
        return res


def _page(x):
    return x & ~0xfff


class A64C(Classifier):
    DYN = (_a("RELATIVE"), _a("GLOB_DAT"), _a("JUMP_SLOT"), _a("IRELATIVE"), _a("ABS64"),
           _a("TLS_TPREL"), _a("TLS_DTPREL"), _a("TLS_DTPMOD"))
    NAMES = E.R_AARCH64

    def tpoff(self, S):
        t = self.img.tls
        if t is None or S is None:
            return None
        al = max(t.p_align, 1)
        return S - t.p_vaddr + (16 + al - 1) // al * al

    def plt_slot(self, v):
        """adrp x16, page; ldr x17, [x16, #lo]; add x16, x16, #lo; br x17"""
        b = self.img.rd(v, 16)
        if b is None:
            return None
        w0, w1 = struct.unpack_from("<II", b)
        if w0 & 0x9f00001f != 0x90000010 or w1 & 0xffc003ff != 0xf9400211:
            return None
        imm = sext(((w0 >> 5) & 0x7ffff) << 2 | (w0 >> 29) & 3, 21)
        return _page(v) + (imm << 12) + ((w1 >> 10) & 0xfff) * 8

    def got_slots_for(self, S, symname, kind):
        """All .got/.got.plt slots that denote the symbol."""
        img = self.img
        out = []
        for lo, hi, n in img.got_ranges:
            for g in range(lo, hi, 8):
                r, _ = self.slot_ref(g, S, symname, kind, "gotplt" if n == ".got.plt" else "got")
                if r is not None:
                    out.append((g, r))
        return out

    def classify(self, P, rtype, A, S, symname, kind, is_tls_sym):
        img = self.img
        off = img.off(P)
        if off is None:
            return [], "field not file-backed"
        name = E.R_AARCH64.get(rtype, "?")[len("R_AARCH64_"):]
        if name == "ABS64":
            r, why = self.slot_ref(P, None if S is None else S + A, symname, kind, None)
            if r is None:
                return [], why
            if isinstance(r, AddrRef) and S is not None and r.how != "IRELATIVE resolver address":
                r.target = S
            return [r], ""
        if name in ("PREL32", "PLT32"):
            f = s32(img.u32(P))
            if S is not None and P + f - A == S:
                return [AddrRef(img, [(off, 4, True)], S, kind, "PC-relative 32-bit data")], ""
            return [], "PREL32 field does not denote the symbol"
        if name == "PREL64":
            f = s64(img.u64(P))
            if S is not None and P + f - A == S:
                return [AddrRef(img, [(off, 8, True)], S, kind, "PC-relative 64-bit data")], ""
            return [], "PREL64 field does not denote the symbol"
        w = img.u32(P)
        if name in ("CALL26", "JUMP26"):
            if w & 0x7c000000 != 0x14000000:
                return [], "not a B/BL instruction (%#x)" % w
            V = P + (sext(w, 26) << 2) - A

            def enc_b(addr, w=w, P=P, A=A):
                d = addr + A - P
                if d & 3 or not -(1 << 27) <= d < (1 << 27):
                    return None
                return (w & 0xfc000000) | ((d >> 2) & 0x3ffffff)
            if S is not None and V == S:
                return [AFieldRef(img, off, S, kind, enc_b, "branch immediate")], ""
            pn = img.in_plt(V)
            if pn:
                refs = [AFieldRef(img, off, V, "func", enc_b, "branch to PLT stub in " + pn)]
                g = self.plt_slot(V)
                if g is not None and img.in_got(g):
                    r, why = self.slot_ref(g, S, symname, "func",
                                           "gotplt" if img.in_got(g) == ".got.plt" else "got")
                    if r is not None:
                        refs.append(r)
                return refs, ""
            return [], "branch resolves to %#x, not the symbol" % V
        if name in ("ADR_PREL_PG_HI21", "ADR_PREL_PG_HI21_NC", "ADR_GOT_PAGE"):
            if w & 0x9f000000 != 0x90000000:
                return [], "not an ADRP instruction (%#x)" % w
            imm = sext(((w >> 5) & 0x7ffff) << 2 | (w >> 29) & 3, 21)
            pg = _page(P) + (imm << 12)

            def enc_adrp(addr, w=w, P=P, A=A):
                d = (_page(addr + A) - _page(P)) >> 12
                if not -(1 << 20) <= d < (1 << 20):
                    return None
                return (w & 0x9f00001f) | ((d & 3) << 29) | (((d >> 2) & 0x7ffff) << 5)
            if name == "ADR_GOT_PAGE":
                slots = [(g, r) for g, r in self.got_slots_for(S, symname, kind)
                         if _page(g) == pg]
                if len(slots) == 1:
                    g, r = slots[0]
                    fr = AFieldRef(img, off, g, "data",
                                   lambda addr, w=w, P=P: enc_adrp(addr - A), "ADRP to GOT page")
                    fr.is_got_field = True
                    fr.slot_addr = g
                    return [fr, r], ""
                if S is not None and pg == _page(S + A) and not slots:
                    return [AFieldRef(img, off, S, kind, enc_adrp, "relaxed GOT ADRP: symbol page")], ""
                return [], "ADRP page %#x matches %d GOT slots of the symbol" % (pg, len(slots))
            if S is not None and pg == _page(S + A):
                return [AFieldRef(img, off, S, kind, enc_adrp, "ADRP page")], ""
            return [], "ADRP page %#x is not the symbol's page" % pg
        if name == "ADR_PREL_LO21":
            if w & 0x9f000000 != 0x10000000:
                return [], "not an ADR instruction"
            imm = sext(((w >> 5) & 0x7ffff) << 2 | (w >> 29) & 3, 21)

            def enc_adr(addr, w=w, P=P, A=A):
                d = addr + A - P
                if not -(1 << 20) <= d < (1 << 20):
                    return None
                return (w & 0x9f00001f) | ((d & 3) << 29) | (((d >> 2) & 0x7ffff) << 5)
            if S is not None and P + imm == S + A:
                return [AFieldRef(img, off, S, kind, enc_adr, "ADR immediate")], ""
            return [], "ADR does not denote the symbol"
        lo12 = {"ADD_ABS_LO12_NC": 0, "LDST8_ABS_LO12_NC": 0, "LDST16_ABS_LO12_NC": 1,
                "LDST32_ABS_LO12_NC": 2, "LDST64_ABS_LO12_NC": 3, "LDST128_ABS_LO12_NC": 4,
                "LD64_GOT_LO12_NC": 3}
        if name in lo12:
            sh = lo12[name]
            imm = (w >> 10) & 0xfff
            is_add = w & 0x7f800000 == 0x11000000
            is_ldst = w & 0x3b000000 == 0x39000000

            def enc_lo(addr, w=w, A=A, sh=sh):
                v = (addr + A) & 0xfff
                if v & ((1 << sh) - 1):
                    return None
                return (w & ~(0xfff << 10)) | ((v >> sh) << 10)
            if name == "LD64_GOT_LO12_NC":
                if is_ldst:
                    slots = [(g, r) for g, r in self.got_slots_for(S, symname, kind)
                             if (g & 0xfff) >> 3 == imm]
                    if len(slots) == 1:
                        g, r = slots[0]
                        fr = AFieldRef(img, off, g, "data",
                                       lambda addr, w=w: enc_lo(addr - A), "LDR from GOT slot lo12")
                        fr.is_got_field = True
                        fr.slot_addr = g
                        return [fr], ""     # the slot itself is enumerated with the ADRP
                    return [], "GOT load lo12 matches %d GOT slots of the symbol" % len(slots)
                if is_add and S is not None and imm == (S + A) & 0xfff:
                    return [AFieldRef(img, off, S, kind,
                                      lambda addr, w=w, A=A: (w & ~(0xfff << 10)) |
                                      (((addr + A) & 0xfff) << 10),
                                      "relaxed GOT load: ADD lo12")], ""
                return [], "GOT lo12 instruction not recognised (%#x)" % w
            if not (is_add if sh == 0 and name.startswith("ADD") else is_ldst):
                return [], "unexpected instruction %#x for %s" % (w, name)
            if S is not None and imm == ((S + A) & 0xfff) >> sh:
                return [AFieldRef(img, off, S, kind, enc_lo, "lo12 immediate")], ""
            return [], "lo12 immediate does not denote the symbol"
        if name in ("TLSLE_ADD_TPREL_HI12", "TLSLE_ADD_TPREL_LO12", "TLSLE_ADD_TPREL_LO12_NC"):
            tv = self.tpoff(S)
            if tv is None:
                return [], "no TLS segment / symbol"
            imm = (w >> 10) & 0xfff
            hi = name.endswith("HI12")

            def enc_tp(addr, w=w, A=A, hi=hi):
                v = self.tpoff(addr) + A
                if not 0 <= v < (1 << 24):
                    return None
                return (w & ~(0xfff << 10)) | ((((v >> 12) if hi else v) & 0xfff) << 10)
            if imm == (((tv + A) >> 12) if hi else (tv + A)) & 0xfff:
                r = AFieldRef(img, off, S, "tls", enc_tp, "TP offset %s" % ("hi12" if hi else "lo12"))
                return [r], ""
            return [], "TP offset immediate does not denote the symbol"
        return [], "relocation type not modelled"


# ------------------------------------------------------------------------------------ enumeration

PCREL32_NAMES = {"R_X86_64_PC32", "R_X86_64_PLT32", "R_X86_64_GOTPCREL", "R_X86_64_GOTPCRELX",
                 "R_X86_64_REX_GOTPCRELX"}


def _string_candidates(img, dsec, symvalue, addend, rname):
    """Possible values of S (address corresponding to `symvalue` of the input string section) such
    that the string referenced by S+addend (+4 for x86 PC-relative fields, which normally sit at
    the end of the instruction) is found in an output SHF_STRINGS section."""
    bias = 4 if rname in PCREL32_NAMES else 0
    pos = symvalue + addend + bias
    data = dsec.data
    if not 0 <= pos < len(data):
        return []
    end = data.find(b"\0", pos)
    if end < 0:
        return []
    needle = data[pos:end + 1]
    out = []
    for s in img.elf.sections:
        if s.sh_flags & E.SHF_ALLOC and s.sh_flags & E.SHF_STRINGS and s.sh_type == E.SHT_PROGBITS:
            d = s.data
            i = d.find(needle)
            while i >= 0:
                out.append(s.sh_addr + i - addend - bias)
                i = d.find(needle, i + 1)
    return out[:64]


def enumerate_sites(img, layout_files, stats):
    """-> list of Site for every RELA record of every allocated input section that the layout says
    was copied to the output. `stats` (dict) receives counts of what was left out and why."""
    cls = X86(img) if img.machine == E.EM_X86_64 else A64C(img)
    names = cls.NAMES
    # global definitions through the layout: name -> address
    objs = []
    gdef = {}
    for lf in layout_files:
        if lf.archive_entry is not None:
            with open(lf.path, "rb") as f:
                data = f.read()[lf.archive_entry[0]:lf.archive_entry[1]]
            obj = E.Elf(data=data)
        else:
            obj = E.Elf(lf.path)
        objs.append(obj)
        if obj.e_type != E.ET_REL:
            continue
        for s in obj.symbols(".symtab"):
            if s.bind != E.STB_LOCAL and s.shndx not in (E.SHN_UNDEF, E.SHN_ABS, E.SHN_COMMON) \
                    and s.shndx < len(lf.sections) and lf.sections[s.shndx] is not None:
                gdef.setdefault(s.name, lf.sections[s.shndx][0] + s.value)
    sites = []
    for lf, obj in zip(layout_files, objs):
        if obj.e_type != E.ET_REL:
            continue
        syms = obj.symbols(".symtab")
        for r in obj.relocations():
            tsec = obj.sections[r.target_section_index]
            if not tsec.sh_flags & E.SHF_ALLOC:
                stats["skipped_nonalloc"] = stats.get("skipped_nonalloc", 0) + 1
                continue
            rname = names.get(r.type, "R_%d" % r.type)
            place = lf.sections[r.target_section_index] \
                if r.target_section_index < len(lf.sections) else None
            if place is None:
                k = "unmapped:%s" % sec_class(tsec.name)
                stats[k] = stats.get(k, 0) + 1
                continue
            P = place[0] + r.offset
            sym = syms[r.sym_index]
            is_tls = sym.type == E.STT_TLS
            S = None
            symkind = "named"
            symname = sym.name
            if sym.type == E.STT_SECTION or not sym.name:
                symkind = "section"
            if sym.shndx not in (E.SHN_UNDEF, E.SHN_ABS, E.SHN_COMMON) and \
                    sym.shndx < len(obj.sections):
                dsec = obj.sections[sym.shndx]
                if dsec.sh_flags & E.SHF_MERGE:
                    symkind = "mergesec" if symkind == "section" else "mergesym"
                if sym.type == E.STT_SECTION:
                    symname = dsec.name
                pl = lf.sections[sym.shndx] if sym.shndx < len(lf.sections) else None
                if pl is not None:
                    S = pl[0] + sym.value
                    if dsec.sh_flags & E.SHF_TLS and sym.type != E.STT_TLS:
                        is_tls = True
            elif sym.shndx == E.SHN_ABS:
                symkind = "absolute"
            else:
                if sym.name in gdef:
                    S = gdef[sym.name]
                elif sym.name in img.by_name:
                    o = img.by_name[sym.name]
                    if o.shndx != E.SHN_ABS:
                        S = o.value + (img.tls.p_vaddr if o.type == E.STT_TLS and img.tls else 0)
                        if o.type == E.STT_TLS:
                            is_tls = True
                elif sym.bind == E.STB_WEAK:
                    symkind = "undefweak"
                else:
                    symkind = "external"
            if S is not None and not is_tls:
                ds = img.section_at(S)
                if ds is not None and ds.sh_flags & E.SHF_TLS:
                    is_tls = True
            kind = "tls" if is_tls else (img.kind_of_addr(S) if S is not None else None)
            if kind is None:
                kind = "func" if sym.type in (E.STT_FUNC, E.STT_GNU_IFUNC) else "data"
            if symkind == "absolute":
                refs, why = [], "absolute symbol"
            else:
                cands = [S]
                if S is None and symkind in ("mergesec", "mergesym"):
                    # A string of a merged-string section: its output address is wherever the
                    # same bytes are in an output string section; the candidate is accepted only
                    # if the relocated field then verifies against it.
                    cands = _string_candidates(img, dsec, sym.value, r.addend, rname)
                    kind = "data"
                refs, why = [], "merged string not found in the output"
                for Sc in cands:
                    try:
                        refs, why = cls.classify(P, r.type, r.addend, Sc, sym.name, kind, is_tls)
                    except (struct.error, TypeError) as ex:
                        refs, why = [], "classification error: %r" % (ex,)
                    if refs:
                        S = Sc
                        break
            if S is not None and symkind in ("section", "mergesec") and not is_tls:
                # Reference through a section symbol: "the next object" is taken relative to the
                # symbol that contains the referenced location.
                bias = 4 if rname in PCREL32_NAMES else 0
                lst = img.kind_addrs.get(kind) or []
                below = [a for a in lst if a <= S + r.addend + bias]
                if below:
                    for rf in refs:
                        if getattr(rf, "target", None) == S:
                            rf.anchor = below[-1]
            sites.append(Site(lf.path, tsec.name, r.target_section_index, r.offset, r.type, rname,
                              symname, symkind, r.addend, P, refs, why))
    return sites


def apply_patches(data, patches):
    b = bytearray(data)
    for off, d in patches:
        b[off:off + len(d)] = d
    return bytes(b)
