"""Helpers shared by the linker-script checks (C15, C16): a wild link through the in-process server
that also returns the panic text, a GNU ld run, per-process scratch directories."""
import os
import subprocess

import vlib
import wildrun

# Symbolising a backtrace of the 50 MB hooks-on binary costs seconds per panic; servers inherit
# this process's environment.
os.environ["RUST_BACKTRACE"] = "0"

_DIRS = {}


def workdir(base):
    """A private directory below `base` for the calling process (pool worker)."""
    key = (os.getpid(), base)
    d = _DIRS.get(key)
    if d is None:
        d = _DIRS[key] = os.path.join(base, f"w{os.getpid()}")
        os.makedirs(d, exist_ok=True)
    return d


def _server_procs():
    out = []
    for k, s in list(getattr(wildrun, "_SRV", {}).items()):
        if isinstance(k, tuple) and k and k[0] == os.getpid():
            p = getattr(s, "p", None)
            if p is not None:
                out.append(p)
    return out


def _panic_line(text):
    """'panicked at <file>:<line>:<col>: <message>' from a Rust panic report, or ''."""
    i = text.find("panicked at ")
    if i < 0:
        return ""
    rest = text[i:].split("\n")
    loc = rest[0].rstrip(":").strip()
    msg = rest[1].strip() if len(rest) > 1 else ""
    return f"{loc}: {msg}"


def wild_link(argv, cwd):
    """server_link plus the panic message. Returns (rc, message). For rc 101 the message is
    'panicked at <loc>: <text>' (taken from the dead server's stderr; if that is not available the
    member is re-run as a real subprocess)."""
    procs = _server_procs()
    rc, msg = wildrun.server_link(argv, cwd=cwd)
    for _retry in range(3):
        if rc in (0, 1, 101):
            break
        # The server died of a signal or timed out: on this shared box that is somebody else's
        # kill / overload, not wild. The next request starts a fresh server.
        procs = _server_procs()
        rc, msg = wildrun.server_link(argv, cwd=cwd)
    if rc != 101:
        return rc, msg
    text = ""
    for p in procs:
        try:
            if p.poll() is not None and p.stderr is not None:
                text += p.stderr.read().decode("utf-8", "replace")
        except (OSError, ValueError):
            pass
    line = _panic_line(text)
    if not line:
        r, _o, e = wildrun.link_subprocess(argv, cwd=cwd, env={"RUST_BACKTRACE": "0"})
        line = _panic_line(e.decode("utf-8", "replace")) or f"panic (no message; subprocess rc={r})"
    return 101, line


def gnu_ld(argv, cwd, timeout=300):
    """Run GNU ld. Returns (rc, stderr text without the RWX-segment warning)."""
    try:
        p = subprocess.run(["ld", *argv], cwd=cwd, stdin=subprocess.DEVNULL,
                           stdout=subprocess.PIPE, stderr=subprocess.PIPE, timeout=timeout)
    except subprocess.TimeoutExpired:
        return "timeout", ""
    err = "\n".join(l for l in p.stderr.decode("utf-8", "replace").splitlines()
                    if "RWX permissions" not in l and "missing .note.GNU-stack" not in l)
    return p.returncode, err
