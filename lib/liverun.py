"""Running wild as a real process and knowing when *everything* it started has gone.

In fork mode (the default) wild's parent exits as soon as the child has written the output; the
child keeps shutting down in the background (and a background rayon task may still be removing the
renamed old output). Checks that look at the file system after a link (C19, C21) therefore need to
wait for every descendant, not just for the process they started. Each started wild gets the write
end of a private "liveness" pipe as an extra inherited descriptor; the read end reaches EOF exactly
when the last process holding it has exited.
"""
import os
import select
import subprocess
import time

import vlib


def clean_env(extra=None):
    """The caller's environment without anything that changes wild's behaviour, plus `extra`."""
    env = {k: v for k, v in os.environ.items()
           if not k.startswith("WILD_") and k not in ("MAKEFLAGS", "CARGO_MAKEFLAGS", "TMPDIR")}
    env["RUST_BACKTRACE"] = "0"
    if extra:
        env.update(extra)
    return env


def spawn_wild(argv, cwd, env=None, wild=None):
    """Start wild. Returns (Popen, fd); fd reaches EOF once wild and all its descendants exited."""
    r, w = os.pipe()
    p = subprocess.Popen([wild or vlib.WILD, *argv], cwd=cwd, env=clean_env(env),
                         stdin=subprocess.DEVNULL, stdout=subprocess.PIPE, stderr=subprocess.PIPE,
                         pass_fds=(w,))
    os.close(w)
    return p, r


def wait_all_exited(fd, timeout):
    """Wait for EOF on the liveness pipe (closes it). True if every holder exited in time."""
    deadline = time.time() + timeout
    try:
        while True:
            left = deadline - time.time()
            if left <= 0:
                return False
            rl, _, _ = select.select([fd], [], [], left)
            if rl and os.read(fd, 4096) == b"":
                return True
    finally:
        os.close(fd)


def run_wild(argv, cwd, env=None, timeout=90, wild=None):
    """Run wild to quiescence. Returns (rc, stdout, stderr); rc is the exit status of the started
    process, or 'timeout' / 'descendant-timeout'."""
    p, fd = spawn_wild(argv, cwd, env, wild)
    try:
        out, err = p.communicate(timeout=timeout)
    except subprocess.TimeoutExpired:
        p.kill()
        out, err = p.communicate()
        os.close(fd)
        return "timeout", out, err
    if not wait_all_exited(fd, timeout):
        return "descendant-timeout", out, err
    return p.returncode, out, err
