"""Minimal raw ELF64 (x86-64, little endian) relocatable-object writer and section reader.

Used by checks that need input sections with *arbitrary byte-string names* (C15: names containing
`*`, `?`, `[`, the empty name), which an assembler would quote, reject or rewrite. Nothing here
calls an external tool.

    obj = minielf.write_object([(b".t*x", b"\\x01\\x00\\x00\\x00"), ...], start_in=b".start")
    secs = minielf.read_sections(open("out", "rb").read())   # [(name bytes, sh_type, flags, data)]
"""
import struct

SHT_NULL, SHT_PROGBITS, SHT_SYMTAB, SHT_STRTAB, SHT_NOBITS = 0, 1, 2, 3, 8
SHF_WRITE, SHF_ALLOC, SHF_EXECINSTR = 1, 2, 4
ET_REL, EM_X86_64 = 1, 62


class _Strtab:
    def __init__(self):
        self.data = bytearray(b"\0")
        self.seen = {b"": 0}

    def add(self, s):
        if s not in self.seen:
            self.seen[s] = len(self.data)
            self.data += s + b"\0"
        return self.seen[s]


def write_object(sections, start_in=b".start", start_sym=b"_start", flags=SHF_ALLOC,
                 extra_syms=(), start_code=b"\xc3"):
    """sections: list of (name bytes, content bytes) -> every one an SHT_PROGBITS section with
    `flags` and alignment 1. An additional executable section `start_in` holding one `ret` and the
    global symbol `start_sym` is appended (skipped when start_in is None; `start_code` = its
    bytes). extra_syms: list of (symbol name bytes, section index in `sections`) global symbols at
    offset 0 of that section.
    Returns the object file's bytes."""
    shstr, strtab = _Strtab(), _Strtab()
    secs = []  # (name_off, type, flags, data, link, info, align, entsize)
    for name, content in sections:
        secs.append((shstr.add(name), SHT_PROGBITS, flags, bytes(content), 0, 0, 1, 0))
    syms = [struct.pack("<IBBHQQ", 0, 0, 0, 0, 0, 0)]
    if start_in is not None:
        secs.append((shstr.add(start_in), SHT_PROGBITS, SHF_ALLOC | SHF_EXECINSTR,
                     bytes(start_code), 0, 0, 1, 0))
        # STB_GLOBAL<<4 | STT_FUNC
        syms.append(struct.pack("<IBBHQQ", strtab.add(start_sym), 0x12, 0, len(secs), 0,
                                len(start_code)))
    for sname, idx in extra_syms:
        # STB_GLOBAL<<4 | STT_OBJECT
        syms.append(struct.pack("<IBBHQQ", strtab.add(sname), 0x11, 0, idx + 1, 0, 0))
    symtab_index = len(secs) + 1
    strtab_index = symtab_index + 1
    secs.append((shstr.add(b".symtab"), SHT_SYMTAB, 0, b"".join(syms), strtab_index, 1, 8, 24))
    secs.append((shstr.add(b".strtab"), SHT_STRTAB, 0, None, 0, 0, 1, 0))
    secs.append((shstr.add(b".shstrtab"), SHT_STRTAB, 0, None, 0, 0, 1, 0))
    shstrndx = len(secs)
    secs[-2] = secs[-2][:3] + (bytes(strtab.data),) + secs[-2][4:]
    secs[-1] = secs[-1][:3] + (bytes(shstr.data),) + secs[-1][4:]
    body = bytearray()
    off = 64
    hdrs = [struct.pack("<IIQQQQIIQQ", 0, 0, 0, 0, 0, 0, 0, 0, 0, 0)]
    for name_off, typ, flg, data, link, info, align, entsize in secs:
        pad = (-off) % align
        body += b"\0" * pad
        off += pad
        hdrs.append(struct.pack("<IIQQQQIIQQ", name_off, typ, flg, 0, off, len(data), link, info,
                                align, entsize))
        body += data
        off += len(data)
    pad = (-off) % 8
    body += b"\0" * pad
    shoff = off + pad
    ident = b"\x7fELF" + bytes([2, 1, 1, 0]) + b"\0" * 8
    ehdr = ident + struct.pack("<HHIQQQIHHHHHH", ET_REL, EM_X86_64, 1, 0, 0, shoff, 0, 64, 0, 0,
                               64, len(hdrs), shstrndx)
    return bytes(ehdr) + bytes(body) + b"".join(hdrs)


def read_sections(data):
    """Parse an ELF64 LE file. Returns list of (name bytes, sh_type, sh_flags, content bytes,
    sh_addr) for every section header except index 0. Handles e_shnum / e_shstrndx escapes."""
    if data[:4] != b"\x7fELF" or data[4] != 2 or data[5] != 1:
        raise ValueError("not an ELF64 LE file")
    (shoff,) = struct.unpack_from("<Q", data, 0x28)
    shentsize, shnum, shstrndx = struct.unpack_from("<HHH", data, 0x3A)
    if shoff == 0:
        return []
    first = struct.unpack_from("<IIQQQQIIQQ", data, shoff)
    if shnum == 0:
        shnum = first[5]
    if shstrndx == 0xFFFF:
        shstrndx = first[6]
    hdrs = [struct.unpack_from("<IIQQQQIIQQ", data, shoff + i * shentsize) for i in range(shnum)]
    so, ss = hdrs[shstrndx][4], hdrs[shstrndx][5]
    strs = data[so:so + ss]
    out = []
    for h in hdrs[1:]:
        end = strs.index(b"\0", h[0])
        name = strs[h[0]:end]
        content = b"" if h[1] == SHT_NOBITS else data[h[4]:h[4] + h[5]]
        out.append((name, h[1], h[2], content, h[3]))
    return out


def read_symbols(data):
    """Returns {name bytes: (value, shndx)} from .symtab of an ELF64 LE file."""
    (shoff,) = struct.unpack_from("<Q", data, 0x28)
    shentsize, shnum, shstrndx = struct.unpack_from("<HHH", data, 0x3A)
    first = struct.unpack_from("<IIQQQQIIQQ", data, shoff)
    if shnum == 0:
        shnum = first[5]
    hdrs = [struct.unpack_from("<IIQQQQIIQQ", data, shoff + i * shentsize) for i in range(shnum)]
    out = {}
    for h in hdrs:
        if h[1] != SHT_SYMTAB:
            continue
        st = hdrs[h[6]]
        strs = data[st[4]:st[4] + st[5]]
        for i in range(h[5] // 24):
            name_off, _info, _other, shndx, value, _size = struct.unpack_from(
                "<IBBHQQ", data, h[4] + i * 24)
            end = strs.index(b"\0", name_off)
            out[strs[name_off:end]] = (value, shndx)
    return out
