"""mutenum: bounded-exhaustive mutation enumeration of malformed linker inputs (engine of C22).

Nothing here samples. Every family is a stated finite set:
  * binary seeds (relocatable object, shared object, regular archive, thin archive; each ~2 KiB
    with the file offset of every structural field known) x {single-field mutations over a stated
    value set, every truncation length, every pair from a shortlist};
  * text grammars (linker script, version script, dynamic list / export list, response file):
    every token string up to a length over a small alphabet;
  * argument lists: every list up to a length over an alphabet of option spellings.

`link()` runs one member in this worker's in-process wild server (wsched.Server protocol) with the
server's stderr captured in a file, so that the `panicked at <file>:<line>` location of a caught
panic is available without spawning a process per panic.
"""
import itertools
import os
import re
import resource
import signal
import struct
import subprocess

import vlib
import wsched
import elfgen
import elfread
from elfgen import (ElfObject, SHT_PROGBITS, SHT_NOBITS, SHF_WRITE, SHF_ALLOC, SHF_EXECINSTR,
                    SHF_MERGE, SHF_STRINGS, SHF_TLS, STB_LOCAL, STB_GLOBAL, STB_WEAK, STT_FUNC,
                    STT_OBJECT, STT_TLS, STT_FILE, STT_NOTYPE)

AS_LIMIT = 4 << 30       # RLIMIT_AS of every wild process started here
FSIZE_LIMIT = 1 << 30    # RLIMIT_FSIZE (SIGXFSZ ignored, so an over-large output is EFBIG)
TIMEOUT = 20

R_X86_64_64, R_X86_64_PC32, R_X86_64_PLT32, R_X86_64_TPOFF32 = 1, 2, 4, 23


# ---------------------------------------------------------------------------------------------
# Running wild

def _limits():
    resource.setrlimit(resource.RLIMIT_AS, (AS_LIMIT, AS_LIMIT))
    resource.setrlimit(resource.RLIMIT_FSIZE, (FSIZE_LIMIT, FSIZE_LIMIT))
    resource.setrlimit(resource.RLIMIT_CORE, (0, 0))
    signal.signal(signal.SIGXFSZ, signal.SIG_IGN)


class Srv(wsched.Server):
    """wsched.Server with resource limits and with stderr going to a file that is emptied before
    every request, so after a panic / death it holds exactly that link's output."""

    def __init__(self, wild, errpath):
        super().__init__(wild)
        self.errpath = errpath

    def start(self):
        self.env_keys = set()
        env = dict(os.environ)
        env["WILD_VERIF_SERVE"] = "1"
        env.pop("RUST_BACKTRACE", None)
        self.errw = open(self.errpath, "ab")
        self.p = subprocess.Popen([self.wild], env=env, stdin=subprocess.PIPE,
                                  stdout=subprocess.PIPE, stderr=self.errw, bufsize=0,
                                  preexec_fn=_limits, restore_signals=False)
        self.errw.close()
        self.p.stderr = open(self.errpath, "rb")   # wsched reads p.stderr when the server dies
        self.buf = b""

    def clear_stderr(self):
        try:
            if os.path.getsize(self.errpath):
                os.truncate(self.errpath, 0)
        except OSError:
            pass

    def read_stderr(self):
        try:
            with open(self.errpath, "rb") as f:
                return f.read(65536).decode("utf-8", "replace")
        except OSError:
            return ""


_SRVS = {}


def link(argv, cwd, timeout=None, wild=None):
    """One link in this worker's server. -> (rc, message, stderr_text, died). rc as in
    wildrun.server_link; died = the server process ended during the request."""
    wild = wild or vlib.WILD
    timeout = timeout or TIMEOUT
    # One server per worker whatever --threads says: wild ignores a second initialisation of the
    # global pool ("The pool might be already initialized, suppress the error intentionally").
    key = (os.getpid(), wild)
    srv = _SRVS.get(key)
    if srv is None:
        os.makedirs(cwd, exist_ok=True)
        srv = _SRVS[key] = Srv(wild, os.path.join(cwd, ".srv%d.%d.err" % (os.getpid(), len(_SRVS))))
    srv.clear_stderr()
    rc, msg = srv.request("off", "", "", 200000, cwd, {}, list(argv), timeout)
    died = srv.p is None
    err = ""
    if rc not in (0, 1) or died:
        err = srv.read_stderr()
    return rc, msg, err, died


def run_subprocess(argv, cwd, timeout=None, wild=None):
    """The real process, same limits. -> (rc | 'timeout', stdout, stderr) (text)."""
    env = dict(os.environ)
    env.pop("RUST_BACKTRACE", None)
    timeout = timeout or TIMEOUT
    try:
        p = subprocess.run([wild or vlib.WILD, *argv], cwd=cwd, env=env, stdin=subprocess.DEVNULL,
                           stdout=subprocess.PIPE, stderr=subprocess.PIPE, timeout=timeout,
                           preexec_fn=_limits, restore_signals=False)
        return p.returncode, p.stdout.decode("utf-8", "replace"), p.stderr.decode("utf-8", "replace")
    except subprocess.TimeoutExpired as ex:
        return "timeout", (ex.stdout or b"").decode("utf-8", "replace"), \
            (ex.stderr or b"").decode("utf-8", "replace")


PANIC_RE = re.compile(r"panicked at ([^\s:]+):(\d+):(\d+)")


def panic_site(text):
    """'libwild/src/elf.rs:123' from a panic message, registry paths reduced to crate/src/..."""
    m = PANIC_RE.search(text or "")
    if not m:
        return None
    path = m.group(1)
    if "/registry/src/" in path:
        path = path.split("/registry/src/", 1)[1].split("/", 1)[1]
    elif "/rustc/" in path:
        path = "rust-std/" + path.split("/library/", 1)[-1]
    elif path.startswith("/repo/"):
        path = path[len("/repo/"):]
    return "%s:%s" % (path, _enclosing_fn(path, int(m.group(2))))


_FN_RE = re.compile(r"^\s*(?:pub(?:\([^)]*\))?\s+)?(?:(?:const|async|unsafe|extern \"C\")\s+)*fn\s+(\w+)")
_FN_CACHE = {}


def _enclosing_fn(path, line):
    """The panic *site* is named by its enclosing function rather than its line number, so that an
    unrelated edit higher up in the file does not rename a known finding."""
    full = os.path.join(os.environ.get("VERIF_REPO", "/repo"), path)
    lines = _FN_CACHE.get(full)
    if lines is None:
        try:
            with open(full) as f:
                lines = f.read().split("\n")
        except OSError:
            lines = []
        _FN_CACHE[full] = lines
    for i in range(min(line, len(lines)) - 1, -1, -1):
        m = _FN_RE.match(lines[i])
        if m:
            return "fn=" + m.group(1)
    return "line=%d" % line


def panic_message(text):
    m = PANIC_RE.search(text or "")
    if not m:
        return ""
    rest = text[m.end():].lstrip(":\n ")
    return rest.split("\n")[0][:200]


_NUM = re.compile(r"0x[0-9a-fA-F]+|\d+")


def normalise(msg, scratch=""):
    """First line of a diagnostic with paths, numbers and quoted text abstracted."""
    line = ""
    for l in (msg or "").split("\n"):
        if l.strip() and not l.startswith("WARNING:"):
            line = l.strip()
            break
    if scratch:
        line = line.replace(scratch, "")
    line = re.sub(r"`[^`]*`", "`_`", line)
    line = re.sub(r"'[^']*'", "'_'", line)
    line = re.sub(r'"[^"]*"', '"_"', line)
    line = re.sub(r"/[\w./-]+", "PATH", line)
    line = _NUM.sub("N", line)
    return line[:120]


ALLOC_RE = re.compile(r"memory allocation of (\d+) bytes failed")


def _ram_and_swap():
    tot = 0
    try:
        with open("/proc/meminfo") as f:
            for line in f:
                if line.startswith(("MemTotal:", "SwapTotal:")):
                    tot += int(line.split()[1]) * 1024
    except OSError:
        pass
    return tot or (1 << 40)


# An allocation-failure abort is reported only when the request exceeds RAM + swap of this machine:
# the kernel's heuristic overcommit refuses such a request whatever the limits, so the abort is not
# an artefact of the RLIMIT_AS set here. Smaller failed requests are class `alloc-limit` (counted,
# not reported).
ALLOC_REPORT_MIN = _ram_and_swap()


def classify(rc, msg, err, died):
    """-> (class, detail). class: ok | error | exit0 | silent-error | panic | signal | hang |
    badexit | alloc-limit | machinery"""
    if rc == "timeout":
        return "hang", ""
    if died:
        if rc == 0:
            return "exit0", ""
        if isinstance(rc, int) and rc < 0:
            m = ALLOC_RE.search(err)
            if m and int(m.group(1)) < ALLOC_REPORT_MIN:
                return "alloc-limit", m.group(1)
            return "signal", str(-rc)
        if rc == 101 or "panicked at" in err:
            return "panic", panic_site(err) or "?"
        # process::exit(n) with a message is a diagnostic
        return ("error", "") if (err.strip() or msg.strip()) else ("badexit", str(rc))
    if rc == 0:
        return "ok", ""
    if rc == 1:
        body = "\n".join(l for l in msg.split("\n") if not l.startswith("WARNING:")).strip()
        return ("error", "") if body else ("silent-error", "")
    if rc == 101:
        return "panic", panic_site(err) or "?"
    return "machinery", "%r %s" % (rc, msg[:200])


# ---------------------------------------------------------------------------------------------
# Value sets

def int_values(old, width, fsize, extra=()):
    """The stated value set for an integer field of `width` bytes, without the original value."""
    m = (1 << 8 * width) - 1
    vals = [0, 1, (old - 1) & m, (old + 1) & m, 0x7f, 0x80, m, fsize & m, (fsize + 1) & m,
            1 << (8 * width - 1)]
    out, seen = [], {old & m}
    for v in list(vals) + [e & m for e in extra]:
        if v not in seen:
            seen.add(v)
            out.append(v)
    return out


def pair_values(old, width, fsize):
    """The reduced value set used for pair mutations (7 values)."""
    m = (1 << 8 * width) - 1
    return [v for v in dict.fromkeys([0, 1, (old + 1) & m, 0x80, m, fsize & m,
                                      1 << (8 * width - 1)]) if v != old]


SHT_EXTRA = list(range(0, 20)) + [0x60000000, 0x6ffffff5, 0x6ffffff6, 0x6ffffff7, 0x6ffffffd,
                                   0x6ffffffe, 0x6fffffff, 0x70000001, 0x70000003, 0x6fff4c00,
                                   0x6fff4c04]
SHF_BITS_QUICK = [0, 1, 2, 4, 5, 6, 7, 8, 9, 10, 11, 20, 21, 31]
PT_EXTRA = list(range(0, 9)) + [0x6474e550, 0x6474e551, 0x6474e552, 0x6474e553, 0x70000001]
DT_EXTRA = list(range(0, 38)) + [0x6ffffef5, 0x6ffffff0, 0x6ffffff9, 0x6ffffffa, 0x6ffffffb,
                                 0x6ffffffc, 0x6ffffffd, 0x6ffffffe, 0x6fffffff, 0x6ffffef5]


class Field:
    __slots__ = ("name", "cls", "off", "size", "kind", "extra", "old")

    def __init__(self, name, cls, off, size, kind="int", extra=(), old=None):
        self.name, self.cls, self.off, self.size, self.kind = name, cls, off, size, kind
        self.extra, self.old = tuple(extra), old


class Seed:
    """data: the well-formed seed bytes; fields: [Field]; fname: file name of the mutated file;
    files: {relative path: bytes} companions; argv: list with '{f}' = the mutated file and
    '{out}'; pairs: ([Field], [Field]) shortlist."""

    def __init__(self, name, data, fields, fname, files, argv, pairs=((), ())):
        self.name, self.data, self.fields, self.fname = name, data, fields, fname
        self.files, self.argv, self.pairs = files, argv, pairs

    def field(self, name):
        for f in self.fields:
            if f.name == name:
                return f
        raise KeyError(name)

    def old(self, f):
        return int.from_bytes(self.data[f.off:f.off + f.size], "big" if f.kind == "be" else "little")


def field_values(seed, f, thorough):
    """[(bytes, label)] for one field."""
    fsize = len(seed.data)
    raw = seed.data[f.off:f.off + f.size]
    if f.kind in ("int", "be"):
        old = seed.old(f)
        if f.size == 1 and thorough:
            vals = [v for v in range(256) if v != old]
        else:
            extra = list(f.extra)
            vals = int_values(old, f.size, fsize, extra)
        order = "big" if f.kind == "be" else "little"
        return [(v.to_bytes(f.size, order), "%#x" % v) for v in vals]
    out = []
    if f.kind == "ascii-num":
        try:
            old = int(raw.decode().strip() or "0")
        except ValueError:
            old = 0
        cands = ["0", "1", str(old - 1), str(old + 1), "127", "128", "9" * f.size, str(fsize),
                 str(fsize + 1), "", "-1", "zz", "1e9", "0x10", str(2 ** 64)[:f.size], " 12",
                 b"\xff" * f.size, b"\0" * f.size] + list(f.extra)
    elif f.kind == "ascii-name":
        cands = ["/", "//", "/0", "/1", "/9999999999", "/-1", "/zz", "", "a.o", "a.o/", "/SYM64/",
                 "#1/20", "#1/99999", "#1/0", "../x/", "/ 0", "x" * f.size, b"\xff" * f.size,
                 b"\0" * f.size] + list(f.extra)
    elif f.kind == "bytes":
        cands = list(f.extra)
    else:
        raise ValueError(f.kind)
    seen = {raw}
    for c in cands:
        b = c.encode() if isinstance(c, str) else bytes(c)
        b = (b + b" " * f.size)[:f.size] if f.kind != "bytes" else b
        if len(b) != f.size or b in seen:
            continue
        seen.add(b)
        out.append((b, repr(c if isinstance(c, str) else bytes(c))[:40]))
    return out


def apply_patches(data, patches):
    """patches: [(off, bytes)] | [('trunc', n)]"""
    b = bytearray(data)
    for off, val in patches:
        if off == "trunc":
            del b[val:]
        else:
            b[off:off + len(val)] = val
    return bytes(b)


HUGE_VALUE = 1 << 24


def is_huge(f, b):
    """Does the value b of field f declare a huge size / count / address / alignment?"""
    if f.kind == "int":
        return int.from_bytes(b, "little") >= HUGE_VALUE
    if f.kind == "be":
        return int.from_bytes(b, "big") >= HUGE_VALUE
    txt = b.strip(b" /#\0").decode("latin1")
    return txt.isdigit() and int(txt) >= HUGE_VALUE


def single_field_mutations(seed, thorough):
    """-> [(description, field class, patches, declares a huge value)], ordered value-rank first
    (the k-th value of every field before the (k+1)-th of any), so that a run cut by its time
    budget has touched every field."""
    per = []
    for f in seed.fields:
        per.append([("%s=%s" % (f.name, label), f.cls, [(f.off, b)], is_huge(f, b))
                    for b, label in field_values(seed, f, thorough)])
    out = []
    for k in range(max(map(len, per))):
        out += [lst[k] for lst in per if k < len(lst)]
    return out


def truncations(seed):
    return [("truncate to %d bytes" % n, "truncate", [("trunc", n)], False)
            for n in range(len(seed.data))]


def pair_mutations(seed):
    out = []
    fsize = len(seed.data)
    A, B = seed.pairs

    def vals(f):
        if f.kind in ("int", "be"):
            order = "big" if f.kind == "be" else "little"
            return [(v.to_bytes(f.size, order), "%#x" % v)
                    for v in pair_values(seed.old(f), f.size, fsize)]
        return field_values(seed, f, False)[:7]
    for fa in A:
        for fb in B:
            for ba, la in vals(fa):
                for bb, lb in vals(fb):
                    out.append(("%s=%s & %s=%s" % (fa.name, la, fb.name, lb),
                                "pair:%s+%s" % (fa.cls, fb.cls), [(fa.off, ba), (fb.off, bb)],
                                is_huge(fa, ba) or is_huge(fb, bb)))
    return out


# ---------------------------------------------------------------------------------------------
# Seed 1: relocatable object

def _objbytes(path):
    with open(path, "rb") as f:
        return f.read()


EH_FIELDS = (("cie.length", 0, 4), ("cie.id", 4, 4), ("cie.version", 8, 1), ("cie.aug0", 9, 1),
             ("cie.aug1", 10, 1), ("cie.aug_nul", 11, 1), ("cie.code_align", 12, 1),
             ("cie.data_align", 13, 1), ("cie.ra_reg", 14, 1), ("cie.aug_len", 15, 1),
             ("cie.fde_enc", 16, 1), ("fde.length", 24, 4), ("fde.cie_ptr", 28, 4),
             ("fde.pc_begin", 32, 4), ("fde.pc_range", 36, 4), ("fde.aug_len", 40, 1))
NOTE_FIELDS = (("namesz", 0, 4), ("descsz", 4, 4), ("type", 8, 4), ("name", 12, 4),
               ("pr_type", 16, 4), ("pr_datasz", 20, 4), ("pr_data", 24, 4))


def build_object_seed(thorough=False):
    o = ElfObject("x86_64")
    code = (b"\xe8\0\0\0\0"                 # call g            (PLT32 @1)
            b"\x48\x8d\x05\0\0\0\0"         # lea .LC0(%rip)    (PC32 @8)
            b"\x64\x8b\x04\x25\0\0\0\0"     # mov %fs:tv@tpoff  (TPOFF32 @16)
            b"\x8b\x05\0\0\0\0"             # mov com(%rip)     (PC32 @22)
            b"\x64\x8b\x04\x25\0\0\0\0"     # mov %fs:tb@tpoff  (TPOFF32 @30)
            b"\xc3")
    AX = SHF_ALLOC | SHF_EXECINSTR
    text = o.section(".text", flags=AX, align=16, data=code)
    tg = o.section(".text.g", flags=AX, align=1, data=b"\xc3")
    strs = o.section(".rodata.str1.1", flags=SHF_ALLOC | SHF_MERGE | SHF_STRINGS, align=1,
                     data=b"hi\0yo\0", entsize=1)
    cie = struct.pack("<IIB3sBBBBB", 20, 0, 1, b"zR\0", 1, 0x78, 0x10, 1, 0x1b) + \
        b"\x0c\x07\x08\x90\x01\0\0"
    fde = struct.pack("<IIiIB", 20, 0x1c, 0, len(code), 0) + bytes(7)
    assert len(cie) == 24 and len(fde) == 24
    eh = o.section(".eh_frame", type=0x70000001, flags=SHF_ALLOC, align=8, data=cie + fde)
    note = o.gnu_property([(elfgen.GNU_PROPERTY_X86_FEATURE_1_AND, struct.pack("<I", 3))])
    tdata = o.section(".tdata", flags=SHF_ALLOC | SHF_WRITE | SHF_TLS, align=4, data=b"\1\0\0\0")
    tbss = o.section(".tbss", type=SHT_NOBITS, flags=SHF_ALLOC | SHF_WRITE | SHF_TLS, align=4,
                     size=8)
    data = o.section(".data", flags=SHF_ALLOC | SHF_WRITE, align=8, data=bytes(8))
    o.section(".bss", type=SHT_NOBITS, flags=SHF_ALLOC | SHF_WRITE, align=8, size=16)
    o.note_gnu_stack()
    o.symbol("seed.c", section="abs", bind=STB_LOCAL, type=STT_FILE)
    lc0 = o.symbol(".LC0", section=strs, value=3, bind=STB_LOCAL)
    entry = o.symbol("entry", section=text, type=STT_FUNC, size=len(code))
    g = o.symbol("g", section=tg, type=STT_FUNC, size=1, bind=STB_WEAK)
    tv = o.symbol("tv", section=tdata, type=STT_TLS, size=4)
    tb = o.symbol("tb", section=tbss, type=STT_TLS, size=8)
    com = o.symbol("com", section="common", value=8, size=8, type=STT_OBJECT)
    o.symbol("uw", bind=STB_WEAK)
    grp = o.group(g, [tg])
    o.reloc(text, 1, R_X86_64_PLT32, g, -4)
    o.reloc(text, 8, R_X86_64_PC32, lc0, -4)
    o.reloc(text, 16, R_X86_64_TPOFF32, tv, 0)
    o.reloc(text, 22, R_X86_64_PC32, com, -4)
    o.reloc(text, 30, R_X86_64_TPOFF32, tb, 0)
    o.reloc(eh, 32, R_X86_64_PC32, o.section_symbol(text), 0)
    o.reloc(data, 0, R_X86_64_64, entry, 0)
    blob, fmap = o.to_bytes_with_map()
    e = elfread.Elf(data=blob)
    nsec, nsym = len(e.sections), len(e.symbols())
    secidx = list(range(nsec + 1))
    symidx = list(range(nsym + 1))
    fsize = len(blob)
    fields = []
    for key, (off, size) in fmap.items():
        extra = []
        if key[0] == "ehdr":
            fname = key[1]
            name, cls = "ehdr." + fname, "ehdr." + fname
            if fname in ("e_shstrndx", "e_shnum"):
                extra = secidx + [0xff00]
            elif fname == "e_type":
                extra = [2, 3, 4, 0xfe00, 0xff00]
            elif fname == "e_machine":
                extra = [3, 40, 183, 243, 0xf7]
            elif fname in ("e_shentsize", "e_ehsize", "e_phentsize"):
                extra = [56, 63, 64, 65, 40]
        elif key[0] == "shdr":
            sec, fname = e.sections[key[1]], key[2]
            name, cls = "shdr[%d:%s].%s" % (key[1], sec.name, fname), "shdr." + fname
            old = getattr(sec, fname)
            if fname in ("sh_link", "sh_info"):
                extra = secidx + (symidx if fname == "sh_info" else [])
            elif fname == "sh_type":
                extra = SHT_EXTRA
            elif fname == "sh_flags":
                extra = [old ^ (1 << b) for b in (range(64) if thorough else SHF_BITS_QUICK)]
            elif fname == "sh_offset":
                extra = [fsize - sec.sh_size, fsize - sec.sh_size + 1, -sec.sh_size,
                         1 - sec.sh_size, 1 << 32, 1 << 31]
            elif fname == "sh_size":
                extra = [fsize - sec.sh_offset, fsize - sec.sh_offset + 1, -sec.sh_offset,
                         1 - sec.sh_offset, 1 << 32, 1 << 31, old + 24, old - 24]
            elif fname == "sh_addralign":
                extra = [2, 3, 16, 1 << 12, 1 << 16, 1 << 31, 1 << 32, 1 << 47, 1 << 62]
            elif fname == "sh_entsize":
                extra = [2, 3, 4, 8, 23, 24, 25, 48]
            elif fname == "sh_name":
                extra = [len(e.sections[e.e_shstrndx].data) - 1, len(e.sections[e.e_shstrndx].data)]
        elif key[0] == "sym":
            sym, fname = e.symbols()[key[1]], key[2]
            name, cls = "sym[%d:%s].%s" % (key[1], sym.name, fname), "sym." + fname
            if fname == "st_shndx":
                extra = secidx + [0xff00, 0xfff1, 0xfff2, 0xffff]
            elif fname == "st_info":
                old = blob[off]
                extra = [(old & 0xf0) | t for t in range(16)] + [(b << 4) | (old & 0xf)
                                                                 for b in range(16)]
            elif fname == "st_other":
                extra = list(range(8))
            elif fname == "st_name":
                n = len(e.section(".strtab").data)
                extra = [n - 1, n, n + 1]
            elif fname == "st_value":
                extra = [2, 3, 4, 5, 6, 7, 8, 16, 1 << 31, 1 << 32]
        elif key[0] == "rela":
            sec, n, fname = e.sections[key[1]], key[2], key[3]
            base = "rela[%s#%d]" % (sec.name, n)
            if fname == "r_info":
                fields.append(Field(base + ".r_type", "rela.r_type", off, 4, extra=range(0, 46)))
                fields.append(Field(base + ".r_sym", "rela.r_sym", off + 4, 4, extra=symidx))
                continue
            name, cls = base + "." + fname, "rela." + fname
            if fname == "r_offset":
                tsz = e.sections[sec.sh_info].sh_size
                extra = [tsz - 4, tsz - 3, tsz - 1, tsz, tsz + 1, tsz - 8, tsz - 7]
            else:
                extra = [-4, -8, 4, 1 << 31, -(1 << 31), 1 << 32]
        elif key[0] == "group":
            name, cls = "group[%d].word%d" % (key[1], key[2]), \
                "group.flags" if key[2] == 0 else "group.member"
            extra = secidx if key[2] else [2, 3]
        else:
            continue
        fields.append(Field(name, cls, off, size, extra=extra))
    for nm, rel, size in EH_FIELDS:
        fields.append(Field("eh_frame." + nm, "eh_frame." + nm, eh.offset + rel, size,
                            extra=[4, 8, 16, 20, 24, 28, 44, 48, 0xffffffff, 0x1b, 0x9b, 0x00,
                                   0x03, 0x0b, 0x50, ord("P"), ord("L"), ord("S"), ord("e")]
                            if size == 4 or not thorough else []))
    for nm, rel, size in NOTE_FIELDS:
        fields.append(Field("note.gnu.property." + nm, "note." + nm, note.offset + rel, size,
                            extra=[2, 3, 4, 5, 8, 12, 16, 0xc0000000, 0xc0000002, 0xc0008002,
                                   0xc0010000, 0xc0010001, 0x20, 0x47004e55]))
    # string terminators (an unterminated last string)
    for sname in (".strtab", ".shstrtab", ".rodata.str1.1"):
        s = e.section(sname)
        fields.append(Field("last byte of " + sname, "strterm", s.sh_offset + s.sh_size - 1, 1,
                            extra=[0x41, 0xff]))
    seed = Seed("object", blob, fields, "seed.o", dict(START_FILES),
                ["{f}", "start.o", "-o", "{out}"])
    F = seed.field
    idx = {s.name: s.index for s in e.sections}
    sidx = {s.name: s.index for s in e.symbols() if s.name}
    A = [F("shdr[%d:%s].%s" % (idx[s], s, f)) for s, f in
         ((".symtab", "sh_size"), (".symtab", "sh_entsize"), (".symtab", "sh_link"),
          (".symtab", "sh_info"), (".rela.text", "sh_info"), (".rela.text", "sh_link"),
          (".rela.text", "sh_size"), (".text", "sh_size"), (".strtab", "sh_size"),
          (".group", "sh_info"))]
    B = [F("sym[%d:%s].%s" % (sidx[s], s, f)) for s, f in
         (("entry", "st_shndx"), ("entry", "st_value"), ("entry", "st_name"), ("g", "st_shndx"),
          ("com", "st_shndx"), ("tv", "st_value"))]
    B += [F("rela[.rela.text#0].r_sym"), F("rela[.rela.text#0].r_offset"),
          F("rela[.rela.text#1].r_type"), F("rela[.rela.eh_frame#0].r_offset")]
    seed.pairs = (A, B)
    return seed


START_SRC = """
.section .text._start,"ax",@progbits
.globl _start
_start:
  call entry
  ret
"""
TRIVIAL_SRC = """
.section .text._start,"ax",@progbits
.globl _start, foo, bar
_start:
foo:
  ret
.section .text.bar,"ax",@progbits
bar:
  ret
"""
START_FILES = {}
TRIVIAL = {}


def init_common():
    START_FILES["start.o"] = _objbytes(vlib.assemble(START_SRC))
    TRIVIAL["t.o"] = _objbytes(vlib.assemble(TRIVIAL_SRC))


# ---------------------------------------------------------------------------------------------
# Seed 2: shared object (produced once by GNU ld, fields located with elfread)

SO_SRC = """
.text
.globl foo, bar, foo2
.type foo,@function
foo: ret
.size foo, 1
.type bar,@function
bar: ret
.size bar, 1
.type foo2,@function
foo2: ret
.size foo2, 1
.symver foo2, foo@V1
.data
.globl dat
.type dat,@object
dat: .long 7
.size dat, 4
.section .tdata,"awT",@progbits
.globl tl
.type tl,@object
tl: .long 1
.size tl, 4
"""
SO_VER = "V1 { global: bar; }; V2 { global: foo; dat; tl; local: *; } V1;\n"
SO_MAIN = """
.section .text._start,"ax",@progbits
.globl _start
_start:
  call foo@PLT
  call bar@PLT
  mov dat(%rip), %eax
  mov tl@gottpoff(%rip), %rax
  ret
"""
PH_FIELDS = (("p_type", 0, 4), ("p_flags", 4, 4), ("p_offset", 8, 8), ("p_vaddr", 16, 8),
             ("p_paddr", 24, 8), ("p_filesz", 32, 8), ("p_memsz", 40, 8), ("p_align", 48, 8))


def make_so():
    obj = vlib.assemble(SO_SRC)
    key = vlib.sha(_objbytes(obj) + SO_VER.encode() + b"v3")[:20]
    out = os.path.join(vlib.OBJCACHE, "c22seed-%s.so" % key)
    if not os.path.exists(out):
        ver = out + ".%d.ver" % os.getpid()
        with open(ver, "w") as f:
            f.write(SO_VER)
        tmp = out + ".%d.tmp" % os.getpid()
        r = subprocess.run(["ld", "-shared", "-soname", "libseed.so", "--version-script=" + ver,
                            "--hash-style=both", "-z", "noseparate-code", "-z",
                            "max-page-size=0x10", "-z", "common-page-size=0x10", "-z", "norelro",
                            "--no-ld-generated-unwind-info", "-s", obj, "-o", tmp],
                           stdout=subprocess.PIPE, stderr=subprocess.PIPE)
        os.unlink(ver)
        if r.returncode != 0:
            raise RuntimeError("ld failed building the shared-object seed: " + r.stderr.decode())
        os.replace(tmp, out)
    return _objbytes(out)


def build_so_seed(thorough=False):
    blob = make_so()
    e = elfread.Elf(data=blob)
    fsize = len(blob)
    nsec = len(e.sections)
    secidx = list(range(nsec + 1))
    fields = []
    for fname, (off, size) in elfgen._EHDR.items():
        extra = []
        if fname in ("e_shstrndx", "e_shnum", "e_phnum"):
            extra = secidx + [0xffff, 0xff00]
        elif fname == "e_type":
            extra = [1, 2, 3, 4]
        elif fname in ("e_shentsize", "e_phentsize", "e_ehsize"):
            extra = [56, 55, 57, 63, 64, 65]
        fields.append(Field("ehdr." + fname, "ehdr." + fname, off, size, extra=extra))
    dynsym = e.section(".dynsym")
    ndyn = dynsym.sh_size // 24
    symidx = list(range(ndyn + 1))
    for s in e.sections:
        for fname, (o, size) in elfgen._SHDR.items():
            extra = []
            old = getattr(s, fname)
            if fname in ("sh_link", "sh_info"):
                extra = secidx + symidx
            elif fname == "sh_type":
                extra = SHT_EXTRA
            elif fname == "sh_flags":
                extra = [old ^ (1 << b) for b in SHF_BITS_QUICK]
            elif fname == "sh_offset":
                extra = [fsize - s.sh_size, fsize - s.sh_size + 1, -s.sh_size, 1 - s.sh_size]
            elif fname == "sh_size":
                extra = [fsize - s.sh_offset, fsize - s.sh_offset + 1, -s.sh_offset,
                         1 - s.sh_offset, old + (s.sh_entsize or 1), old - (s.sh_entsize or 1)]
            elif fname == "sh_entsize":
                extra = [2, 3, 4, 8, 16, 17, 23, 24, 25]
            fields.append(Field("shdr[%d:%s].%s" % (s.index, s.name, fname), "shdr." + fname,
                                e.e_shoff + 64 * s.index + o, size, extra=extra))
    for p in e.segments:
        for fname, o, size in PH_FIELDS:
            extra = PT_EXTRA if fname == "p_type" else []
            fields.append(Field("phdr[%d].%s" % (p.index, fname), "phdr." + fname,
                                e.e_phoff + 56 * p.index + o, size, extra=extra))
    dyn = e.section(".dynamic")
    dynstr = e.section(".dynstr")
    for i in range(dyn.sh_size // 16):
        tag, val = struct.unpack_from("<QQ", blob, dyn.sh_offset + 16 * i)
        fields.append(Field("dynamic[%d].d_tag(%#x)" % (i, tag), "dyn.d_tag",
                            dyn.sh_offset + 16 * i, 8, extra=DT_EXTRA))
        fields.append(Field("dynamic[%d:tag %#x].d_val" % (i, tag), "dyn.d_val",
                            dyn.sh_offset + 16 * i + 8, 8,
                            extra=[dynstr.sh_size - 1, dynstr.sh_size, dynstr.sh_size + 1]))
    dsyms = e.symbols(".dynsym")
    for i in range(ndyn):
        for fname, (o, size) in elfgen._SYM.items():
            extra = []
            if fname == "st_shndx":
                extra = secidx + [0xff00, 0xfff1, 0xfff2, 0xffff]
            elif fname == "st_info":
                old = blob[dynsym.sh_offset + 24 * i + o]
                extra = [(old & 0xf0) | t for t in range(16)] + [(b << 4) | (old & 0xf)
                                                                 for b in range(16)]
            elif fname == "st_other":
                extra = list(range(8))
            elif fname == "st_name":
                extra = [dynstr.sh_size - 1, dynstr.sh_size, dynstr.sh_size + 1]
            fields.append(Field("dynsym[%d:%s].%s" % (i, dsyms[i].name, fname), "dynsym." + fname,
                                dynsym.sh_offset + 24 * i + o, size, extra=extra))
    vs = e.section(".gnu.version")
    for i in range(vs.sh_size // 2):
        fields.append(Field("versym[%d:%s]" % (i, dsyms[i].name if i < ndyn else "?"), "versym",
                            vs.sh_offset + 2 * i, 2,
                            extra=[2, 3, 4, 5, 0x8000, 0x8001, 0x8002, 0x8003, 0x8004, 0x7fff]))
    vd = e.section(".gnu.version_d")
    pos, n = 0, 0
    data = vd.data
    while True:
        ver, flags, ndx, cnt, h, aux, nxt = struct.unpack_from("<HHHHIII", data, pos)
        for nm, o, size in (("vd_version", 0, 2), ("vd_flags", 2, 2), ("vd_ndx", 4, 2),
                            ("vd_cnt", 6, 2), ("vd_hash", 8, 4), ("vd_aux", 12, 4),
                            ("vd_next", 16, 4)):
            fields.append(Field("verdef[%d].%s" % (n, nm), "verdef." + nm,
                                vd.sh_offset + pos + o, size,
                                extra=[2, 3, 4, 8, 19, 20, 21, 28, vd.sh_size - 1, vd.sh_size,
                                       vd.sh_size + 1, 0x8000, 0x8001]))
        apos = pos + aux
        for k in range(cnt):
            name, anext = struct.unpack_from("<II", data, apos)
            for nm, o in (("vda_name", 0), ("vda_next", 4)):
                fields.append(Field("verdef[%d].aux[%d].%s" % (n, k, nm), "verdaux." + nm,
                                    vd.sh_offset + apos + o, 4,
                                    extra=[4, 7, 8, 9, dynstr.sh_size - 1, dynstr.sh_size,
                                           dynstr.sh_size + 1, vd.sh_size]))
            if not anext:
                break
            apos += anext
        n += 1
        if not nxt:
            break
        pos += nxt
    gh = e.section(".gnu.hash")
    for k, nm in enumerate(("nbuckets", "symoffset", "bloom_size", "bloom_shift")):
        fields.append(Field("gnu_hash." + nm, "gnu_hash." + nm, gh.sh_offset + 4 * k, 4))
    hs = e.section(".hash")
    for k, nm in enumerate(("nbucket", "nchain")):
        fields.append(Field("hash." + nm, "hash." + nm, hs.sh_offset + 4 * k, 4))
    fields.append(Field("last byte of .dynstr", "strterm", dynstr.sh_offset + dynstr.sh_size - 1,
                        1, extra=[0x41, 0xff]))
    seed = Seed("shared", blob, fields, "seed.so",
                {"main.o": _objbytes(vlib.assemble(SO_MAIN))},
                ["main.o", "{f}", "-o", "{out}"])
    byname = {f.name: f for f in fields}
    idx = {s.name: s.index for s in e.sections}
    A = [byname["shdr[%d:%s].%s" % (idx[s], s, f)] for s, f in
         ((".dynsym", "sh_size"), (".dynsym", "sh_link"), (".dynsym", "sh_info"),
          (".dynsym", "sh_entsize"), (".dynstr", "sh_size"), (".gnu.version", "sh_size"),
          (".gnu.version_d", "sh_info"), (".gnu.version_d", "sh_link"),
          (".gnu.version_d", "sh_size"), (".dynamic", "sh_size"))]
    fi = [s.index for s in dsyms if s.name == "foo"][0]
    B = [byname["dynsym[%d:foo].%s" % (fi, f)] for f in ("st_name", "st_shndx", "st_value")]
    B += [byname["versym[%d:foo]" % fi], byname["verdef[1].vd_cnt"], byname["verdef[1].vd_aux"],
          byname["verdef[1].vd_next"], byname["verdef[1].vd_ndx"],
          byname["verdef[1].aux[0].vda_name"]]
    B += [f for f in fields if f.cls == "dyn.d_val" and "tag 0xe]" in f.name][:1]
    seed.pairs = (A, B)
    return seed


# ---------------------------------------------------------------------------------------------
# Seeds 3 and 4: archives written by hand

def _member_obj(fn):
    o = ElfObject("x86_64")
    t = o.section(".text", flags=SHF_ALLOC | SHF_EXECINSTR, align=1, data=b"\xc3")
    o.symbol(fn, section=t, type=STT_FUNC, size=1)
    return o.to_bytes()


AR_MAIN = """
.section .text._start,"ax",@progbits
.globl _start
_start:
  call fa
  call fb
  ret
"""
LONGNAME = "a_long_member_name_b.o"


def _ar_header(name, size, mtime=b"0", uid=b"0", gid=b"0", mode=b"644"):
    def pad(b, n):
        b = b.encode() if isinstance(b, str) else b
        return (b + b" " * n)[:n]
    return (pad(name, 16) + pad(mtime, 12) + pad(uid, 6) + pad(gid, 6) + pad(mode, 8) +
            pad(str(size), 10) + b"`\n")


AR_HDR_FIELDS = (("name", 0, 16, "ascii-name"), ("mtime", 16, 12, "ascii-num"),
                 ("uid", 28, 6, "ascii-num"), ("gid", 34, 6, "ascii-num"),
                 ("mode", 40, 8, "ascii-num"), ("size", 48, 10, "ascii-num"),
                 ("fmag", 58, 2, "bytes"))
FMAG_VALUES = [b"\0\0", b"``", b"\n`", b"`\0", b"\xff\xff", b"`\r"]
MAGIC_VALUES = [b"!<thin>\n", b"!<arch>\r", b"<bigaf>\n", b"!<arch>\0", b"\0" * 8, b"!<ARCH>\n",
                b"\x7fELF\x02\x01\x01\0"]


def _build_archive(thin, members, longnames_override=None):
    """members: [(name, bytes, defined symbol)]. -> (bytes, fields). Symbol table '/', long names '//', members."""
    names_tab = bytearray()
    hdr_names = []
    for name, _, _ in members:
        if thin or len(name) > 15:
            hdr_names.append("/%d" % len(names_tab))
            names_tab += name.encode() + b"/\n"
        else:
            hdr_names.append(name + "/")
    if longnames_override is not None:
        names_tab = bytearray(longnames_override)
    syms = [(sym, i) for i, (_, _, sym) in enumerate(members)]
    symnames = b"".join(s.encode() + b"\0" for s, _ in syms)
    symtab_size = 4 + 4 * len(syms) + len(symnames)

    def padlen(n):
        return n + (n & 1)
    pos = 8 + 60 + padlen(symtab_size)
    if names_tab:
        pos += 60 + padlen(len(names_tab))
    offsets = []
    for (name, data, _) in members:
        offsets.append(pos)
        pos += 60 + (0 if thin else padlen(len(data)))
    out = bytearray(b"!<thin>\n" if thin else b"!<arch>\n")
    fields = [Field("global magic", "ar.magic", 0, 8, kind="bytes", extra=MAGIC_VALUES)]

    def add_header(label, name, size, extra_sizes=()):
        base = len(out)
        out.extend(_ar_header(name, size))
        for nm, o, n, kind in AR_HDR_FIELDS:
            extra = FMAG_VALUES if nm == "fmag" else ()
            if nm == "size":
                extra = [str(v) for v in extra_sizes]
            fields.append(Field("%s.%s" % (label, nm), "ar." + nm, base + o, n, kind=kind,
                                extra=extra))
    total = pos
    add_header("symtab-member", "/", symtab_size, [total - 68, total - 67])
    base = len(out)
    out += struct.pack(">I", len(syms))
    fields.append(Field("symtab.count", "ar.symtab.count", base, 4, kind="be",
                        extra=[2, 3, (symtab_size - 4) // 4, (symtab_size - 4) // 4 + 1]))
    for k, (_, mi) in enumerate(syms):
        fields.append(Field("symtab.offset[%d]" % k, "ar.symtab.offset", len(out), 4, kind="be",
                            extra=offsets + [o + 60 for o in offsets] + [8, 68, total - 1, total]))
        out += struct.pack(">I", offsets[mi])
    fields.append(Field("symtab.names last byte", "strterm", len(out) + len(symnames) - 1, 1,
                        extra=[0x41, 0xff]))
    out += symnames
    if len(out) & 1:
        out += b"\n"
    if names_tab:
        add_header("longnames-member", "//", len(names_tab), [total - len(out) - 60])
        base = len(out)
        for k, ch in enumerate(bytes(names_tab)):
            if ch in (0x2f, 0x0a):
                fields.append(Field("longnames[%d] (%r)" % (k, chr(ch)), "ar.longnames.term",
                                    base + k, 1, extra=[0, 0x78, 0xff, 0x2f, 0x0a]))
        out += names_tab
        if len(out) & 1:
            out += b"\n"
    for (name, data, _), hn, off in zip(members, hdr_names, offsets):
        assert len(out) == off, (len(out), off)
        add_header("member[%s]" % name, hn, len(data),
                   [len(data) + 1, total - off - 60, total - off - 59, total])
        if not thin:
            out += data
            if len(out) & 1:
                out += b"\n"
    return bytes(out), fields


def _ar_pairs(fields, names):
    byname = {f.name: f for f in fields}
    A = [byname[n] for n in names if n in byname]
    B = [f for f in fields if f.cls in ("ar.symtab.count", "ar.symtab.offset")]
    return A, B


def build_archive_seed(thorough=False):
    ma, mb = _member_obj("fa"), _member_obj("fb")
    members = [("a.o", ma, "fa"), (LONGNAME, mb, "fb")]
    blob, fields = _build_archive(False, members)
    # a few ELF fields of the first member, as seen through the archive
    moff = [f for f in fields if f.name == "member[a.o].name"][0].off + 60
    for fname in ("e_shoff", "e_shnum", "e_shstrndx", "e_type", "e_machine", "ei_class"):
        o, n = elfgen._EHDR[fname]
        fields.append(Field("member[a.o].ehdr." + fname, "ar.member.ehdr." + fname, moff + o, n,
                            extra=[len(ma), len(ma) + 1, len(blob) - moff, len(blob) - moff + 1]))
    seed = Seed("archive", blob, fields, "seed.a",
                {"main.o": _objbytes(vlib.assemble(AR_MAIN))},
                ["main.o", "{f}", "-o", "{out}"])
    seed.pairs = _ar_pairs(fields, ["symtab-member.size", "symtab-member.name",
                                    "longnames-member.size", "longnames-member.name",
                                    "member[a.o].size", "member[a.o].name",
                                    "member[%s].size" % LONGNAME, "member[%s].name" % LONGNAME,
                                    "global magic"])
    return seed


THIN_PATHS = ["seed.a", ".", "/", "nonexistent.o", "", "/dev/null", "sub", "sub/", "a.o",
              "sub/../sub/b.o", "x" * 300, "a.o\0b", "\xff\xfe.o", "sub/b.o/", "main.o"]


def build_thin_seed(thorough=False):
    ma, mb = _member_obj("fa"), _member_obj("fb")
    members = [("a.o", ma, "fa"), ("sub/b.o", mb, "fb")]
    blob, fields = _build_archive(True, members)
    seed = Seed("thin", blob, fields, "seed.a",
                {"main.o": _objbytes(vlib.assemble(AR_MAIN)), "a.o": ma, "sub/b.o": mb},
                ["main.o", "{f}", "-o", "{out}"])
    seed.pairs = _ar_pairs(fields, ["symtab-member.size", "longnames-member.size",
                                    "longnames-member.name", "member[a.o].size",
                                    "member[a.o].name", "member[sub/b.o].size",
                                    "member[sub/b.o].name", "global magic"])
    # generator-parameter mutations: the path of the second member replaced
    seed.param_mutations = []
    for p in THIN_PATHS:
        tab = b"a.o/\n" + p.encode("utf-8", "surrogateescape") + b"/\n"
        alt, _ = _build_archive(True, members, longnames_override=tab)
        seed.param_mutations.append(("thin member path := %r" % p[:40], "ar.thin.path",
                                     [("trunc", 0), (0, alt)], False))
    return seed


SEED_BUILDERS = {"object": build_object_seed, "shared": build_so_seed,
                 "archive": build_archive_seed, "thin": build_thin_seed}


# ---------------------------------------------------------------------------------------------
# Text grammars

LONG_TOKEN = "A" * 10000

GRAMMARS = {
    # name: (alphabet, argv template, file name); '{f}' = the candidate text file, t.o = trivial object
    "linker-script": (["SECTIONS", "{", "}", ":", "*", "(", ")", "KEEP", ".text", "=", ".", ";",
                       "/*", '"', "ASSERT", ",", "0x10"],
                      ["t.o", "-T", "{f}", "-o", "{out}"]),
    "version-script": (["{", "}", "global:", "local:", "*", ";", "foo", "V1", "extern", '"C++"',
                        '"', "};", "#", "/*"],
                       ["t.o", "-shared", "--version-script={f}", "-o", "{out}"]),
    # --dynamic-list and --export-dynamic-symbol-list share one parser (export_list.rs)
    "export-list": (["{", "}", "};", ";", "foo", "*", '"', "extern", '"C++"', '"C"', "#", "/*",
                     "f?o", ":"],
                    ["t.o", "-pie", "--dynamic-list={f}", "-o", "{out}"]),
    "response-file": (["@{f}", '"', "'", "\\", "-o", "x", LONG_TOKEN, '\\"', "-z", "--defsym=a=1",
                       "@nonexistent", "@", "--", "a\"b"],
                      ["t.o", "-o", "{out}", "@{f}"]),
}
IMPLICIT_SCRIPT_ARGV = ["t.o", "{f}", "-o", "{out}"]
EXPORT_LIST_ALT_ARGV = ["t.o", "-shared", "--export-dynamic-symbol-list={f}", "-o", "{out}"]
EXPORT_SYMBOL_ARGV = ["t.o", "-shared", "--export-dynamic-symbol={text}", "-o", "{out}"]
# opening / closing tokens of each grammar, for the structured subsets
ANCHORS = {"linker-script": (["SECTIONS", "{", "/*", '"', "ASSERT"], ["}", ")", ";", '"', "/*"]),
           "version-script": (["{", "V1", "extern", '"', "/*"], ["}", "};", ";", '"', "V1"]),
           "export-list": (["{", "extern", '"', "/*", "#"], ["}", "};", ";", '"', "foo"]),
           "response-file": (["@{f}", '"', "'", "-o", "\\"], ["\\", '"', "'", "-o", "@"])}


# Wrapped variants: the token string is placed inside a well-formed frame, so that short strings
# reach the states behind the opening tokens. variant name = 'w<k>'.
WRAPS = {"linker-script": [("SECTIONS {", "}"), ("SECTIONS { .text : {", "} }")],
         "version-script": [("V1 {", "};"), ("{ global:", "};")],
         "export-list": [("{", "};")],
         "response-file": []}


def token_strings(nalpha, maxlen, minlen=0):
    for n in range(minlen, maxlen + 1):
        yield from itertools.product(range(nalpha), repeat=n)


def structured(grammar, length, nopen=5, nclose=5):
    """The stated structured subset of the strings of exactly `length`: every string whose first
    token is one of the grammar's first `nopen` opening tokens and whose last token is one of its
    first `nclose` closing tokens (ANCHORS), all tokens in between free."""
    alpha = GRAMMARS[grammar][0]
    opens = [alpha.index(t) for t in ANCHORS[grammar][0][:nopen]]
    closes = [alpha.index(t) for t in ANCHORS[grammar][1][:nclose]]
    for a in opens:
        for m in itertools.product(range(len(alpha)), repeat=length - 2):
            for c in closes:
                yield (a, *m, c)


def render(grammar, toks, fpath):
    alpha = GRAMMARS[grammar][0]
    return " ".join(alpha[t].replace("{f}", fpath) for t in toks)


# ---------------------------------------------------------------------------------------------
# Argument lists

HUGE = "99999999999999999999"
ARG_ALPHABET = [
    ["--threads=0"], ["--threads=-1"], ["--threads=" + HUGE], ["--threads="],
    ["-z", "max-page-size=0"], ["-z", "max-page-size=3"], ["-z", "max-page-size=" + HUGE],
    ["-z", "max-page-size=-1"], ["-z"],
    ["--section-start=.text=zzz"], ["--section-start=.text=0x" + "f" * 16], ["--section-start=="],
    ["--defsym=a=b=c"], ["--defsym=="], ["--defsym=_start=_start"], ["--defsym=a=" + HUGE],
    ["--output="], ["-o", "/"], ["-o"],
    ["--entry="], ["--entry=nonexistent"],
    ["-T", "/dev/null"], ["-L"], ["-l"], ["-l", ":"], ["-lnonexistent"],
    ["--hash-style=x"], ["--hash-style="],
    ["--build-id=0x"], ["--build-id=0xzz"], ["--build-id=0x1"], ["--build-id="],
    ["-soname="], ["--wrap="], ["--wrap=_start"], ["--sysroot="], ["-m", "bogus"], ["-m"],
    ["--undefined="], ["--wild-experiments=,,,"], ["--version-script=/dev/null"],
    ["--push-state"], ["--pop-state"], ["--start-group"], ["--end-group"], ["--as-needed"],
    ["-("], ["-)"], ["--"], ["-"], ["@nonexistent"], ["@"],
    ["--exclude-libs="], ["--icf=x"], ["--sort-section=x"], ["--unresolved-symbols=x"],
    ["--pack-dyn-relocs=x"], ["--debug-fuel=-1"], ["--retain-symbols-file=/dev/null"],
    ["--export-dynamic-symbol="], ["--dynamic-list=/dev/null"], ["-shared"], ["-r"],
    ["--time=bogus"], ["-O" + HUGE], ["--z"], ["-\xe9"], ["--no-such-option"],
]
# spellings with an empty word: cannot be sent to the server (its request format drops empty
# words), so they are run as real processes
ARG_EMPTY = [["-o", ""], ["-L", ""], ["-l", ""], ["-T", ""], [""], ["-z", ""], ["-e", ""]]
# options that call process::exit(0) inside parsing: real processes only
ARG_EXIT = [["--help"], ["--version"], ["-v"]]
