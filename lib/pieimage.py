"""Position-independence oracle (property C09): a model of what a dynamic loader does to a PIE /
static-PIE / shared output, written from the gABI (RELA, RELR bitmap decoding) and the x86-64 /
AArch64 psABIs' dynamic relocation formulas. Independent of wild; reads the file with elfread.

    img = load_image(elf, base)        # Image: the PT_LOAD contents after RELA + JMPREL + RELR
    rep = compare(elf, abs_words, fixed_words, bases=(0x10000, 0x7f1234567000))
    rep.problems                       # [(key, message)]; [] = position independent

`abs_words` are the (link-time) addresses of the 8-byte words that the *inputs* say hold an
absolute address; `fixed_words` are words the inputs relocate with something that is not an
address (TLS module / offset, an undefined weak symbol): they must not move with the base.

Checked, for every base B1 against B0 = 0 (the link-time base of an ET_DYN image):
  shift        image(B1)[w] - image(B0)[w] == B1 - B0 for every absolute word w
  fixed-moved  a fixed word is identical at both bases
  stray-diff   every other byte of the image is identical (linker-made GOT slots that carry an
               address-type dynamic relocation are absolute words too and are accepted as such)
  uncovered / double / overlap   exactly one dynamic relocation covers each absolute word; no
               relocation place overlaps another one or a word partially
  fixed-reloc  a fixed word carries at most one relocation and never a RELATIVE / RELR one
  relr-stray   every RELR-decoded address is an absolute word
  relr-odd / relr-dup / relr-order / relr-ent   RELR cross-checks: decoded places are even,
               distinct; DT_RELRENT is 8 (ascending order is reported separately: `relr_sorted`)
  reloc-unknown  a dynamic relocation type the model does not know
"""
import struct

import elfread
from elfread import (EM_X86_64, EM_AARCH64, PT_LOAD, SHN_UNDEF, ElfError, DT_RELRENT, DT_RELR)

M64 = (1 << 64) - 1

# dynamic relocation classes per machine: type -> class
#   rel    B + A
#   abs    S + A (S = B + st_value for a symbol defined in this file; 0 for an undefined weak one)
#   slot   S      (GLOB_DAT / JUMP_SLOT)
#   irel   B + A  (resolver address; the model does not run the resolver: counts as relative)
#   tls    not an address: module id / TLS offset, independent of B
#   none
CLASSES = {
    EM_X86_64: {0: 'none', 8: 'rel', 1: 'abs', 6: 'slot', 7: 'slot', 37: 'irel', 16: 'tls',
                17: 'tls', 18: 'tls', 36: 'tls', 5: 'copy'},
    EM_AARCH64: {0: 'none', 256: 'none', 1027: 'rel', 257: 'abs', 1025: 'slot', 1026: 'slot',
                 1032: 'irel', 1028: 'tls', 1029: 'tls', 1030: 'tls', 1031: 'tls', 1024: 'copy'},
}
ADDRESS_CLASSES = ('rel', 'abs', 'slot', 'irel', 'relr')
GOT_NAMES = ('.got', '.got.plt', '.igot', '.igot.plt', '.plt.got')


class Image:
    """Memory image of the PT_LOAD segments, addressed by link-time (unbiased) addresses."""

    def __init__(self, elf):
        self.segs = []
        for p in elf.segments:
            if p.p_type == PT_LOAD and p.p_memsz:
                buf = bytearray(p.p_memsz)
                buf[:p.p_filesz] = p.data
                self.segs.append((p.p_vaddr, buf, p.p_flags))

    def _find(self, addr, n):
        for va, buf, fl in self.segs:
            if va <= addr and addr + n <= va + len(buf):
                return va, buf, fl
        raise ElfError('place %#x+%d is not inside one PT_LOAD' % (addr, n))

    def u64(self, addr):
        va, buf, _ = self._find(addr, 8)
        return struct.unpack_from('<Q', buf, addr - va)[0]

    def set_u64(self, addr, value):
        va, buf, _ = self._find(addr, 8)
        struct.pack_into('<Q', buf, addr - va, value & M64)

    def writable(self, addr):
        return bool(self._find(addr, 8)[2] & 2)


def dynamic_relocs(elf):
    """-> list of (place, cls, rtype, symidx, addend, table). RELR entries have cls 'relr'."""
    classes = CLASSES.get(elf.e_machine, {})
    dr = elf.dyn_relocs()
    out = []
    for table in ('rela', 'jmprel', 'rel'):
        for place, rtype, symidx, addend in dr[table]:
            out.append((place, classes.get(rtype, 'unknown'), rtype, symidx, addend, table))
    for place in dr['relr']:
        out.append((place, 'relr', None, 0, None, 'relr'))
    return out


def load_image(elf, base, relocs=None):
    """Image after applying the file's dynamic relocations for load bias `base`. Symbols resolve
    inside the file (as for a lone module); undefined symbols resolve to 0."""
    img = Image(elf)
    relocs = dynamic_relocs(elf) if relocs is None else relocs
    dynsyms = None
    for place, cls, rtype, symidx, addend, table in relocs:
        if cls in ('none', 'copy', 'unknown'):
            continue
        if cls == 'relr':
            img.set_u64(place, img.u64(place) + base)
            continue
        a = addend if addend is not None else img.u64(place)
        if cls in ('rel', 'irel'):
            img.set_u64(place, base + a)
            continue
        if dynsyms is None:
            dynsyms = elf.symbols('.dynsym')
        if symidx >= len(dynsyms):
            raise ElfError('dynamic relocation at %#x: symbol index %d of %d'
                           % (place, symidx, len(dynsyms)))
        sym = dynsyms[symidx]
        defined = symidx != 0 and sym.shndx != SHN_UNDEF
        if cls == 'tls':
            # module id 1 / offsets are link-time constants of the module: independent of base
            img.set_u64(place, (1 if rtype in (16, 1028) else (sym.value if defined else 0) + a))
            continue
        s = base + sym.value if defined else 0
        img.set_u64(place, s + (a if cls == 'abs' else 0))
    return img


class Report:
    def __init__(self):
        self.problems = []
        self.cover = {}          # word -> list of relocation classes covering it exactly
        self.relr_places = []
        self.relr_sorted = True
        self.n_rela = self.n_relr = 0
        self.got_words = []
        self.img0 = None         # Image at base 0 (after relocation), for value expectations

    def bad(self, key, msg):
        self.problems.append((key, msg))


def compare(elf, abs_words, fixed_words=(), bases=(0x10000, 0x7f1234567000)):
    rep = Report()
    abs_words, fixed_words = list(abs_words), list(fixed_words)
    try:
        relocs = dynamic_relocs(elf)
        raw = elf.relr_raw()
        dd = elf.dynamic_dict()
    except ElfError as ex:
        rep.bad('dynamic-malformed', str(ex))
        return rep
    if DT_RELR in dd and dd.get(DT_RELRENT) != 8:
        rep.bad('relr-ent', 'DT_RELRENT=%r' % dd.get(DT_RELRENT))
    # ---- RELR cross-checks ----------------------------------------------------------------
    addr_entries = [x for x in raw if not x & 1]
    rep.relr_sorted = addr_entries == sorted(addr_entries)
    rep.relr_places = [p for p, c, *_ in relocs if c == 'relr']
    rep.n_relr = len(rep.relr_places)
    rep.n_rela = len(relocs) - rep.n_relr
    if len(set(rep.relr_places)) != len(rep.relr_places):
        rep.bad('relr-dup', 'a place is decoded twice from DT_RELR: %s'
                % [hex(p) for p in rep.relr_places])
    for p in rep.relr_places:
        if p & 1:
            rep.bad('relr-odd', 'RELR-decoded place %#x is odd' % p)
    # linker-made GOT slots with an address-type relocation are absolute words of the output
    gots = [(s.sh_addr, s.sh_addr + s.sh_size) for s in elf.sections if s.name in GOT_NAMES]
    known = set(abs_words) | set(fixed_words)
    for place, cls, rtype, symidx, addend, table in relocs:
        if cls == 'unknown':
            rep.bad('reloc-unknown', 'dynamic relocation type %s at %#x' % (rtype, place))
        if place in known:
            continue
        if any(lo <= place and place + 8 <= hi for lo, hi in gots):
            if cls in ADDRESS_CLASSES:
                rep.got_words.append(place)
            continue
        if cls == 'relr':
            rep.bad('relr-stray', 'RELR-decoded place %#x is not a word that holds an absolute '
                    'address (absolute words: %s)' % (place, [hex(w) for w in abs_words]))
        elif cls in ADDRESS_CLASSES:
            rep.bad('rela-stray', 'dynamic relocation type %s at %#x is not on a word that holds '
                    'an absolute address' % (rtype, place))
    # ---- coverage --------------------------------------------------------------------------
    places = sorted((place, cls) for place, cls, *_ in relocs if cls not in ('none',))
    for (p1, c1), (p2, c2) in zip(places, places[1:]):
        if p1 != p2 and p2 < p1 + 8:
            rep.bad('overlap', 'relocation places %#x (%s) and %#x (%s) overlap' % (p1, c1, p2, c2))
    for w in abs_words + fixed_words:
        rep.cover[w] = [c for p, c in places if p == w]
        for p, c in places:
            if p != w and abs(p - w) < 8:
                rep.bad('overlap', 'relocation place %#x (%s) overlaps word %#x partially'
                        % (p, c, w))
    for w in abs_words:
        cov = rep.cover[w]
        if not cov:
            rep.bad('uncovered', 'absolute word %#x has no dynamic relocation' % w)
        elif len(cov) > 1:
            rep.bad('double', 'absolute word %#x is covered by %d relocations: %s'
                    % (w, len(cov), cov))
        elif cov[0] not in ADDRESS_CLASSES:
            rep.bad('uncovered:wrong-class', 'absolute word %#x is covered by a %s relocation'
                    % (w, cov[0]))
    for w in fixed_words:
        cov = rep.cover[w]
        if len(cov) > 1 or any(c in ('rel', 'relr', 'irel') for c in cov):
            rep.bad('fixed-reloc', 'word %#x does not hold an address but carries %s' % (w, cov))
    # ---- images ----------------------------------------------------------------------------
    try:
        img0 = rep.img0 = load_image(elf, 0, relocs)
        for b1 in bases:
            img1 = load_image(elf, b1, relocs)
            for w in abs_words + rep.got_words:
                d = (img1.u64(w) - img0.u64(w)) & M64
                if d != b1 & M64:
                    rep.bad('shift', 'word %#x: %#x at base 0, %#x at base %#x (difference %#x)'
                            % (w, img0.u64(w), img1.u64(w), b1, d))
            for w in fixed_words:
                if img1.u64(w) != img0.u64(w):
                    rep.bad('fixed-moved', 'word %#x does not hold an address but is %#x at base '
                            '0 and %#x at base %#x' % (w, img0.u64(w), img1.u64(w), b1))
            # every other byte identical
            for (va, b0, _f), (_va, bb1, _f1) in zip(img0.segs, img1.segs):
                c0, c1 = bytearray(b0), bytearray(bb1)
                for w in abs_words + rep.got_words + fixed_words:
                    if va <= w and w + 8 <= va + len(c0):
                        c0[w - va:w - va + 8] = c1[w - va:w - va + 8] = bytes(8)
                if c0 != c1:
                    i = next(i for i in range(len(c0)) if c0[i] != c1[i])
                    rep.bad('stray-diff', 'byte at %#x differs between base 0 (%#x) and base %#x '
                            '(%#x) and is not part of an absolute word' % (va + i, c0[i], b1, c1[i]))
    except ElfError as ex:
        rep.bad('reloc-place', str(ex))
    return rep
