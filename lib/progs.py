"""Small generated x86-64 programs used by the scheduler-exploration checks (C39, C26, C06, ...)."""
import os

from vlib import assemble


def func_obj(name, calls=(), section=None, extra=""):
    """One object defining global function `name` in its own section that calls `calls`."""
    sec = section or f".text.{name}"
    body = "".join(f"  call {c}\n" for c in calls)
    return (f'.section {sec},"ax",@progbits\n.globl {name}\n.type {name},@function\n'
            f"{name}:\n{body}  ret\n{extra}")


def multi_func_obj(funcs):
    """funcs: list of (name, calls). Each function in its own section of one object."""
    return "".join(func_obj(n, c) for n, c in funcs)


def graph_program(objs, workdir):
    """objs: list of (objname, asm source). Returns list of object paths (copied into workdir so
    that diagnostics mention stable names)."""
    paths = []
    os.makedirs(workdir, exist_ok=True)
    for name, src in objs:
        cached = assemble(src)
        dst = os.path.join(workdir, name)
        if not os.path.exists(dst):
            os.link(cached, dst) if _same_fs(cached, workdir) else _copy(cached, dst)
        paths.append(name)
    return paths


def _same_fs(a, d):
    try:
        return os.stat(a).st_dev == os.stat(d).st_dev
    except OSError:
        return False


def _copy(a, b):
    import shutil
    shutil.copyfile(a, b)
