"""C01 program family: definition kind x reference kind x output kind (x addend), x86-64 run natively and
AArch64 evaluated with imgsim.  This module only GENERATES (sources, link lines) and JUDGES printed
observations; checks/c01.py drives it.

Ground truth never involves a linker relocation that is under test:
  * functions: `whereis_<f>` sits in the same section as <f> and does `lea .L<f>(%rip)` on a local
    label (the assembler resolves it; no relocation record) => run-time address of the definition;
    every function returns a unique marker.
  * data / TLS: the symbol is the middle of three unique 64-bit markers, so the 8 bytes at S+A are a
    literal known to the generator; the program dereferences the observed address.
  * absolute symbols, undefined weak (0) and st_size are literals.
  * common symbols (no contents, no section to put code in): S = value in the output's .symtab +
    load base (stated weaker oracle), cross-checked by GNU ld's program the same way.
"""
import hashlib
import struct

M64 = (1 << 64) - 1


def marker(name):
    """Unique 64-bit literal derived from a name (never a small number, never looks like an address)."""
    v = int(hashlib.sha256(("c01:" + name).encode()).hexdigest()[:16], 16)
    return v | (1 << 63) | 1


# ------------------------------------------------------------------------------------------ runtime
# One freestanding runtime, compiled -fPIE -fvisibility=hidden, three modes:
#   RT_STATIC      no loader: apply __rela_iplt_start..end (IRELATIVE), set up TLS
#   RT_STATIC_PIE  no loader: be the loader (DT_RELA / DT_JMPREL / DT_RELR of the image itself), TLS
#   RT_DYN         ld.so did everything (executable or shared object under test)
RT_C = r'''
typedef unsigned long u64; typedef long i64; typedef unsigned int u32; typedef unsigned char u8;
#define HID __attribute__((visibility("hidden")))
#define EXP __attribute__((visibility("default")))
static inline long sc(long n, long a, long b, long c) {
  long r; asm volatile("syscall" : "=a"(r) : "a"(n), "D"(a), "S"(b), "d"(c) : "rcx", "r11", "memory");
  return r;
}
HID void rt_exit(int c) { for (;;) sc(60, c, 0, 0); }
HID void rt_str(const char *s) { long n = 0; while (s[n]) n++; sc(1, 1, (long)s, n); }
HID void rt_hex(u64 v) {
  char b[17]; for (int i = 0; i < 16; i++) { int d = (v >> (60 - 4 * i)) & 15; b[i] = d < 10 ? '0' + d : 'a' + d - 10; }
  b[16] = ' '; sc(1, 1, (long)b, 17);
}
HID void rt_begin(u64 idx) { rt_str("P "); rt_hex(idx); }
HID void rt_nl(void) { sc(1, 1, (long)"\n", 1); }
HID void run_probes(u64 start);
typedef struct { u32 type, flags; u64 off, vaddr, paddr, filesz, memsz, align; } Phdr;
typedef struct { u64 off, info; i64 addend; } Rela;
typedef struct { u64 name_info_other_shndx[1]; u64 value, size; } SymTail;
HID u64 rt_base, rt_tls_block;
#if defined(RT_STATIC) || defined(RT_STATIC_PIE)
static u8 tlsarea[16384] __attribute__((aligned(4096)));
static u64 tls_memsz_aligned;
typedef struct { u64 mod, off; } tls_index;
EXP void *__tls_get_addr(tls_index *ti) { return (void *)(rt_tls_block + ti->off); }
static void setup_tls(Phdr *ph, long n, u64 base) {
  u64 tp = ((u64)tlsarea + sizeof tlsarea - 256) & ~4095UL;
  for (long i = 0; i < n; i++) if (ph[i].type == 7) {
    u64 al = ph[i].align ? ph[i].align : 1;
    u64 sz = (ph[i].memsz + al - 1) & ~(al - 1);
    if (sz > 8192 || al > 4096) { rt_str("RT-FAIL tls too big\n"); rt_exit(3); }
    u8 *blk = (u8 *)(tp - sz), *src = (u8 *)(base + ph[i].vaddr);
    for (u64 k = 0; k < ph[i].filesz; k++) blk[k] = src[k];
    rt_tls_block = (u64)blk; tls_memsz_aligned = sz;
  }
  *(u64 *)tp = tp;
  if (sc(158, 0x1002, tp, 0) != 0) { rt_str("RT-FAIL arch_prctl\n"); rt_exit(3); }
}
#endif
#ifdef RT_STATIC
extern const Rela __rela_iplt_start[] __attribute__((weak, visibility("hidden")));
extern const Rela __rela_iplt_end[] __attribute__((weak, visibility("hidden")));
#endif
#ifdef RT_STATIC_PIE
static void self_relocate(Phdr *ph, long n, u64 base) {
  u64 *dyn = 0; u64 tlssz = 0;
  for (long i = 0; i < n; i++) {
    if (ph[i].type == 2) dyn = (u64 *)(base + ph[i].vaddr);
    if (ph[i].type == 7) { u64 al = ph[i].align ? ph[i].align : 1; tlssz = (ph[i].memsz + al - 1) & ~(al - 1); }
  }
  if (!dyn) return;
  u64 rela = 0, relasz = 0, jmprel = 0, pltrelsz = 0, relr = 0, relrsz = 0, symtab = 0;
  for (; dyn[0]; dyn += 2) {
    if (dyn[0] == 7) rela = dyn[1]; else if (dyn[0] == 8) relasz = dyn[1];
    else if (dyn[0] == 23) jmprel = dyn[1]; else if (dyn[0] == 2) pltrelsz = dyn[1];
    else if (dyn[0] == 36) relr = dyn[1]; else if (dyn[0] == 35) relrsz = dyn[1];
    else if (dyn[0] == 6) symtab = dyn[1];
  }
  /* RELR first (as glibc does), then RELA non-IRELATIVE, then IRELATIVE. */
  u64 *where = 0;
  for (u64 i = 0; i < relrsz / 8; i++) {
    u64 e = ((u64 *)(base + relr))[i];
    if (!(e & 1)) { where = (u64 *)(base + e); *where++ += base; }
    else { for (int b = 0; (e >>= 1) != 0; b++) if (e & 1) where[b] += base; where += 63; }
  }
  for (int pass = 0; pass < 2; pass++) for (int t = 0; t < 2; t++) {
    Rela *r = (Rela *)(base + (t ? jmprel : rela)); u64 cnt = (t ? pltrelsz : relasz) / 24;
    if (t && jmprel >= rela && jmprel < rela + relasz) continue;   /* JMPREL inside RELA: once */
    for (u64 i = 0; i < cnt; i++) {
      u32 ty = (u32)r[i].info; u64 si = r[i].info >> 32; u64 *p = (u64 *)(base + r[i].off);
      u64 sv = 0; int def = 0;
      if (si && symtab) { u64 *s = (u64 *)(base + symtab + 24 * si); def = (s[0] >> 48) != 0; sv = s[1]; }
      if ((ty == 37) != (pass == 1)) continue;
      switch (ty) {
        case 0: break;
        case 8: *p = base + r[i].addend; break;
        case 37: *p = ((u64 (*)(void))(base + r[i].addend))(); break;
        case 1: case 6: case 7: *p = (def ? base + sv : 0) + (ty == 1 ? r[i].addend : 0); break;
        case 16: *p = 1; break;
        case 17: *p = sv + r[i].addend; break;
        case 18: *p = sv + r[i].addend - tlssz; break;
        default: rt_str("RT-FAIL dynreloc "); rt_hex(ty); rt_nl(); rt_exit(3);
      }
    }
  }
}
#endif
EXP void rt_main(u64 *sp) {
  long argc = sp[0]; char **argv = (char **)(sp + 1); u64 *p = sp + 1 + argc + 1;
  while (*p) p++;
  p++;
  u64 phdr = 0, phnum = 0;
  for (; p[0]; p += 2) { if (p[0] == 3) phdr = p[1]; if (p[0] == 5) phnum = p[1]; }
  Phdr *ph = (Phdr *)phdr; u64 base = 0; int have = 0;
#ifndef RT_SHARED
  for (u64 i = 0; i < phnum; i++) if (ph[i].type == 6) { base = phdr - ph[i].vaddr; have = 1; }
  if (!have) {
    u8 *eh = (u8 *)(phdr - 64);
    if (eh[0] == 0x7f && eh[1] == 'E' && eh[2] == 'L' && eh[3] == 'F' && *(u64 *)(eh + 32) == 64)
      for (u64 i = 0; i < phnum; i++) if (ph[i].type == 1 && ph[i].off == 0) { base = (u64)eh - ph[i].vaddr; have = 1; break; }
  }
  if (!have) { rt_str("RT-FAIL no base\n"); rt_exit(3); }
#endif
#ifdef RT_STATIC_PIE
  self_relocate(ph, phnum, base);
#endif
#ifdef RT_STATIC
  for (const Rela *r = __rela_iplt_start; r < __rela_iplt_end; r++)
    if ((u32)r->info == 37) *(u64 *)r->off = ((u64 (*)(void))r->addend)();
    else { rt_str("RT-FAIL iplt reloc\n"); rt_exit(3); }
#endif
#if defined(RT_STATIC) || defined(RT_STATIC_PIE)
  setup_tls(ph, phnum, base);
#endif
#ifndef RT_SHARED
  for (u64 i = 0; i < phnum; i++) if (ph[i].type == 7) {
    u64 al = ph[i].align ? ph[i].align : 1, tp; asm("mov %%fs:0,%0" : "=r"(tp));
    rt_tls_block = tp - ((ph[i].memsz + al - 1) & ~(al - 1));
  }
#endif
  rt_base = base;
  rt_str("B "); rt_hex(base); rt_nl();
  u64 start = 0;
  if (argc > 1) for (char *s = argv[1]; *s; s++) start = start * 10 + (*s - '0');
  run_probes(start);
  rt_str("END\n");
  rt_exit(0);
}
'''

RT_START = '''
.section .text._start,"ax",@progbits
.globl _start
.type _start,@function
_start:
  xor %ebp,%ebp
  mov %rsp,%rdi
  and $-16,%rsp
  call rt_main@PLT
  hlt
.section .note.GNU-stack,"",@progbits
'''

RT_FLAGS = ["-O1", "-ffreestanding", "-fno-stack-protector", "-fno-asynchronous-unwind-tables",
            "-fPIE", "-fno-jump-tables", "-fno-tree-loop-distribute-patterns", "-fcf-protection=none",
            "-mno-sse", "-fno-builtin"]


# --------------------------------------------------------------------------------- definition kinds
class Def:
    def __init__(self, name, cls, where, **kw):
        self.name, self.cls, self.where = name, cls, where   # where: defs | local | so | ar | cmd | none
        self.value = kw.get("value")            # literal for abs / undefweak
        self.size = kw.get("size", 0)           # st_size literal
        self.bind = kw.get("bind", "globl")     # globl | weak | local
        self.vis = kw.get("vis")                # hidden | protected | None
        self.vclass = kw.get("vclass", name)    # value class used in finding keys

    @property
    def marker(self):
        return marker(self.name)

    @property
    def module_local(self):
        return self.where in ("defs", "local", "ar")


X86_DEFS = [
    Def("fn_local", "func", "local", bind="local", size=0x31),
    Def("fn_global", "func", "defs", size=0x32),
    Def("fn_hidden", "func", "defs", vis="hidden", size=0x33),
    Def("fn_protected", "func", "defs", vis="protected", size=0x34),
    Def("fn_weak", "func", "defs", bind="weak", size=0x35),
    Def("data_local", "data", "local", bind="local", size=8),
    Def("data_global", "data", "defs", size=8),
    Def("data_hidden", "data", "defs", vis="hidden", size=8),
    Def("data_protected", "data", "defs", vis="protected", size=8),
    Def("data_weak", "data", "defs", bind="weak", size=8),
    Def("common", "common", "defs", size=24),
    Def("tls_global", "tls", "defs", size=8),
    Def("tls_local", "tls", "local", bind="local", size=8),
    Def("abs_1234", "abs", "defs", value=0x1234, vclass="abs<2^31"),
    Def("abs_2g", "abs", "defs", value=1 << 31, vclass="abs>=2^31"),
    Def("abs_4g5", "abs", "defs", value=(1 << 32) + 5, vclass="abs>=2^32"),
    Def("abs_2_63", "abs", "defs", value=1 << 63, vclass="abs>=2^63"),
    Def("abs_defsym_2g", "abs", "cmd", value=1 << 31, vclass="defsym:abs>=2^31"),
    Def("undef_weak", "undefweak", "none", value=0, bind="weak"),
    Def("ifunc", "ifunc", "defs", size=0x36),
    Def("so_func", "func", "so", size=0x37),
    Def("so_data", "data", "so", size=8),
    Def("so_tls", "tls", "so", size=8),
    Def("ar_func", "func", "ar", size=0x38),
]
X86_DEF = {d.name: d for d in X86_DEFS}
NOTE = '.section .note.GNU-stack,"",@progbits\n'


def _sym_header(d, typ):
    out = ""
    if d.bind != "local":
        out += f".{d.bind} {d.name}\n"
    if d.vis:
        out += f".{d.vis} {d.name}\n"
    out += f".type {d.name},{typ}\n.size {d.name},{d.size}\n"
    return out


def x86_def_asm(d, tag=""):
    """Assembly text defining `d` (+ whereis_<name><tag> for functions). `tag` distinguishes the
    copies of local definitions living in different probe objects."""
    n = d.name
    if d.cls == "func":
        return (f'.section .text.{n},"ax",@progbits\n.balign 16\n' + _sym_header(d, "@function") +
                f"{n}:\n.L{n}_here:\n  movabs ${d.marker:#x},%rax\n  ret\n"
                f".globl whereis_{n}{tag}\n.hidden whereis_{n}{tag}\n.type whereis_{n}{tag},@function\n"
                f"whereis_{n}{tag}:\n  lea .L{n}_here(%rip),%rax\n  ret\n")
    if d.cls == "ifunc":
        return (f'.section .text.{n},"ax",@progbits\n.balign 16\n' + _sym_header(d, "@gnu_indirect_function") +
                f"{n}:\n  lea .L{n}_impl(%rip),%rax\n  ret\n"
                f".L{n}_impl:\n  movabs ${d.marker:#x},%rax\n  ret\n"
                f".globl whereis_{n}{tag}\n.hidden whereis_{n}{tag}\n.type whereis_{n}{tag},@function\n"
                f"whereis_{n}{tag}:\n  lea .L{n}_impl(%rip),%rax\n  ret\n")
    if d.cls in ("data", "tls"):
        sec = f'.section .tdata.{n},"awT",@progbits' if d.cls == "tls" else f'.section .data.{n},"aw",@progbits'
        return (f"{sec}\n.balign 8\n  .quad {marker(n + ':pre'):#x}\n" + _sym_header(d, "@object") +
                f"{n}:\n  .quad {d.marker:#x}\n  .quad {marker(n + ':post'):#x}\n")
    if d.cls == "common":
        return f".comm {n},{d.size},8\n"
    if d.cls == "abs" and d.where == "defs":
        return f".globl {n}\n.set {n},{d.value:#x}\n"
    return ""


def x86_defs_obj_src():
    return "".join(x86_def_asm(d) for d in X86_DEFS if d.where == "defs") + NOTE


def x86_so_src():
    # whereis_* are hidden: never exported from the shared object (and unused by executables).
    return "".join(x86_def_asm(d) for d in X86_DEFS if d.where == "so") + NOTE


def x86_ar_src():
    return "".join(x86_def_asm(d) for d in X86_DEFS if d.where == "ar") + NOTE


# ---------------------------------------------------------------------------------- reference kinds
class Ref:
    """obs: what the probe returns in %rax
         addr    S+A (64 bit)            addr32  low 32 bits of S
         plt     L+A: an address that, called, must behave like S (may be a PLT entry)
         ret     marker returned by the callee
         tls     run-time address of the TLS variable (+A)
         size    st_size+A
       classes: definition classes the reference is meaningful for."""
    def __init__(self, rid, relocs, form, obs, body, classes, addends=False, obj="A", data=None,
                 outs=None):
        self.id, self.relocs, self.form, self.obs = rid, relocs, form, obs
        self.body, self.classes, self.addends, self.obj, self.data = body, classes, addends, obj, data
        self.outs = outs


ADDR = ("func", "data", "common", "abs", "undefweak", "ifunc")
CALL = ("func", "ifunc")
TLS = ("tls",)
SIZED = ("func", "data", "common", "tls", "ifunc")
GOT = "{s}@GOTPCREL(%rip)"
_GOTBASE = "  lea _GLOBAL_OFFSET_TABLE_(%rip),%rdx\n"
_CMP64 = ("  xor %edx,%edx\n  mov $1,%ecx\n  ror $1,%rcx\n1:\n  mov %rdx,%rax\n  or %rcx,%rax\n"
          f"  cmp {GOT},%rax\n  ja 2f\n  mov %rax,%rdx\n2:\n  shr $1,%rcx\n  jnz 1b\n  mov %rdx,%rax\n  ret\n")
_CMP32 = ("  xor %edx,%edx\n  mov $0x80000000,%ecx\n1:\n  mov %edx,%eax\n  or %ecx,%eax\n"
          f"  cmp {GOT},%eax\n  ja 2f\n  mov %eax,%edx\n2:\n  shr $1,%ecx\n  jnz 1b\n  mov %edx,%eax\n  ret\n")
_TEST64 = (f"  xor %edx,%edx\n  mov $1,%ecx\n1:\n  test %rcx,{GOT}\n  jz 2f\n  or %rcx,%rdx\n2:\n"
           "  shl $1,%rcx\n  jnz 1b\n  mov %rdx,%rax\n  ret\n")
_TEST32 = (f"  xor %edx,%edx\n  mov $1,%ecx\n1:\n  test %ecx,{GOT}\n  jz 2f\n  or %ecx,%edx\n2:\n"
           "  shl $1,%ecx\n  jnz 1b\n  mov %edx,%eax\n  ret\n")


def _binop(op, reg, pre, post=""):
    return f"  {pre}\n  {op} {GOT},%{reg}\n{post}  ret\n"


def _x86_refs():
    R = []
    a = R.append
    a(Ref("64:data", "R_X86_64_64", "quad", "addr", "  mov slot{i}(%rip),%rax\n  ret\n", ADDR, True,
          data="  .quad {sa}\n"))
    a(Ref("32:mov", "R_X86_64_32", "mov-imm32", "addr", "  mov ${sa},%eax\n  ret\n", ADDR, True))
    a(Ref("32S:mov", "R_X86_64_32S", "mov-simm32", "addr", "  movq ${sa},%rax\n  ret\n", ADDR, True))
    a(Ref("PC32:lea", "R_X86_64_PC32", "lea", "addr", "  lea {sa}(%rip),%rax\n  ret\n", ADDR, True))
    a(Ref("PC64:quad", "R_X86_64_PC64", "quad", "addr",
          "  lea slot{i}(%rip),%rax\n  add (%rax),%rax\n  ret\n", ADDR, True, data="  .quad {sa}-.\n"))
    a(Ref("PLT32:call", "R_X86_64_PLT32", "call", "ret",
          "  sub $8,%rsp\n  call {s}@PLT\n  add $8,%rsp\n  ret\n", CALL))
    a(Ref("PLT32:jmp", "R_X86_64_PLT32", "jmp", "ret", "  jmp {s}@PLT\n", CALL))
    a(Ref("PLT32:lea", "R_X86_64_PLT32", "lea", "plt", "  lea {s}@PLT(%rip),%rax\n  ret\n", CALL))
    a(Ref("GOTPCREL:mov", "R_X86_64_GOTPCREL", "mov", "addr", f"  mov {GOT},%rax\n  ret\n", ADDR, obj="B"))
    a(Ref("GOTPCREL:call", "R_X86_64_GOTPCREL", "call", "ret",
          f"  sub $8,%rsp\n  call *{GOT}\n  add $8,%rsp\n  ret\n", CALL, obj="B"))
    # GOTPCRELX (no REX prefix: 32-bit operand size, or branch)
    a(Ref("GOTPCRELX:mov", "R_X86_64_GOTPCRELX", "mov", "addr32", f"  mov {GOT},%eax\n  ret\n", ADDR))
    a(Ref("GOTPCRELX:call", "R_X86_64_GOTPCRELX", "call", "ret",
          f"  sub $8,%rsp\n  call *{GOT}\n  add $8,%rsp\n  ret\n", CALL))
    a(Ref("GOTPCRELX:jmp", "R_X86_64_GOTPCRELX", "jmp", "ret", f"  jmp *{GOT}\n", CALL))
    a(Ref("GOTPCRELX:test", "R_X86_64_GOTPCRELX", "test", "addr32", _TEST32, ADDR))
    a(Ref("GOTPCRELX:cmp", "R_X86_64_GOTPCRELX", "cmp", "addr32", _CMP32, ADDR))
    for op, pre, post in (("add", "xor %eax,%eax", ""), ("sub", "xor %eax,%eax", "  neg %eax\n"),
                          ("and", "mov $-1,%eax", ""), ("or", "xor %eax,%eax", ""),
                          ("xor", "xor %eax,%eax", ""), ("adc", "xor %eax,%eax", ""),
                          ("sbb", "xor %eax,%eax", "  neg %eax\n")):
        a(Ref(f"GOTPCRELX:{op}", "R_X86_64_GOTPCRELX", op, "addr32", _binop(op, "eax", pre, post), ADDR))
    # REX_GOTPCRELX (64-bit operand size)
    a(Ref("REX_GOTPCRELX:mov", "R_X86_64_REX_GOTPCRELX", "mov", "addr", f"  mov {GOT},%rax\n  ret\n", ADDR))
    a(Ref("REX_GOTPCRELX:test", "R_X86_64_REX_GOTPCRELX", "test", "addr", _TEST64, ADDR))
    a(Ref("REX_GOTPCRELX:cmp", "R_X86_64_REX_GOTPCRELX", "cmp", "addr", _CMP64, ADDR))
    for op, pre, post in (("add", "xor %eax,%eax", ""), ("sub", "xor %eax,%eax", "  neg %rax\n"),
                          ("and", "mov $-1,%rax", ""), ("or", "xor %eax,%eax", ""),
                          ("xor", "xor %eax,%eax", ""), ("adc", "xor %eax,%eax", ""),
                          ("sbb", "xor %eax,%eax", "  neg %rax\n")):
        a(Ref(f"REX_GOTPCRELX:{op}", "R_X86_64_REX_GOTPCRELX", op, "addr", _binop(op, "rax", pre, post), ADDR))
    a(Ref("GOTOFF64:movabs", "R_X86_64_GOTOFF64", "movabs", "addr",
          "  movabs ${sa}@GOTOFF,%rax\n" + _GOTBASE + "  add %rdx,%rax\n  ret\n", ADDR, True))
    a(Ref("GOT64:movabs", "R_X86_64_GOT64+GOTPC32", "movabs", "addr",
          "  movabs ${s}@GOT,%rax\n" + _GOTBASE + "  mov (%rdx,%rax),%rax\n  ret\n", ADDR))
    a(Ref("PLTOFF64:movabs", "R_X86_64_PLTOFF64", "movabs", "plt",
          "  movabs ${s}@PLTOFF,%rax\n" + _GOTBASE + "  add %rdx,%rax\n  ret\n", CALL))
    # TLS
    a(Ref("TPOFF32:lea", "R_X86_64_TPOFF32", "lea", "tls",
          "  mov %fs:0,%rax\n  lea {sa}@tpoff(%rax),%rax\n  ret\n", TLS, True))
    a(Ref("TPOFF32:mov", "R_X86_64_TPOFF32", "mov-simm32", "tls",
          "  movq ${sa}@tpoff,%rax\n  add %fs:0,%rax\n  ret\n", TLS, True))
    a(Ref("TPOFF64:data", "R_X86_64_TPOFF64", "quad", "tls",
          "  mov slot{i}(%rip),%rax\n  add %fs:0,%rax\n  ret\n", TLS, True, data="  .quad {sa}@tpoff\n"))
    a(Ref("GOTTPOFF:mov", "R_X86_64_GOTTPOFF", "mov", "tls",
          "  mov {s}@gottpoff(%rip),%rax\n  add %fs:0,%rax\n  ret\n", TLS))
    a(Ref("GOTTPOFF:add", "R_X86_64_GOTTPOFF", "add", "tls",
          "  mov %fs:0,%rax\n  add {s}@gottpoff(%rip),%rax\n  ret\n", TLS))
    a(Ref("TLSGD:plt", "R_X86_64_TLSGD", "call-plt", "tls",
          "  sub $8,%rsp\n  .byte 0x66\n  leaq {s}@tlsgd(%rip),%rdi\n  .value 0x6666\n  rex64\n"
          "  call __tls_get_addr@PLT\n  add $8,%rsp\n  ret\n", TLS))
    a(Ref("TLSGD:got", "R_X86_64_TLSGD", "call-got", "tls",
          "  sub $8,%rsp\n  .byte 0x66\n  leaq {s}@tlsgd(%rip),%rdi\n  .byte 0x66\n  rex64\n"
          "  call *__tls_get_addr@GOTPCREL(%rip)\n  add $8,%rsp\n  ret\n", TLS))
    a(Ref("TLSLD:plt", "R_X86_64_TLSLD+DTPOFF32", "call-plt", "tls",
          "  sub $8,%rsp\n  leaq {s}@tlsld(%rip),%rdi\n  call __tls_get_addr@PLT\n"
          "  lea {sa}@dtpoff(%rax),%rax\n  add $8,%rsp\n  ret\n", TLS, True))
    a(Ref("TLSLD:got", "R_X86_64_TLSLD+DTPOFF32", "call-got", "tls",
          "  sub $8,%rsp\n  leaq {s}@tlsld(%rip),%rdi\n  call *__tls_get_addr@GOTPCREL(%rip)\n"
          "  lea {sa}@dtpoff(%rax),%rax\n  add $8,%rsp\n  ret\n", TLS, True))
    a(Ref("TLSDESC:call", "R_X86_64_GOTPC32_TLSDESC+TLSDESC_CALL", "lea+call", "tls",
          "  sub $8,%rsp\n  leaq {s}@tlsdesc(%rip),%rax\n  call *{s}@tlscall(%rax)\n  add %fs:0,%rax\n"
          "  add $8,%rsp\n  ret\n", TLS))
    # R_X86_64_DTPOFF64 in an executable's data is not enumerated: GNU ld stores the dtp offset, ld.lld (and
    # wild) the tp offset (they assume the LD->LE relaxation); the reference linkers disagree.
    a(Ref("DTPOFF64:ld", "R_X86_64_DTPOFF64+TLSLD", "quad", "tls",
          "  sub $8,%rsp\n  leaq {s}@tlsld(%rip),%rdi\n  call __tls_get_addr@PLT\n"
          "  add slot{i}(%rip),%rax\n  add $8,%rsp\n  ret\n", TLS, True,
          data="  .quad {sa}@dtpoff\n", outs=("shared",)))
    a(Ref("SIZE32:mov", "R_X86_64_SIZE32", "mov-imm32", "size", "  mov ${sa}@SIZE,%eax\n  ret\n", SIZED, True))
    a(Ref("SIZE64:movabs", "R_X86_64_SIZE64", "movabs", "size", "  movabs ${sa}@SIZE,%rax\n  ret\n", SIZED, True))
    return R


X86_REFS = _x86_refs()
X86_REF = {r.id: r for r in X86_REFS}
OUTS = ["static", "static-pie", "pie", "nonpie-dyn", "shared"]
ADDENDS = [0, 8, -4]


def applicable(d, r, out, addend):
    """Static applicability rule (everything else is linked): the reference form must be meaningful
    for the definition class; shared-object definitions need a dynamic output; an addend other than
    0 only where the relocation's addend is the symbol's addend."""
    if d.cls not in r.classes:
        return False
    if d.where == "so" and out in ("static", "static-pie"):
        return False
    if addend and not r.addends:
        return False
    if r.outs and out not in r.outs:
        return False
    return True


def x86_cells(addends):
    """All (def, ref, addend) triples applicable in at least one output kind, in a fixed order."""
    cells = []
    for d in X86_DEFS:
        for r in X86_REFS:
            for a in addends:
                if any(applicable(d, r, o, a) for o in OUTS):
                    cells.append((d.name, r.id, a))
    return cells


def _sa(name, a):
    return name if a == 0 else (f"{name}+{a}" if a > 0 else f"{name}{a}")


def x86_probe_obj_src(cells, obj):
    """Source of probe object `obj` ("A": default assembler flags, "B": -mrelax-relocations=no):
    every probe p<i> of `cells` (global index i) whose reference kind lives in this object, each in
    its own section(s), plus this object's copies of the local definitions."""
    out = [x86_def_asm(d, "_" + obj) for d in X86_DEFS if d.where == "local"]
    out.append(".weak undef_weak\n")
    for i, (dn, rid, a) in enumerate(cells):
        r = X86_REF[rid]
        if r.obj != obj:
            continue
        fmt = dict(s=dn, sa=_sa(dn, a), i=i)
        if r.data:
            out.append(f'.section .data.p{i},"aw",@progbits\n.balign 8\nslot{i}:\n' + r.data.format(**fmt))
        out.append(f'.section .text.p{i},"ax",@progbits\n.globl p{i}\n.hidden p{i}\n'
                   f".type p{i},@function\np{i}:\n" + r.body.format(**fmt))
    out.append(NOTE)
    return "".join(out)


PROBE_OBJ_FLAGS = {"A": [], "B": ["-Wa,-mrelax-relocations=no"]}


# ------------------------------------------------------------------------------------ packed program
def fields_for(d, r):
    """Which values run_probes prints after X for a probe of (d, r): W = whereis (module-local
    functions), D = 8 bytes at X-A (data, TLS, common), C = result of calling X-A (functions)."""
    f = []
    if r.obs in ("addr", "plt") and d.cls in ("func", "ifunc"):
        if d.module_local and r.obs == "addr" and d.cls == "func":
            f.append("W")          # an IFUNC's address may be its PLT entry: only the call is checked
        f.append("C")
    elif r.obs == "addr32" and d.cls == "func" and d.module_local:
        f.append("W")
    elif r.obs in ("addr", "tls") and d.cls in ("data", "tls", "common"):
        f.append("D")
    return f


def x86_run_src(cells, selected):
    """run_probes(start): for every selected probe index >= start print
         P <idx> <X> [<W>] [<D>] [<C>]\\n     (each field written as soon as it is known)"""
    o = ['.section .text.run_probes,"ax",@progbits\n.globl run_probes\n.hidden run_probes\n'
         ".type run_probes,@function\nrun_probes:\n  push %rbx\n  push %r12\n  push %r13\n  mov %rdi,%r12\n"]
    for i in selected:
        dn, rid, a = cells[i]
        d, r = X86_DEF[dn], X86_REF[rid]
        o.append(f"  cmp ${i},%r12\n  ja 9f\n  mov ${i},%edi\n  call rt_begin\n  call p{i}\n  mov %rax,%rbx\n"
                 "  mov %rax,%rdi\n  call rt_hex\n")
        for f in fields_for(d, r):
            if f == "W":
                tag = "_" + r.obj if d.where == "local" else ""
                o.append(f"  call whereis_{dn}{tag}\n  mov %rax,%rdi\n  call rt_hex\n")
            elif f == "D":
                o.append(f"  mov {-a}(%rbx),%rdi\n  call rt_hex\n")
            elif f == "C":
                o.append(f"  lea {-a}(%rbx),%rax\n  call *%rax\n  mov %rax,%rdi\n  call rt_hex\n")
        o.append("  call rt_nl\n9:\n")
    o.append("  pop %r13\n  pop %r12\n  pop %rbx\n  ret\n" + NOTE)
    return "".join(o)


RUNSTUB = ('.section .text.run_probes,"ax",@progbits\n.globl run_probes\n.hidden run_probes\n'
           "run_probes:\n  ret\n" + NOTE)
INTERP = "/lib64/ld-linux-x86-64.so.2"
# ld.so refuses to start a process with dependencies but without malloc/calloc/free in scope, so dynamic
# members depend on the system libc (never called: the runtime is freestanding).
LIBC = "/lib/x86_64-linux-gnu/libc.so.6"
DEFSYM = "--defsym=abs_defsym_2g=0x80000000"
RT_MODE = {"static": "RT_STATIC", "static-pie": "RT_STATIC_PIE", "pie": "RT_DYN", "nonpie-dyn": "RT_DYN",
           "shared": "RT_SHARED"}


def x86_link_argv(out, output, run_obj, sodir=".", roots=None):
    """Link line (without the linker's name) shared by wild and GNU ld. `roots`: link only those probe
    indices (first as entry, the rest as -u) for acceptance tests; otherwise the packed program."""
    flags = {"static": ["-static"],
             "static-pie": ["-static", "-pie", "--no-dynamic-linker"],
             "pie": ["-pie", "--dynamic-linker=" + INTERP],
             "nonpie-dyn": ["-no-pie", "--dynamic-linker=" + INTERP],
             "shared": ["-shared", "-soname=libtest.so"]}[out]
    argv = [*flags, "--gc-sections", "-z", "noexecstack", DEFSYM, "-o", output]
    if roots is not None:
        argv += ["-e", f"p{roots[0]}"]
        for i in roots[1:]:
            argv += ["-u", f"p{i}"]
    elif out != "shared":
        argv += ["start.o"]
    argv += [f"rt_{RT_MODE[out]}.o", run_obj, "probesA.o", "probesB.o", "defs.o", "libar.a"]
    if out not in ("static", "static-pie"):
        argv += [f"{sodir}/libdefs.so", LIBC, INTERP]
    return argv


SO_ARGV = ["-shared", "-soname=libdefs.so", "--gc-sections", "-z", "noexecstack", "-o", "libdefs.so", "so.o"]
DRIVER_ARGV = ["-no-pie", "--allow-shlib-undefined", "--dynamic-linker=" + INTERP, "-z", "noexecstack", "-o", "driver", "start.o",
               "libtest.so", LIBC, INTERP]


def parse_run(text):
    """-> ({idx: [values]}, {idx: load base printed before that line}, last idx or None, ended)"""
    base, res, bases, last, ended = None, {}, {}, None, False
    for line in text.split("\n"):
        w = line.split()
        if not w:
            continue
        try:
            if w[0] == "B" and len(w) > 1:
                base = int(w[1], 16)
            elif w[0] == "P" and len(w) > 1:
                idx = int(w[1], 16)
                res[idx] = [int(x, 16) for x in w[2:]]
                bases[idx] = base
                last = idx
            elif w[0] == "END":
                ended = True
        except ValueError:
            pass
    return res, bases, last, ended


def judge_x86(cells, idx, vals, truth=None):
    """Decide one probe from its printed values. Returns (status, detail):
         ok | bad (observed value differs from ground truth) | crash | unverifiable (no ground truth).
       truth: {def name: run-time address} for definitions that have no whereis: established by the
       caller from sibling probes of the same program whose dereference / call check passed (data,
       shared-object functions) or from the output's .symtab + load base (common)."""
    dn, rid, a = cells[idx]
    d, r = X86_DEF[dn], X86_REF[rid]
    need = 1 + len(fields_for(d, r))
    if len(vals) < need:
        return "crash", f"only {len(vals)} of {need} fields printed"
    x = vals[0]
    f = dict(zip(fields_for(d, r), vals[1:]))
    m = 0xffffffff if r.obs == "addr32" else M64
    exp = []
    if r.obs == "ret":
        exp.append(("X", x, d.marker))
    elif r.obs == "size":
        exp.append(("X", x, (d.size + a) & (M64 if r.relocs.endswith("64") else 0xffffffff)))
    elif d.cls in ("abs", "undefweak"):
        exp.append(("X", x, (d.value + a) & m))
    else:
        if "W" in f:
            exp.append(("X=whereis+A", x, (f["W"] + a) & m))
        if "C" in f:
            exp.append(("call(X-A)", f["C"], d.marker))
        if "D" in f:
            exp.append(("*(X-A)", f["D"], 0 if d.cls == "common" else d.marker))
        if d.cls == "common" or (r.obs == "addr32" and "W" not in f):
            key = dn + "@" + r.obj if d.where == "local" else dn
            if not truth or key not in truth:
                return "unverifiable", "no ground truth for this observation"
            exp.append(("X=truth+A", x, (truth[key] + a) & m))
    if not exp:
        return "unverifiable", "no ground truth for this observation"
    badl = [f"{n}: observed {o:#x} expected {e:#x}" for n, o, e in exp if o != e]
    if badl:
        return "bad", "; ".join(badl)
    return "ok", ""


def sibling_truth(cells, results):
    """{def: address} from probes with a full-address observation whose own dereference / call check
    passed; a definition observed at two different verified addresses gets no entry."""
    seen = {}
    for idx, vals in results.items():
        dn, rid, a = cells[idx]
        d, r = X86_DEF[dn], X86_REF[rid]
        if r.obs != "addr" or d.cls in ("abs", "undefweak", "common"):
            continue
        st, _ = judge_x86(cells, idx, vals)
        if st == "ok":
            seen.setdefault(dn + "@" + r.obj if d.where == "local" else dn, set()).add((vals[0] - a) & M64)
    return {k: next(iter(v)) for k, v in seen.items() if len(v) == 1}


# Dynamic relocation types glibc's x86-64 ld.so applies (elf_machine_rela); any other type makes it
# refuse the whole image, so a cell that produces one is taken out of the packed program.
LOADER_OK_X86 = {0, 1, 2, 5, 6, 7, 8, 10, 16, 17, 18, 32, 33, 36, 37}


def poison_cells(elf):
    """[(idx, reloc type name)] of probes whose section carries a dynamic relocation ld.so rejects.
    The reloc's r_offset is mapped to the probe through the p<i>/slot<i> symbols of .symtab."""
    import bisect
    rel = elf.dyn_relocs()
    bad = [(o, t) for k in ("rela", "jmprel") for (o, t, s_, a) in rel[k] if t not in LOADER_OK_X86]
    if not bad:
        return []
    marks = sorted((s.value, s.name) for s in elf.symbols(".symtab")
                   if s.shndx and (s.name[:1] == "p" and s.name[1:].isdigit()
                                   or s.name[:4] == "slot" and s.name[4:].isdigit()))
    vals = [m[0] for m in marks]
    out = []
    for off, t in bad:
        k = bisect.bisect_right(vals, off) - 1
        if k >= 0 and off - vals[k] < 96:
            out.append((int(marks[k][1].lstrip("pslot")), elf.reloc_name(t)))
        else:
            out.append((None, elf.reloc_name(t)))
    return out


# ============================================================================================ AArch64
# Statically evaluated (lib/imgsim.py). Same ground truth: whereis (assembler-resolved `adr`), unique
# markers behind data/TLS symbols, callee markers, literals.
A64_DEFS = [
    Def("fn_local", "func", "local", bind="local", size=0x31),
    Def("fn_global", "func", "defs", size=0x32),
    Def("fn_hidden", "func", "defs", vis="hidden", size=0x33),
    Def("fn_protected", "func", "defs", vis="protected", size=0x34),
    Def("fn_weak", "func", "defs", bind="weak", size=0x35),
    Def("data_local", "data", "local", bind="local", size=8),
    Def("data_global", "data", "defs", size=8),
    Def("data_hidden", "data", "defs", vis="hidden", size=8),
    Def("data_weak", "data", "defs", bind="weak", size=8),
    Def("tls_global", "tls", "defs", size=8),
    Def("tls_local", "tls", "local", bind="local", size=8),
    Def("abs_1234", "abs", "defs", value=0x1234, vclass="abs<2^16"),
    Def("abs_4g5", "abs", "defs", value=(1 << 32) + 5, vclass="abs>=2^32"),
    Def("undef_weak", "undefweak", "none", value=0, bind="weak"),
    Def("so_func", "func", "so", size=0x37),
    Def("so_data", "data", "so", size=8),
    Def("ar_func", "func", "ar", size=0x38),
]
A64_DEF = {d.name: d for d in A64_DEFS}
A64_NOTE = '.section .note.GNU-stack,"",%progbits\n'


def _a64_marker_fn(m):
    return (f"  movz x0,#{m & 0xffff:#x}\n  movk x0,#{(m >> 16) & 0xffff:#x},lsl #16\n"
            f"  movk x0,#{(m >> 32) & 0xffff:#x},lsl #32\n  movk x0,#{(m >> 48) & 0xffff:#x},lsl #48\n  ret\n")


def _a64_header(d, typ):
    out = ""
    if d.bind != "local":
        out += f".{d.bind} {d.name}\n"
    if d.vis:
        out += f".{d.vis} {d.name}\n"
    return out + f".type {d.name},{typ}\n.size {d.name},{d.size}\n"


def a64_def_asm(d, tag=""):
    n = d.name
    if d.cls == "func":
        return (f'.section .text.{n},"ax",%progbits\n.balign 16\n' + _a64_header(d, "%function") +
                f"{n}:\n.L{n}_here:\n" + _a64_marker_fn(d.marker) +
                f".globl whereis_{n}{tag}\n.hidden whereis_{n}{tag}\n.type whereis_{n}{tag},%function\n"
                f"whereis_{n}{tag}:\n  adr x0,.L{n}_here\n  ret\n")
    if d.cls in ("data", "tls"):
        sec = f'.section .tdata.{n},"awT",%progbits' if d.cls == "tls" else f'.section .data.{n},"aw",%progbits'
        return (f"{sec}\n.balign 16\n  .xword {marker(n + ':pre'):#x}\n  .xword {marker(n + ':pre2'):#x}\n" +
                _a64_header(d, "%object") + f"{n}:\n  .xword {d.marker:#x}\n  .xword {marker(n + ':post'):#x}\n")
    if d.cls == "abs":
        return f".globl {n}\n.set {n},{d.value:#x}\n"
    return ""


def a64_obj_src(where):
    return "".join(a64_def_asm(d) for d in A64_DEFS if d.where == where) + A64_NOTE


# static links need a definition of __tls_get_addr even though TLS GD is relaxed; imgsim puts its own
# implementation at this symbol's address, so an unrelaxed call still behaves like the real one.
A64_HELPER = ('.section .text.__tls_get_addr,"ax",%progbits\n.globl __tls_get_addr\n'
              ".type __tls_get_addr,%function\n__tls_get_addr:\n  ret\n" + A64_NOTE)

AADDR = ("func", "data", "abs", "undefweak")
ADATA = ("data",)


def _a64_refs():
    R = []
    a = R.append
    a(Ref("ABS64:data", "R_AARCH64_ABS64", "xword", "addr",
          "  adrp x1,slot{i}\n  ldr x0,[x1,:lo12:slot{i}]\n  ret\n", AADDR, True, data="  .xword {sa}\n"))
    a(Ref("ABS32:data", "R_AARCH64_ABS32", "word", "addr",
          "  adrp x1,slot{i}\n  ldr w0,[x1,:lo12:slot{i}]\n  ret\n", AADDR, True, data="  .word {sa}\n"))
    a(Ref("PREL32:word", "R_AARCH64_PREL32", "word", "addr",
          "  adr x1,1f\n  ldrsw x0,[x1]\n  add x0,x0,x1\n  ret\n  .balign 8\n1:\n  .word {sa}-.\n", AADDR, True))
    a(Ref("PREL64:xword", "R_AARCH64_PREL64", "xword", "addr",
          "  adr x1,1f\n  ldr x0,[x1]\n  add x0,x0,x1\n  ret\n  .balign 8\n1:\n  .xword {sa}-.\n", AADDR, True))
    a(Ref("ADR_PREL_LO21:adr", "R_AARCH64_ADR_PREL_LO21", "adr", "addr", "  adr x0,{sa}\n  ret\n", AADDR, True))
    a(Ref("ADR_PREL_PG_HI21:adrp+add", "R_AARCH64_ADR_PREL_PG_HI21+ADD_ABS_LO12_NC", "adrp+add", "addr",
          "  adrp x0,{sa}\n  add x0,x0,:lo12:{sa}\n  ret\n", AADDR, True))
    for bits, ins, reg in ((8, "ldrb", "w0"), (16, "ldrh", "w0"), (32, "ldr", "w0"), (64, "ldr", "x0"),
                           (128, "ldr", "q0")):
        a(Ref(f"LDST{bits}_ABS_LO12_NC:{ins}", f"R_AARCH64_ADR_PREL_PG_HI21+LDST{bits}_ABS_LO12_NC", ins, "ea",
              f"  adrp x1,{{s}}\n  {ins} {reg},[x1,:lo12:{{s}}]\n  ret\n", ADATA))
    a(Ref("CALL26:bl", "R_AARCH64_CALL26", "bl", "ret", "  mov x9,x30\n  bl {s}\n  br x9\n", CALL))
    a(Ref("JUMP26:b", "R_AARCH64_JUMP26", "b", "ret", "  b {s}\n", CALL))
    a(Ref("CONDBR19:cbz", "R_AARCH64_CONDBR19", "cbz", "ret", "  cbz xzr,{s}\n  mov x0,xzr\n  ret\n", CALL))
    a(Ref("CONDBR19:b.ne", "R_AARCH64_CONDBR19", "b.cond", "ret", "  b.ne {s}\n  mov x0,xzr\n  ret\n", CALL))
    a(Ref("TSTBR14:tbz", "R_AARCH64_TSTBR14", "tbz", "ret", "  tbz wzr,#0,{s}\n  mov x0,xzr\n  ret\n", CALL))
    a(Ref("ADR_GOT_PAGE:adrp+ldr", "R_AARCH64_ADR_GOT_PAGE+LD64_GOT_LO12_NC", "adrp+ldr", "addr",
          "  adrp x0,:got:{s}\n  ldr x0,[x0,:got_lo12:{s}]\n  ret\n", AADDR))
    a(Ref("MOVW_UABS:g3-chain", "R_AARCH64_MOVW_UABS_G3+G2_NC+G1_NC+G0_NC", "movz+3movk", "addr",
          "  movz x0,#:abs_g3:{sa}\n  movk x0,#:abs_g2_nc:{sa}\n  movk x0,#:abs_g1_nc:{sa}\n"
          "  movk x0,#:abs_g0_nc:{sa}\n  ret\n", AADDR, True))
    a(Ref("MOVW_UABS:g2-chain", "R_AARCH64_MOVW_UABS_G2+G1_NC+G0_NC", "movz+2movk", "addr",
          "  movz x0,#:abs_g2:{sa}\n  movk x0,#:abs_g1_nc:{sa}\n  movk x0,#:abs_g0_nc:{sa}\n  ret\n", AADDR, True))
    a(Ref("MOVW_UABS:g1-chain", "R_AARCH64_MOVW_UABS_G1+G0_NC", "movz+movk", "addr",
          "  movz x0,#:abs_g1:{sa}\n  movk x0,#:abs_g0_nc:{sa}\n  ret\n", AADDR, True))
    a(Ref("MOVW_UABS:g0", "R_AARCH64_MOVW_UABS_G0", "movz", "addr", "  movz x0,#:abs_g0:{sa}\n  ret\n", AADDR, True))
    a(Ref("TLSLE_ADD_TPREL:add", "R_AARCH64_TLSLE_ADD_TPREL_HI12+LO12_NC", "add+add", "tls",
          "  mrs x0,tpidr_el0\n  add x0,x0,:tprel_hi12:{sa}\n  add x0,x0,:tprel_lo12_nc:{sa}\n  ret\n", TLS, True))
    a(Ref("TLSLE_MOVW_TPREL:movz", "R_AARCH64_TLSLE_MOVW_TPREL_G1+G0_NC", "movz+movk", "tls",
          "  movz x0,#:tprel_g1:{sa}\n  movk x0,#:tprel_g0_nc:{sa}\n  mrs x1,tpidr_el0\n  add x0,x0,x1\n  ret\n",
          TLS, True))
    a(Ref("TLSLE_LDST64_TPREL:ldr", "R_AARCH64_TLSLE_ADD_TPREL_HI12+LDST64_TPREL_LO12_NC", "add+ldr", "ea",
          "  mrs x1,tpidr_el0\n  add x1,x1,:tprel_hi12:{s}\n  ldr x0,[x1,:tprel_lo12_nc:{s}]\n  ret\n", TLS))
    a(Ref("TLSIE:adrp+ldr", "R_AARCH64_TLSIE_ADR_GOTTPREL_PAGE21+LD64_GOTTPREL_LO12_NC", "adrp+ldr", "tls",
          "  adrp x0,:gottprel:{s}\n  ldr x0,[x0,:gottprel_lo12:{s}]\n  mrs x1,tpidr_el0\n  add x0,x0,x1\n  ret\n", TLS))
    a(Ref("TLSDESC:call", "R_AARCH64_TLSDESC_ADR_PAGE21+LD64_LO12+ADD_LO12+CALL", "adrp+ldr+add+blr", "tls",
          "  mov x9,x30\n  adrp x0,:tlsdesc:{s}\n  ldr x1,[x0,:tlsdesc_lo12:{s}]\n  add x0,x0,:tlsdesc_lo12:{s}\n"
          "  .tlsdesccall {s}\n  blr x1\n  mrs x1,tpidr_el0\n  add x0,x0,x1\n  br x9\n", TLS))
    # TLSGD (:tlsgd:) is not accepted by the available assembler (clang 14 only emits TLSDESC).
    return R


A64_REFS = _a64_refs()
A64_REF = {r.id: r for r in A64_REFS}
A64_ADDENDS = [0, 8]


def a64_cells():
    cells = []
    for d in A64_DEFS:
        for r in A64_REFS:
            for a in A64_ADDENDS:
                if any(applicable(d, r, o, a) for o in OUTS):
                    cells.append((d.name, r.id, a))
    return cells


def a64_probe_obj_src(cells):
    out = [a64_def_asm(d, "_A") for d in A64_DEFS if d.where == "local"]
    out.append(".weak undef_weak\n")
    for i, (dn, rid, a) in enumerate(cells):
        r = A64_REF[rid]
        fmt = dict(s=dn, sa=_sa(dn, a), i=i)
        if r.data:
            out.append(f'.section .data.p{i},"aw",%progbits\n.balign 8\nslot{i}:\n' + r.data.format(**fmt))
        out.append(f'.section .text.p{i},"ax",%progbits\n.balign 4\n.globl p{i}\n.hidden p{i}\n'
                   f".type p{i},%function\np{i}:\n" + r.body.format(**fmt))
    out.append(A64_NOTE)
    return "".join(out)


def a64_roots_src(selected):
    return ('.section .text._start,"ax",%progbits\n.globl _start\n.type _start,%function\n_start:\n' +
            "".join(f"  bl p{i}\n" for i in selected) + "  ret\n" + A64_NOTE)


A64_INTERP = "/lib/ld-linux-aarch64.so.1"


def a64_link_argv(out, output, sodir, roots=None, roots_obj="roots.o"):
    flags = {"static": ["-static"],
             "static-pie": ["-static", "-pie", "--no-dynamic-linker"],
             "pie": ["-pie", "--dynamic-linker=" + A64_INTERP],
             "nonpie-dyn": ["-no-pie", "--dynamic-linker=" + A64_INTERP],
             "shared": ["-shared", "-soname=libtest.so"]}[out]
    argv = [*flags, "--gc-sections", "-z", "noexecstack", "-o", output]
    if roots is not None:
        argv += ["-e", f"p{roots[0]}"]
        for i in roots[1:]:
            argv += ["-u", f"p{i}"]
    else:
        argv += ["-e", "_start", roots_obj]
    argv += ["probes.o", "defs.o", "libar.a"]
    if out in ("static", "static-pie"):
        argv += ["helper.o"]
    else:
        argv += [f"{sodir}/libdefs.so"]
        if out == "shared":
            argv += ["--allow-shlib-undefined"]
    return argv


A64_SO_ARGV = ["-shared", "-soname=libdefs.so", "--gc-sections", "-z", "noexecstack", "-o", "libdefs.so", "so.o"]
