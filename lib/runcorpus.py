"""Corpus of small RUNNABLE freestanding x86-64 programs shared by C27 (partial links) and C28
(optional transformations).

Every program has 4 translation units m, a, b, c (+ one helper unit h that is linked as a plain
object in the static kinds and as `libvqh.so`, built by GNU ld, in the dynamic kinds).  There is
no libc: TU m carries the whole start-up code (`_start`; for outputs without a program
interpreter it self-relocates a static-PIE image from `_DYNAMIC` the way glibc's
`_dl_relocate_static_pie` does, lays out static TLS variant II the way csu/libc-tls.c does,
applies `__rela_iplt_start..__rela_iplt_end`; always: walks `__init_array_start..end`, calls
`vq_main`, walks the fini array backwards, exits through a raw syscall).  Output is a transcript of
`TAG=value` lines written with write(2); every tag names the feature it reads through, so that the
first differing line of two transcripts names what broke.

The programs are built from feature blocks (cross-object calls and data, function-pointer tables,
COMDAT groups, mergeable strings and constants, TLS with local-exec and initial-exec access,
prioritised and plain init/fini arrays, weak / hidden / protected / weak-undefined symbols, common
symbols, IFUNC, a `__start_/__stop_` section, a page-aligned object, a 3 MiB .bss, the helper
library, C++ templates/inlines/vtables); programs differ in code flavour (-fno-pic / -fPIE /
-fPIC), optimisation and section flags and in which TU plays which role in a block.

By construction no observable of a program depends on the order of its input files or on anything
C leaves unspecified (identity of equal string literals, order of same-priority constructors in
different TUs, addresses); the checks verify that with GNU ld (all input orders, all kinds) before
trusting a program.
"""
import os
import subprocess

import vlib

INTERP = "/lib64/ld-linux-x86-64.so.2"
LIBC = "/lib/x86_64-linux-gnu/libc.so.6"
TUS = "mabc"

RT_H = r"""
typedef unsigned long u64; typedef long i64; typedef unsigned int u32; typedef unsigned char u8;
typedef unsigned short u16;
#define HID __attribute__((visibility("hidden")))
#define NOINL __attribute__((noinline))
#define USED __attribute__((used))
#ifdef __cplusplus
extern "C" {
#endif
API void vq_kv(const char *tag, u64 v);
API void vq_ks(const char *tag, const char *s);
API int vq_streq(const char *a, const char *b);
#ifdef __cplusplus
}
#endif
"""

RT_C = r"""
/* ---- start-up code: the only runtime of the program ---- */
typedef struct { u32 type, flags; u64 off, vaddr, paddr, filesz, memsz, align; } vq_phdr;
typedef struct { u64 off, info; i64 addend; } vq_rela;
static inline long vq_sc(long n, long a, long b, long c) {
  long r; __asm__ volatile("syscall" : "=a"(r) : "a"(n), "D"(a), "S"(b), "d"(c) : "rcx", "r11", "memory");
  return r; }
HID void *memcpy(void *d, const void *s, u64 n) { u8 *p = d; const u8 *q = s; while (n--) *p++ = *q++; return d; }
HID void *memset(void *d, int c, u64 n) { u8 *p = d; while (n--) *p++ = (u8)c; return d; }
HID NOINL void vq_exit(int c) { for (;;) vq_sc(231, c, 0, 0); }
static NOINL void vq_write(const char *s, u64 n) {
  while (n) { long w = vq_sc(1, 1, (long)s, n); if (w <= 0) vq_exit(97); s += w; n -= w; } }
static NOINL void vq_fail(const char *s) {
  u64 n = 0; while (s[n]) n++;
  vq_write("RT-FAIL ", 8); vq_write(s, n); vq_write("\n", 1); vq_exit(98); }
API NOINL void vq_ks(const char *tag, const char *s) {
  char b[200]; u64 n = 0;
  while (*tag && n < 60) b[n++] = *tag++;
  b[n++] = '=';
  while (*s && n < 198) b[n++] = *s++;
  b[n++] = '\n'; vq_write(b, n);
}
API NOINL void vq_kv(const char *tag, u64 v) {
  char h[17]; int i = 16; h[16] = 0;
  do { int d = v & 15; h[--i] = d < 10 ? '0' + d : 'a' + d - 10; v >>= 4; } while (v);
  vq_ks(tag, h + i);
}
API NOINL int vq_streq(const char *a, const char *b) { while (*a && *a == *b) a++, b++; return *a == *b; }

extern const u8 __ehdr_start[] HID;
extern void (*const __init_array_start[])(void) HID; extern void (*const __init_array_end[])(void) HID;
extern void (*const __fini_array_start[])(void) HID; extern void (*const __fini_array_end[])(void) HID;
extern const vq_rela __rela_iplt_start[] __attribute__((weak)) HID;
extern const vq_rela __rela_iplt_end[] __attribute__((weak)) HID;
HID int vq_main(void);
HID void vq_at_exit(void);

static void vq_self_relocate(u64 base, u64 *dyn, u64 tlsoff) {
  u64 rela = 0, relasz = 0, jmprel = 0, pltrelsz = 0, relr = 0, relrsz = 0, symtab = 0;
  for (; dyn[0]; dyn += 2) {
    if (dyn[0] == 7) rela = dyn[1]; else if (dyn[0] == 8) relasz = dyn[1];
    else if (dyn[0] == 23) jmprel = dyn[1]; else if (dyn[0] == 2) pltrelsz = dyn[1];
    else if (dyn[0] == 36) relr = dyn[1]; else if (dyn[0] == 35) relrsz = dyn[1];
    else if (dyn[0] == 6) symtab = dyn[1];
  }
  u64 *where = 0;                       /* DT_RELR first, as glibc does */
  for (u64 i = 0; i < relrsz / 8; i++) {
    u64 e = ((u64 *)(base + relr))[i];
    if (!(e & 1)) { where = (u64 *)(base + e); *where++ += base; }
    else { for (int b = 0; (e >>= 1) != 0; b++) if (e & 1) where[b] += base; where += 63; }
  }
  for (int pass = 0; pass < 2; pass++) for (int t = 0; t < 2; t++) {
    vq_rela *r = (vq_rela *)(base + (t ? jmprel : rela)); u64 cnt = (t ? pltrelsz : relasz) / 24;
    if (t && jmprel >= rela && jmprel < rela + relasz) continue;      /* JMPREL inside RELA: once */
    for (u64 i = 0; i < cnt; i++) {
      u32 ty = (u32)r[i].info; u64 si = r[i].info >> 32; u64 *p = (u64 *)(base + r[i].off);
      u64 sv = 0; int def = 0;
      if (si && symtab) { u64 *s = (u64 *)(base + symtab + 24 * si); def = ((s[0] >> 48) & 0xffff) != 0; sv = s[1]; }
      if ((ty == 37) != (pass == 1)) continue;                         /* IRELATIVE last */
      switch (ty) {
        case 0: break;
        case 8: *p = base + r[i].addend; break;
        case 37: *p = ((u64 (*)(void))(base + r[i].addend))(); break;
        case 1: *p = (def ? base + sv : 0) + r[i].addend; break;
        case 6: case 7: *p = def ? base + sv : 0; break;
        case 16: *p = 1; break;
        case 17: *p = sv + r[i].addend; break;
        case 18: *p = sv + r[i].addend - tlsoff; break;
        default: vq_fail("unsupported dynamic relocation in static-pie");
      }
    }
  }
}

HID USED void vq_rt_main(u64 *sp) {
  u8 tlsarea[3 * 4096];
  long argc = sp[0]; u64 *p = sp + 1 + argc + 1;
  while (*p) p++;
  p++;
  u64 at_phdr = 0, at_phnum = 0;
  for (; p[0]; p += 2) { if (p[0] == 3) at_phdr = p[1]; if (p[0] == 5) at_phnum = p[1]; }
  const u8 *eh = __ehdr_start;
  const vq_phdr *ph = (const vq_phdr *)(eh + *(const u64 *)(eh + 32));
  u64 phnum = *(const u16 *)(eh + 56);
  if ((u64)ph != at_phdr || phnum != at_phnum) vq_fail("__ehdr_start does not lead to AT_PHDR");
  u64 base = 0; int have = 0, interp = 0; const vq_phdr *tls = 0, *dyn = 0;
  for (u64 i = 0; i < phnum; i++) {
    if (ph[i].type == 1 && ph[i].off == 0 && !have) { base = (u64)eh - ph[i].vaddr; have = 1; }
    if (ph[i].type == 3) interp = 1;
    if (ph[i].type == 7) tls = &ph[i];
    if (ph[i].type == 2) dyn = &ph[i];
  }
  if (!have) vq_fail("no PT_LOAD covers the ELF header");
  if (!interp) {
    u64 tlsoff = 0;
    if (tls) { u64 al = tls->align ? tls->align : 1; tlsoff = (tls->memsz + al - 1) & ~(al - 1); }
    if (dyn) vq_self_relocate(base, (u64 *)(base + dyn->vaddr), tlsoff);
    /* static TLS, variant II, as csu/libc-tls.c lays it out */
    u64 tp = ((u64)tlsarea + sizeof tlsarea - 64) & ~4095UL;
    if (tls) {
      if (tlsoff > 4096 || tls->align > 4096) vq_fail("TLS segment too big for the start-up code");
      u8 *blk = (u8 *)(tp - tlsoff); const u8 *src = (const u8 *)(base + tls->vaddr);
      for (u64 k = 0; k < tls->memsz; k++) blk[k] = k < tls->filesz ? src[k] : 0;
    }
    *(u64 *)tp = tp;
    if (vq_sc(158, 0x1002, tp, 0) != 0) vq_fail("arch_prctl");
    for (const vq_rela *r = __rela_iplt_start; r < __rela_iplt_end; r++) {
      if ((u32)r->info != 37) vq_fail("non-IRELATIVE entry in __rela_iplt");
      *(u64 *)r->off = ((u64 (*)(void))r->addend)();
    }
  }
  for (void (*const *f)(void) = __init_array_start; f < __init_array_end; f++) (*f)();
  int rc = vq_main();
  for (void (*const *f)(void) = __fini_array_end; f > __fini_array_start; ) (*--f)();
  vq_at_exit();
  vq_exit(rc);
}
__asm__(".pushsection .text.vq_start,\"ax\",@progbits\n.globl _start\n.type _start,@function\n_start:\n"
        " xor %ebp,%ebp\n mov %rsp,%rdi\n and $-16,%rsp\n call vq_rt_main\n hlt\n.size _start,.-_start\n"
        ".popsection\n");
"""

HELPER_C = r"""
typedef unsigned long u64;
int vq_h_data = 77;
__thread int vq_h_tls = 9;
static int vq_h_ctor_ran;
__attribute__((constructor)) static void vq_h_ctor(void) { vq_h_ctor_ran = 5; }
extern int vq_cb(int);
int vq_h_add(int x) { return x + vq_h_data + vq_h_tls + vq_h_ctor_ran; }
int vq_h_callback(int x) { return vq_cb(x) + 1; }
void *vq_h_self(void) { return (void *)vq_h_add; }
int vq_h_read_data(void) { return vq_h_data; }
int *vq_h_tls_addr(void) { return &vq_h_tls; }
int vq_h_init_seen(void) { return vq_h_ctor_ran; }
"""


class Prog:
    def __init__(self, name, flavour, cflags, cxx=(), api_hidden=False):
        self.name, self.flavour, self.cflags, self.cxx = name, flavour, list(cflags), set(cxx)
        # Visibility of the symbols every TU shares with TU m (output helpers, init/fini counters).
        self.api = "#define API " + ('__attribute__((visibility("hidden")))' if api_hidden else "") + "\n"
        self.tu = {t: [] for t in TUS}
        self.main = []
        self.atexit = []
        self._seen = set()
        self.features = []

    def add(self, tu, code, key=None):
        assert tu not in self.cxx, "C block placed in a C++ TU"
        if key is not None:
            if (tu, key) in self._seen:
                return
            self._seen.add((tu, key))
        self.tu[tu].append(code)

    def call(self, stmt):
        self.main.append(stmt)

    def decl_m(self, code):
        self.add("m", code, key=code)

    def source(self, tu):
        body = "\n".join(self.tu[tu])
        if tu == "m":
            main = ("HID int vq_main(void) {\n  " + "\n  ".join(self.main) + "\n  return 42;\n}\n"
                    "HID void vq_at_exit(void) {\n  " + "\n  ".join(self.atexit) + "\n}\n")
            return self.api + RT_H + RT_C + body + "\n" + main
        return self.api + RT_H + body + "\n"


# ------------------------------------------------------------------------------------ feature blocks
# Every block takes the TUs that play its roles.  Roles may coincide where noted.

def blk_calls(P, d, u, w):
    """Cross-object calls, data, data-to-data pointers (symbol and symbol+addend)."""
    P.features.append("calls")
    P.add(d, """
int vq_g1 = 1000; long vq_arr[8] = {3, 1, 4, 1, 5, 9, 2, 6};
NOINL int vq_f1(int x) { return x + vq_g1; }
""")
    P.add(u, """
extern int vq_g1; extern long vq_arr[]; extern int vq_f1(int);
int *vq_gp1 = &vq_g1;
long *vq_ap1 = &vq_arr[5];
NOINL int vq_f2(int x) { return vq_f1(x) * 2 + (int)vq_arr[3] + *vq_gp1 + (int)*vq_ap1; }
void vq_rep_calls(void) {
  vq_kv("CALL.f1", vq_f1(5)); vq_kv("DATA.g1", vq_g1); vq_kv("DATA.arr6", vq_arr[6]);
  vq_kv("DATA.ptr_addend", *vq_ap1); vq_kv("DATA.ptr", *vq_gp1);
}
""")
    P.add(w, """
extern int vq_f2(int); extern int *vq_gp1;
NOINL int vq_f3(int x) { *vq_gp1 += 1; return vq_f2(x) + 7; }
""")
    P.decl_m("extern void vq_rep_calls(void); extern int vq_f3(int); extern int vq_g1;")
    P.call('vq_rep_calls(); vq_kv("CALL.f3", vq_f3(2)); vq_kv("DATA.g1_after", vq_g1);')


def blk_fptr(P, d, u):
    """Function pointers in read-only-after-relocation and writable tables; pointer equality."""
    P.features.append("fptr")
    P.add(d, """
static NOINL int vq_loc_d(int x) { return x ^ 0x55; }
NOINL int vq_fp_a(int x) { return x + 1; }
NOINL int vq_fp_b(int x) { return x * 2; }
extern int vq_fp_c(int);
int (*const vq_tab_ro[])(int) = {vq_fp_a, vq_fp_b, vq_fp_c, vq_loc_d};
int (*vq_tab_rw[])(int) = {vq_fp_c, vq_loc_d, 0};
void *vq_addr_fp_c_d(void) { return (void *)vq_fp_c; }
""")
    P.add(u, """
NOINL int vq_fp_c(int x) { return x - 3; }
extern int vq_fp_a(int);
extern int (*const vq_tab_ro[])(int); extern int (*vq_tab_rw[])(int); extern void *vq_addr_fp_c_d(void);
void vq_rep_fptr(void) {
  vq_kv("FPTR.ro0", vq_tab_ro[0](10)); vq_kv("FPTR.ro1", vq_tab_ro[1](10));
  vq_kv("FPTR.ro2", vq_tab_ro[2](10)); vq_kv("FPTR.ro3_local", vq_tab_ro[3](10));
  vq_kv("FPTR.rw0", vq_tab_rw[0](20)); vq_kv("FPTR.rw1_local", vq_tab_rw[1](20));
  vq_kv("FPTR.rw2_null", vq_tab_rw[2] == 0);
  vq_tab_rw[2] = vq_fp_a; vq_kv("FPTR.rw2_set", vq_tab_rw[2](20));
  vq_kv("FPEQ.c", vq_addr_fp_c_d() == (void *)vq_fp_c);
  vq_kv("FPEQ.tab", (void *)vq_tab_ro[2] == (void *)vq_tab_rw[0]);
}
""")
    P.decl_m("extern void vq_rep_fptr(void);")
    P.call("vq_rep_fptr();")


COMDAT_ASM = r"""
__asm__(".pushsection .text.vq_cmd_fn,\"axG\",@progbits,vq_cmd_fn,comdat\n"
        ".weak vq_cmd_fn\n.type vq_cmd_fn,@function\nvq_cmd_fn:\n"
        " mov vq_cmd_cnt(%rip),%eax\n add $1,%eax\n mov %eax,vq_cmd_cnt(%rip)\n"
        " add .Lvq_cmd_k(%rip),%eax\n add %edi,%eax\n ret\n.size vq_cmd_fn,.-vq_cmd_fn\n.popsection\n"
        ".pushsection .data.vq_cmd_cnt,\"awG\",@progbits,vq_cmd_fn,comdat\n.weak vq_cmd_cnt\n"
        ".type vq_cmd_cnt,@object\n.balign 4\nvq_cmd_cnt: .long 100\n.size vq_cmd_cnt,4\n.popsection\n"
        ".pushsection .rodata.vq_cmd_k,\"aG\",@progbits,vq_cmd_fn,comdat\n.balign 4\n"
        ".Lvq_cmd_k: .long 0x1000\n.popsection\n");
extern int vq_cmd_fn(int); extern int vq_cmd_cnt;
"""


def blk_comdat(P, tus):
    """The same COMDAT group (code + data + rodata members, relocations inside the group, against a
    weak global and against a member's section symbol) in several TUs: exactly one copy survives."""
    P.features.append("comdat")
    for t in tus:
        P.add(t, COMDAT_ASM, key="comdat")
        P.add(t, f"""
NOINL int vq_cmd_call_{t}(int x) {{ return vq_cmd_fn(x); }}
void *vq_cmd_addr_{t}(void) {{ return (void *)vq_cmd_fn; }}
int *vq_cmd_cntp_{t}(void) {{ return &vq_cmd_cnt; }}
""")
        P.decl_m(f"extern int vq_cmd_call_{t}(int); extern void *vq_cmd_addr_{t}(void); "
                 f"extern int *vq_cmd_cntp_{t}(void);")
    for t in tus:
        P.call(f'vq_kv("CMD.call_{t}", vq_cmd_call_{t}(3));')
    P.call(f'vq_kv("CMD.count", *vq_cmd_cntp_{tus[0]}());')
    for t in tus[1:]:
        P.call(f'vq_kv("CMD.fn_eq_{t}", vq_cmd_addr_{tus[0]}() == vq_cmd_addr_{t}());')
        P.call(f'vq_kv("CMD.cnt_eq_{t}", vq_cmd_cntp_{tus[0]}() == vq_cmd_cntp_{t}());')


COMDAT_STRONG_ASM = r"""
__asm__(".pushsection .text.vq_thunk,\"axG\",@progbits,vq_thunk,comdat\n"
        ".globl vq_thunk\n.type vq_thunk,@function\nvq_thunk:\n lea 0x77(%rdi),%eax\n ret\n"
        ".size vq_thunk,.-vq_thunk\n.popsection\n");
extern int vq_thunk(int);
"""


def blk_comdat_strong(P, tus):
    """A COMDAT group whose signature symbol is STB_GLOBAL (like the compiler's pc thunks) in several
    TUs: only group de-duplication keeps this from being a duplicate definition."""
    P.features.append("comdat-global")
    for t in tus:
        P.add(t, COMDAT_STRONG_ASM, key="comdat-strong")
        P.add(t, f"NOINL int vq_thunk_call_{t}(int x) {{ return vq_thunk(x); }}")
        P.decl_m(f"extern int vq_thunk_call_{t}(int);")
        P.call(f'vq_kv("CMDG.call_{t}", vq_thunk_call_{t}(1));')


def blk_strings(P, tus, asm_tu):
    """Identical / tail-sharing literals in several TUs (compared by content, printed), wide
    literals, FP constants, a hand-written mergeable section addressed with symbol+offset."""
    P.features.append("strings")
    for t in tus:
        P.add(t, f"""
const char *vq_str_{t}(int i) {{
  switch (i) {{ case 0: return "vq-shared-literal-one"; case 1: return "common tail";
    case 2: return "a longer common tail"; case 3: return "x"; default: return "only-in-{t}"; }}
}}
const int *vq_wstr_{t}(void) {{ return (const int *)L"wide-literal"; }}
NOINL double vq_dbl_{t}(double v) {{ return v * 3.25 + 1.5; }}
""")
        P.decl_m(f"extern const char *vq_str_{t}(int); extern const int *vq_wstr_{t}(void); "
                 f"extern double vq_dbl_{t}(double);")
    P.decl_m("""
static u64 vq_wsum(const int *w) { u64 s = 0; for (int i = 0; w[i]; i++) s = s * 3 + w[i]; return s; }
""")
    for t in tus:
        for i in range(5):
            P.call(f'vq_ks("STR.{t}{i}", vq_str_{t}({i}));')
        P.call(f'vq_kv("WSTR.{t}", vq_wsum(vq_wstr_{t}()));')
        P.call(f'vq_kv("CST.{t}", (u64)vq_dbl_{t}(100.0));')
    for t in tus[1:]:
        for i in range(4):
            P.call(f'vq_kv("STREQ.{t}{i}", vq_streq(vq_str_{tus[0]}({i}), vq_str_{t}({i})));')
    P.add(asm_tu, r"""
__asm__(".pushsection .rodata.str1.1,\"aMS\",@progbits,1\n"
        ".Lvq_ms0: .string \"zero\"\n.Lvq_ms1: .string \"alphabet\"\n.Lvq_ms2: .string \"bet\"\n.popsection\n"
        ".pushsection .text.vq_ms,\"ax\",@progbits\n"
        ".globl vq_ms_mid\n.type vq_ms_mid,@function\nvq_ms_mid: lea .Lvq_ms1+5(%rip),%rax\n ret\n"
        ".globl vq_ms_tail\n.type vq_ms_tail,@function\nvq_ms_tail: lea .Lvq_ms2(%rip),%rax\n ret\n"
        ".globl vq_ms_whole\n.type vq_ms_whole,@function\nvq_ms_whole: lea .Lvq_ms1(%rip),%rax\n ret\n"
        ".popsection\n"
        ".pushsection .data.vq_msp,\"aw\",@progbits\n.balign 8\n.globl vq_msp\n.type vq_msp,@object\n"
        "vq_msp: .quad .Lvq_ms1+2\n .quad .Lvq_ms0\n.size vq_msp,16\n.popsection\n");
""")
    P.decl_m("extern const char *vq_ms_mid(void), *vq_ms_tail(void), *vq_ms_whole(void); "
             "extern const char *vq_msp[2];")
    P.call('vq_ks("MSTR.sym_plus_off_code", vq_ms_mid()); vq_ks("MSTR.tail", vq_ms_tail()); '
           'vq_ks("MSTR.whole", vq_ms_whole());')
    P.call('vq_ks("MSTR.sym_plus_off_data", vq_msp[0]); vq_ks("MSTR.data", vq_msp[1]);')


def blk_tls(P, d1, d2, d3):
    """.tdata and .tbss variables in three TUs; local-exec access in the defining TU, initial-exec
    from the others; an over-aligned TLS array."""
    P.features.append("tls")
    le = '__attribute__((tls_model("local-exec")))'
    P.add(d1, f"""
__thread int vq_t1 = 0x11;
static __thread int vq_t1s {le} = 0x21;
NOINL int vq_t1_get(void) {{ return vq_t1 * 256 + vq_t1s; }}
NOINL void vq_t1_set(int v) {{ vq_t1 = v; vq_t1s = v + 1; }}
""")
    P.add(d2, f"""
extern __thread int vq_t1;
__thread long vq_t2;
static __thread long vq_t2s {le};
NOINL long vq_t2_bump(void) {{ vq_t2 += vq_t1; vq_t2s += 2; return vq_t2 * 16 + vq_t2s; }}
""")
    P.add(d3, f"""
__thread char vq_t3[40] __attribute__((aligned(64))) = "tls-string-data";
extern __thread long vq_t2; extern __thread int vq_t1;
const char *vq_t3_get(void) {{ return vq_t3; }}
u64 vq_t3_align(void) {{ return (u64)vq_t3 & 63; }}
NOINL long vq_t2_read(void) {{ return vq_t2 + vq_t1; }}
""")
    P.decl_m("extern int vq_t1_get(void); extern void vq_t1_set(int); extern long vq_t2_bump(void); "
             "extern const char *vq_t3_get(void); extern u64 vq_t3_align(void); "
             "extern long vq_t2_read(void); extern __thread int vq_t1; extern __thread long vq_t2;")
    P.call('vq_kv("TLS.le_init", vq_t1_get()); vq_kv("TLS.ie_bss_zero", vq_t2 == 0); '
           'vq_kv("TLS.ie_init", vq_t1);')
    P.call('vq_kv("TLS.bump1", vq_t2_bump()); vq_t1_set(0x33); vq_kv("TLS.le_set", vq_t1_get());')
    P.call('vq_kv("TLS.bump2", vq_t2_bump()); vq_kv("TLS.ie_read", vq_t2_read()); '
           'vq_ks("TLS.tdata_str", vq_t3_get()); vq_kv("TLS.align64", vq_t3_align());')


def blk_initfini(P, tus):
    """One prioritised and one plain constructor / destructor per TU.  Priorities are distinct, so
    their order is defined; plain ones only accumulate commutatively and check that every
    prioritised one ran before them."""
    P.features.append("initfini")
    P.decl_m("API int vq_init_seq, vq_init_sum, vq_init_bad, vq_fini_seq, vq_fini_sum, vq_fini_bad;")
    n = len(tus)
    full = 0
    for k in range(n):
        full = full * 16 + k + 1
    ffull = 0
    for k in reversed(range(n)):
        ffull = ffull * 16 + k + 1
    for k, t in enumerate(tus):
        P.add(t, f"""
extern API int vq_init_seq, vq_init_sum, vq_init_bad, vq_fini_seq, vq_fini_sum, vq_fini_bad;
__attribute__((constructor({101 + k}))) static void vq_ctor_p_{t}(void) {{ vq_init_seq = vq_init_seq * 16 + {k + 1}; }}
__attribute__((constructor)) static void vq_ctor_{t}(void) {{ vq_init_sum += {1 << (4 * k)}; if (vq_init_seq != {full}) vq_init_bad++; }}
__attribute__((destructor({101 + k}))) static void vq_dtor_p_{t}(void) {{ vq_fini_seq = vq_fini_seq * 16 + {k + 1}; if (vq_fini_sum != {int("1" * n, 16)}) vq_fini_bad++; }}
__attribute__((destructor)) static void vq_dtor_{t}(void) {{ vq_fini_sum += {1 << (4 * k)}; if (vq_fini_seq != 0) vq_fini_bad++; }}
""")
    P.call('vq_kv("INIT.prio_order", vq_init_seq); vq_kv("INIT.plain_sum", vq_init_sum); '
           'vq_kv("INIT.plain_before_prio", vq_init_bad);')
    P.atexit.append('vq_kv("FINI.prio_order", vq_fini_seq); vq_kv("FINI.plain_sum", vq_fini_sum); '
                    'vq_kv("FINI.misordered", vq_fini_bad);')


def blk_weakhid(P, d, u, w):
    """Weak definition overridden by a strong one; weak definition alone; hidden and protected
    symbols across TUs; weak undefined data and function compared with NULL."""
    P.features.append("weakhid")
    P.add(d, """
__attribute__((weak)) NOINL int vq_wk_over(void) { return 1; }
__attribute__((weak)) NOINL int vq_wk_only(void) { return 3; }
__attribute__((weak)) int vq_wk_var = 5;
HID int vq_hid_var = 9;
HID NOINL int vq_hid_fn(int x) { return x + vq_hid_var; }
__attribute__((visibility("protected"))) NOINL int vq_prot_fn(int x) { return x * 5; }
NOINL int vq_wk_calls_d(void) { return vq_wk_over() * 100 + vq_wk_only() * 10 + vq_wk_var; }
""")
    P.add(u, """
NOINL int vq_wk_over(void) { return 2; }
int vq_wk_var = 6;
extern HID int vq_hid_var; extern HID int vq_hid_fn(int); extern int vq_prot_fn(int);
NOINL int vq_use_hid(void) { vq_hid_var += 1; return vq_hid_fn(vq_hid_var) + vq_prot_fn(2); }
""")
    P.add(w, """
extern int vq_undef_var __attribute__((weak)); extern int vq_undef_fn(int) __attribute__((weak));
extern HID int vq_undef_hid __attribute__((weak));
extern int vq_wk_over(void), vq_wk_only(void); extern int vq_wk_var;
extern HID int vq_hid_fn(int);
NOINL int vq_hid_third(void) { return vq_hid_fn(0x40); }
NOINL int vq_wku(void) { return (&vq_undef_var ? 1 : 0) | (vq_undef_fn ? 2 : 0) | (&vq_undef_hid ? 4 : 0); }
int *const vq_wku_tab[2] = {&vq_undef_var, &vq_wk_var};
NOINL int vq_wk_calls_w(void) { return vq_wk_over() * 100 + vq_wk_only() * 10 + vq_wk_var; }
""")
    P.decl_m("extern int vq_wk_calls_d(void), vq_wk_calls_w(void), vq_use_hid(void), vq_wku(void), vq_hid_third(void); "
             "extern int *const vq_wku_tab[2];")
    P.call('vq_kv("WEAK.from_definer", vq_wk_calls_d()); vq_kv("WEAK.from_other", vq_wk_calls_w());')
    P.call('vq_kv("HID.use", vq_use_hid()); vq_kv("HID.third_tu", vq_hid_third()); vq_kv("WKU.code_null", vq_wku()); '
           'vq_kv("WKU.data_null", vq_wku_tab[0] == 0); vq_kv("WKU.data_def", *vq_wku_tab[1]);')


def blk_common(P, x, y, z):
    """Common symbols (SHN_COMMON, via the `common` attribute) of different sizes and alignments in several TUs."""
    P.features.append("common")
    P.add(x, """
#define CMN __attribute__((common))
int vq_cm1 CMN; char vq_cm2[16] CMN;
NOINL void vq_cm_set_x(void) { vq_cm1 += 7; vq_cm2[3] = 'x'; }
""")
    P.add(y, """
#define CMN __attribute__((common))
int vq_cm1 CMN; char vq_cm2[200] CMN; double vq_cm3[4] __attribute__((aligned(32), common));
NOINL void vq_cm_set_y(void) { vq_cm1 += 0x70; vq_cm2[150] = 'y'; vq_cm3[3] = 2.0; }
""")
    P.add(z, """
extern int vq_cm1; extern char vq_cm2[]; extern double vq_cm3[4];
void vq_rep_common(void) {
  vq_kv("CMN.one_copy", vq_cm1); vq_kv("CMN.small_def", vq_cm2[3]); vq_kv("CMN.big_def", vq_cm2[150]);
  vq_kv("CMN.zero", vq_cm2[100] == 0 && vq_cm3[0] == 0.0); vq_kv("CMN.align32", (u64)vq_cm3 & 31);
  vq_kv("CMN.dbl", (u64)vq_cm3[3]);
}
""")
    P.decl_m("extern void vq_cm_set_x(void), vq_cm_set_y(void), vq_rep_common(void);")
    P.call("vq_cm_set_x(); vq_cm_set_y(); vq_rep_common();")


def blk_ifunc(P, d, u):
    """GNU indirect function: called through the PLT, address taken in code in two TUs and stored in
    a data word."""
    P.features.append("ifunc")
    P.add(d, """
static NOINL int vq_if_impl_a(int x) { return x + 0x1000; }
static NOINL int vq_if_impl_b(int x) { return x + 0x2000; }
HID int vq_if_sel = 1;
static void *vq_if_resolver(void) { return vq_if_sel ? (void *)vq_if_impl_b : (void *)vq_if_impl_a; }
int vq_ifn(int) __attribute__((ifunc("vq_if_resolver")));
NOINL int vq_if_call_d(int x) { return vq_ifn(x); }
""")
    # Taking the address in the defining TU as well: -fPIE code does that with a PC-relative
    # reference there and through the GOT elsewhere, and GNU ld 2.40 itself then yields two
    # different addresses in PIE outputs, so the pie flavour does not do it.
    both = P.flavour != "pie"
    if both:
        P.add(d, "void *vq_if_addr_d(void) { return (void *)vq_ifn; }")
    P.add(u, """
extern int vq_ifn(int);
int (*vq_if_ptr)(int) = vq_ifn;
NOINL int vq_if_call_u(int x) { return vq_ifn(x) + vq_if_ptr(x); }
void *vq_if_addr_u(void) { return (void *)vq_ifn; }
""")
    P.decl_m("extern int vq_if_call_d(int), vq_if_call_u(int); extern void *vq_if_addr_d(void), "
             "*vq_if_addr_u(void); extern int (*vq_if_ptr)(int);")
    P.call('vq_kv("IFN.call_definer", vq_if_call_d(1)); vq_kv("IFN.call_other", vq_if_call_u(2));')
    if both:
        P.call('vq_kv("IFN.addr_eq", vq_if_addr_d() == vq_if_addr_u());')
    P.call('vq_kv("IFN.data_eq", (void *)vq_if_ptr == vq_if_addr_u());')


def blk_recs(P, tus):
    """Records with pointers placed in a C-identifier-named section by every TU, iterated through
    __start_/__stop_ with order-independent aggregates."""
    P.features.append("startstop")
    for k, t in enumerate(tus):
        P.add(t, f"""
struct vq_rec {{ u32 id, val; const char *name; }};
static const struct vq_rec vq_rec_{t}1 __attribute__((section("vq_recs"), used, aligned(8))) = {{{k + 1}, {k * 7 + 1}, "rec-{t}-first"}};
static const struct vq_rec vq_rec_{t}2 __attribute__((section("vq_recs"), used, aligned(8))) = {{{k + 11}, {k * 5 + 2}, "rec-{t}-second"}};
""", key="recs")
    P.add("m", """
struct vq_rec { u32 id, val; const char *name; };
""", key="recs")
    P.decl_m("extern const struct vq_rec __start_vq_recs[] HID, __stop_vq_recs[] HID;")
    P.call("""{ u64 n = 0, sum = 0, x = 0, names = 0;
    for (const struct vq_rec *r = __start_vq_recs; r < __stop_vq_recs; r++) {
      n++; sum += r->id * 1000 + r->val; x ^= (u64)r->id * r->val; names += (u8)r->name[4] + (u8)r->name[6]; }
    vq_kv("REC.count", n); vq_kv("REC.sum", sum); vq_kv("REC.xor", x); vq_kv("REC.names", names); }""")


def blk_bigalign(P, x, y):
    """A page-aligned initialised object and a 3 MiB zero-initialised one."""
    P.features.append("bigalign")
    P.add(x, """
char vq_page[4096] __attribute__((aligned(4096))) = "page-start";
""")
    P.add(y, """
char vq_big[3 << 20];
extern char vq_page[];
void vq_rep_big(void) {
  u64 nz = 0, sum = 0;
  for (u64 i = 0; i < sizeof vq_big; i += 40961) nz += vq_big[i] != 0;
  for (u64 i = 0; i < sizeof vq_big; i += 65537) vq_big[i] = (char)(i >> 16);
  for (u64 i = 0; i < sizeof vq_big; i += 65537) sum += (u8)vq_big[i];
  vq_kv("BIG.nonzero", nz); vq_kv("BIG.sum", sum); vq_kv("BIG.last", vq_big[sizeof vq_big - 1] == 0);
  vq_kv("PAGE.align4096", (u64)vq_page & 4095); vq_ks("PAGE.str", vq_page); vq_kv("PAGE.tail", vq_page[4095] == 0);
}
""")
    P.decl_m("extern void vq_rep_big(void);")
    P.call("vq_rep_big();")


def blk_helper(P, u, w):
    """The helper unit (plain object in static kinds, shared library in dynamic kinds): data read
    directly and written, function called and address compared, TLS read with initial-exec, a
    callback into the program."""
    P.features.append("helper")
    P.add(u, """
extern int vq_h_data; extern __thread int vq_h_tls __attribute__((tls_model("initial-exec")));
extern int vq_h_add(int), vq_h_callback(int), vq_h_read_data(void), vq_h_init_seen(void);
extern void *vq_h_self(void); extern int *vq_h_tls_addr(void);
void vq_rep_helper(void) {
  vq_kv("HLP.data", vq_h_data); vq_kv("HLP.tls", vq_h_tls); vq_kv("HLP.init_ran", vq_h_init_seen());
  vq_kv("HLP.call", vq_h_add(2)); vq_kv("HLP.callback", vq_h_callback(3));
  vq_kv("HLP.fn_addr_eq", vq_h_self() == (void *)vq_h_add);
  vq_h_data = 5; vq_kv("HLP.data_coherent", vq_h_read_data());
  vq_h_tls = 4; vq_kv("HLP.tls_coherent", *vq_h_tls_addr()); vq_kv("HLP.tls_addr_eq", vq_h_tls_addr() == &vq_h_tls);
}
""")
    P.add(w, """
int vq_cb(int x) { return x * 0x100; }
""")
    P.decl_m("extern void vq_rep_helper(void);")
    P.call("vq_rep_helper();")


CXX_HDR = r"""
template <int N> struct VqAcc { static int total; static int add(int x) { total += x * N; return total; } };
template <int N> int VqAcc<N>::total = N;
inline int vq_inl(int x) { static int calls = 0; return ++calls * 0x100 + x; }
struct VqShape { virtual int area() const { return 1; } virtual int twice() const { return 2 * area(); } };
struct VqSq : VqShape { int s; VqSq(int s_) : s(s_) {} int area() const override { return s * s; } };
template <typename T> NOINL T vq_max(T a, T b) { return a < b ? b : a; }
"""


def blk_cxx(P, tus):
    """C++ TUs: template statics, inline function with a static local, vtables of classes without a
    key function and a function template, all emitted as COMDAT groups by every TU that uses them."""
    P.features.append("cxx-comdat")
    for t in tus:
        assert t in P.cxx
        P.tu[t].append(CXX_HDR + f"""
static NOINL int vq_dyn_{t}(const VqShape &r) {{ return r.twice(); }}
extern "C" int vq_cxx_{t}(int x) {{ VqSq q(x); return VqAcc<3>::add(x) + vq_inl(x) + vq_dyn_{t}(q) + vq_max<int>(x, 4); }}
extern "C" int vq_cxx_total_{t}(void) {{ return VqAcc<3>::total; }}
extern "C" void *vq_cxx_inl_addr_{t}(void) {{ return (void *)&vq_inl; }}
""")
        P.decl_m(f"extern int vq_cxx_{t}(int), vq_cxx_total_{t}(void); extern void *vq_cxx_inl_addr_{t}(void);")
    for t in tus:
        P.call(f'vq_kv("CXX.call_{t}", vq_cxx_{t}(5));')
    for t in tus:
        P.call(f'vq_kv("CXX.tmpl_static_{t}", vq_cxx_total_{t}());')
    P.call(f'vq_kv("CXX.inline_addr_eq", vq_cxx_inl_addr_{tus[0]}() == vq_cxx_inl_addr_{tus[-1]}());')


# ------------------------------------------------------------------------------------ the programs
FLAVOUR_FLAGS = {"nopic": ["-fno-pic", "-fno-pie"], "pie": ["-fPIE"],
                 "pic": ["-fPIC", "-ftls-model=initial-exec"]}
BASE_FLAGS = ["-nostdlib", "-ffreestanding", "-fno-stack-protector", "-fno-common", "-fno-builtin",
              "-fcf-protection=none", "-w"]
CXX_FLAGS = ["-fno-exceptions", "-fno-rtti", "-fno-threadsafe-statics", "-fno-use-cxa-atexit",
             "-std=gnu++17"]
KINDS = ["static", "static-pie", "pie-dyn", "nonpie-dyn"]
KINDS_OF_FLAVOUR = {"nopic": ["static", "nonpie-dyn"], "pie": KINDS, "pic": KINDS}


ALL_BLOCKS = ["calls", "fptr", "comdat", "comdat-global", "strings", "tls", "initfini", "weakhid",
              "common", "ifunc", "startstop", "bigalign", "helper"]


def _blocks(P, r, omit=()):
    """The C blocks, minus `omit`, with the role rotation r (a permutation of 'mabc')."""
    m, a, b, c = r
    want = lambda n: n not in omit
    if want("calls"):
        blk_calls(P, a, b, c)
    if want("fptr"):
        blk_fptr(P, b, c)
    if want("comdat"):
        blk_comdat(P, [a, c, m])
    if want("comdat-global"):
        blk_comdat_strong(P, [b, c])
    if want("strings"):
        blk_strings(P, [a, b, c], m)
    if want("tls"):
        blk_tls(P, c, a, b)
    if want("initfini"):
        blk_initfini(P, list(r))
    if want("weakhid"):
        blk_weakhid(P, b, a, m)
    if want("common"):
        blk_common(P, c, b, a)
    if want("ifunc"):
        blk_ifunc(P, a, m)
    if want("startstop"):
        blk_recs(P, list(r))
    if want("bigalign"):
        blk_bigalign(P, b, m)
    if want("helper"):
        blk_helper(P, c, a)


def programs():
    """The 10 programs (deterministic).  Not every program has every block, so that a defect in one
    feature does not hide the others everywhere."""
    out = []

    def full(name, flavour, cflags, rot, omit=(), api_hidden=False):
        P = Prog(name, flavour, cflags, api_hidden=api_hidden)
        _blocks(P, rot, omit)
        out.append(P)
        return P

    full("p0_nopic_O2", "nopic", ["-O2"], "mabc", omit=["comdat-global"], api_hidden=True)
    full("p1_pie_O2", "pie", ["-O2"], "mabc", omit=["common", "comdat-global"])
    full("p2_pic_O1_noplt", "pic", ["-O1", "-fno-plt"], "mbca")
    full("p3_pie_Os_sections", "pie", ["-Os", "-ffunction-sections", "-fdata-sections"], "mcab",
         omit=["weakhid", "common", "comdat", "comdat-global"])
    # C++ program: b and c are C++ TUs, C blocks live in m and a.
    P = Prog("p4_pie_cxx", "pie", ["-O2"], cxx="bc")
    blk_cxx(P, ["b", "c"])
    blk_calls(P, "a", "m", "a")
    blk_fptr(P, "m", "a")
    blk_strings(P, ["a", "m"], "a")
    blk_tls(P, "a", "m", "a")
    blk_initfini(P, ["m", "a"])
    blk_recs(P, ["m", "a"])
    blk_helper(P, "a", "m")
    out.append(P)
    full("p5_nopic_O1_sections", "nopic", ["-O1", "-ffunction-sections", "-fdata-sections"], "mcba",
         omit=["comdat", "comdat-global"], api_hidden=True)
    full("p6_pic_O2", "pic", ["-O2", "-fno-semantic-interposition"], "macb",
         omit=["common", "ifunc", "comdat"])
    full("p7_pie_O2_noplt", "pie", ["-O2", "-fno-plt", "-fdata-sections"], "mbac",
         omit=["common", "comdat", "comdat-global", "weakhid"], api_hidden=True)
    full("p8_nopic_Os", "nopic", ["-Os", "-fno-plt"], "mcab", omit=["comdat-global"])
    full("p9_pic_Os_sections", "pic", ["-Os", "-ffunction-sections", "-fdata-sections"], "mabc",
         omit=["common"], api_hidden=True)
    assert len(out) == 10 and len({p.name for p in out}) == 10
    return out


def program(name):
    for p in programs():
        if p.name == name:
            return p
    raise KeyError(name)


def compile_program(P):
    """-> {'m': path, 'a': ..., 'b': ..., 'c': ..., 'h': helper object} (cached by content)."""
    objs = {}
    for t in TUS:
        cxx = t in P.cxx
        extra = BASE_FLAGS + FLAVOUR_FLAGS[P.flavour] + P.cflags + (CXX_FLAGS if cxx else [])
        objs[t] = vlib.assemble(P.source(t), ext=".cc" if cxx else ".c", extra=extra)
    objs["h"] = vlib.assemble(HELPER_C, ext=".c", extra=BASE_FLAGS + ["-O2", "-fPIC",
                                                                        "-ftls-model=initial-exec"])
    return objs


def materialise(P, d):
    """Compile P, copy its objects to directory d under stable names, build libvqh.so there with GNU
    ld.  -> {'m': 'm.o', ..., 'h': 'h.o', 'so': 'libvqh.so'} (names relative to d)."""
    import shutil
    os.makedirs(d, exist_ok=True)
    objs = compile_program(P)
    names = {}
    for t, p in objs.items():
        names[t] = t + ".o"
        dst = os.path.join(d, names[t])
        if not os.path.exists(dst):
            shutil.copyfile(p, dst)
    so = os.path.join(d, "libvqh.so")
    if not os.path.exists(so):
        r = subprocess.run(["ld", "-shared", "-soname=libvqh.so", "-z", "noexecstack", "h.o", "-o",
                            "libvqh.so"], cwd=d, capture_output=True)
        if r.returncode != 0:
            raise RuntimeError("helper library: " + r.stderr.decode())
    names["so"] = "libvqh.so"
    return names


KIND_FLAGS = {"static": ["-static"],
              "static-pie": ["-static", "-pie", "--no-dynamic-linker"],
              "pie-dyn": ["-pie", "--dynamic-linker=" + INTERP],
              "nonpie-dyn": ["-no-pie", "--dynamic-linker=" + INTERP]}


def link_argv(kind, inputs, out, opts=()):
    """Link line shared by wild and GNU ld.  `inputs`: the program's own objects / relocatables in
    order; the helper (object or library + uncalled libc, which ld.so needs for its malloc) is
    appended."""
    argv = [*KIND_FLAGS[kind], "-z", "noexecstack", *opts, "-o", out, *inputs]
    if kind in ("static", "static-pie"):
        argv += ["h.o"]
    else:
        argv += ["libvqh.so", "--no-as-needed", LIBC]
    return argv


def run_native(path, libdir, timeout=20):
    """-> (status, transcript text).  status: exit status, negative signal number or 'timeout'."""
    rc, so, se = vlib.run([path], env={"LD_LIBRARY_PATH": libdir}, timeout=timeout, cwd=libdir)
    if rc == "timeout":
        # The programs run for well under a millisecond; on this shared machine a process can still
        # starve.  Only a program that also exceeds a much longer limit is reported as hanging.
        rc, so, se = vlib.run([path], env={"LD_LIBRARY_PATH": libdir}, timeout=timeout * 10, cwd=libdir)
    text = so.decode("utf-8", "replace")
    if se:
        text += "STDERR=" + se.decode("utf-8", "replace")[:300].replace("\n", " | ") + "\n"
    return rc, text


def tag_of(line):
    return line.split("=", 1)[0] if "=" in line else line[:30]


def first_diff(ref, got):
    """ref, got: (status, transcript).  -> None when identical, else (tag, description).  The tag is
    that of the first reference line that is missing or different in `got`; 'exit-status' when only
    the status differs; 'extra-output' when `got` continues after the reference ends; 'no-output' when
    the program printed nothing (died in the loader or in its start-up code)."""
    (rs, rt), (gs, gt) = ref, got
    rl, gl = rt.splitlines(), gt.splitlines()
    if rl and not [l for l in gl if not l.startswith("STDERR=")]:
        return "no-output", f"no transcript at all (status {gs}, expected {rs}) {gt[:300]}"
    for i, line in enumerate(rl):
        if i >= len(gl):
            return tag_of(line), f"output ends before '{line}' (status {gs}, expected {rs})"
        if gl[i] != line:
            return tag_of(line), f"expected '{line}' got '{gl[i][:120]}' (status {gs})"
    if len(gl) > len(rl):
        return "extra-output", f"unexpected extra line '{gl[len(rl)][:120]}' (status {gs})"
    if rs != gs:
        return "exit-status", f"status {gs}, expected {rs}"
    return None


def set_partitions(items):
    """All set partitions of `items` (blocks and members in first-occurrence order)."""
    items = list(items)
    if not items:
        yield []
        return
    first, rest = items[0], items[1:]
    for part in set_partitions(rest):
        yield [[first]] + part
        for i in range(len(part)):
            yield part[:i] + [[first] + part[i]] + part[i + 1:]


def partitions4():
    """The 15 partitions of m,a,b,c; blocks ordered by first member, members in m,a,b,c order."""
    out = []
    for part in set_partitions(TUS):
        blocks = sorted(("".join(sorted(b, key=TUS.index)) for b in part), key=lambda b: TUS.index(b[0]))
        out.append(tuple(blocks))
    out = sorted(set(out), key=lambda p: (len(p) * -1, p))
    assert len(out) == 15
    return out


def partition_name(part):
    return "|".join(part)
