"""Helpers shared by the symbol-resolution / archive-loading program families (C02, C03):
a deterministic `ar` writer (regular and thin, byte-identical to `ar rcD` / `ar rcTD` of binutils
2.40 -- `selftest_ar` proves that on a sample), elfgen builders for provider / reference objects
that carry many independent names at once, and the observation function that says which
definition a reference slot of a linked output denotes."""
import os
import struct
import subprocess

import elfread
from elfgen import (ElfObject, SHF_ALLOC, SHF_WRITE, SHF_EXECINSTR,
                    STB_GLOBAL, STB_WEAK, STB_GNU_UNIQUE, STT_OBJECT, STT_FUNC, STV_DEFAULT,
                    STV_HIDDEN, STV_PROTECTED)

R_X86_64_64, R_X86_64_COPY, R_X86_64_GLOB_DAT, R_X86_64_RELATIVE = 1, 5, 6, 8


# ------------------------------------------------------------------------------- robust wild link
EXTERNAL_KILLS = [0]


def server_link(argv, cwd, tries=3):
    """wildrun.server_link, repeated when the server process was killed from outside (exit by
    SIGTERM / SIGKILL: wild never sends itself those; on this shared machine other jobs' fault
    injectors occasionally hit a recycled pid). Crashes of wild itself (SIGSEGV, SIGABRT, panic)
    are returned as they are. EXTERNAL_KILLS[0] counts the repeats in this process."""
    import wildrun
    for _ in range(tries):
        rc, msg = wildrun.server_link(argv, cwd=cwd)
        if rc not in (-15, -9):
            break
        EXTERNAL_KILLS[0] += 1
    return rc, msg


def run_tool(cmd, cwd, tries=3):
    """subprocess.run of a reference tool (ld, ld.lld, ar); repeated when the tool was killed by a
    signal (see server_link). -> (returncode, stderr text)."""
    for _ in range(tries):
        p = subprocess.run(cmd, cwd=cwd, stdin=subprocess.DEVNULL, stdout=subprocess.PIPE,
                           stderr=subprocess.PIPE)
        if p.returncode >= 0:
            break
        EXTERNAL_KILLS[0] += 1
    return p.returncode, p.stderr.decode("utf-8", "replace")


# ------------------------------------------------------------------------------------ ar writer
def _hdr(name, size, mode="644", date="0", uid="0", gid="0"):
    return (name.ljust(16) + date.ljust(12) + uid.ljust(6) + gid.ljust(6) + mode.ljust(8)
            + str(size).ljust(10)).encode() + b"`\n"


def armap_symbols(obj_bytes):
    """Names `ar` puts into the archive index for one ELF member: every non-local symbol that is
    not undefined (weak, common and unique included), in symbol-table order."""
    e = elfread.Elf(data=obj_bytes)
    return [s.name for s in e.symbols(".symtab")
            if s.index and s.bind != elfread.STB_LOCAL and s.shndx != elfread.SHN_UNDEF and s.name]


def ar_bytes(members, thin=False):
    """members: [(name, bytes)] or [(name, bytes, index symbol names)]. Layout of GNU ar in
    deterministic mode (`ar rcD` / `ar rcTD`): index member '/', long-name table '//' when needed
    (always for thin), then the members."""
    syms = []
    for i, m in enumerate(members):
        syms += [(s, i) for s in (m[2] if len(m) > 2 else armap_symbols(m[1]))]
    members = [(m[0], m[1]) for m in members]
    long_tab, short = b"", {}
    for i, (n, _d) in enumerate(members):
        if thin or len(n) > 15:
            short[i] = "/%d" % len(long_tab)
            long_tab += n.encode() + b"/\n"
        else:
            short[i] = n + "/"
    if len(long_tab) % 2:
        long_tab += b"\n"
    names_blob = b"".join(s.encode() + b"\0" for s, _ in syms)
    idx_size = 4 + 4 * len(syms) + len(names_blob)
    idx_pad = idx_size % 2
    pos = 8
    if syms:
        pos += 60 + idx_size + idx_pad
    if long_tab:
        pos += 60 + len(long_tab)
    offs = []
    for i, (_n, data) in enumerate(members):
        offs.append(pos)
        pos += 60 + (0 if thin else len(data) + len(data) % 2)
    out = bytearray(b"!<thin>\n" if thin else b"!<arch>\n")
    if syms:
        out += _hdr("/", idx_size + idx_pad, mode="0")
        out += struct.pack(">I", len(syms)) + b"".join(struct.pack(">I", offs[i]) for _, i in syms)
        out += names_blob + b"\0" * idx_pad
    if long_tab:
        out += ("//".ljust(48) + str(len(long_tab)).ljust(10)).encode() + b"`\n" + long_tab
    for i, (_n, data) in enumerate(members):
        out += _hdr(short[i], len(data))
        if not thin:
            out += data + (b"\n" if len(data) % 2 else b"")
    return bytes(out)


def write_archive(path, members, thin=False):
    """members: [(name, bytes)]; for a thin archive the member files must exist next to `path`
    under the same names."""
    with open(path, "wb") as f:
        f.write(ar_bytes(members, thin))


def selftest_ar(workdir):
    """Compares the writer with the real `ar` on a sample (4 subprocesses). Returns '' or an error."""
    os.makedirs(workdir, exist_ok=True)
    o1 = ElfObject()
    d = o1.section(".data", flags=SHF_ALLOC | SHF_WRITE, align=8, data=bytes(17))
    o1.symbol("alpha", section=d, type=STT_OBJECT, size=8)
    o1.symbol("beta", section=d, value=8, bind=STB_WEAK, type=STT_OBJECT, size=8)
    o1.symbol("gamma", section="common", value=4, size=4, type=STT_OBJECT)
    o1.symbol("undef_thing")
    o2 = ElfObject()
    t = o2.section(".text", flags=SHF_ALLOC | SHF_EXECINSTR, align=1, data=b"\xc3")
    o2.symbol("delta", section=t, type=STT_FUNC, size=1)
    mem = [("m1.o", o1.to_bytes()), ("a_rather_long_member_name.o", o2.to_bytes())]
    for n, b in mem:
        with open(os.path.join(workdir, n), "wb") as f:
            f.write(b)
    for thin, flag in ((False, "rcD"), (True, "rcTD")):
        real = os.path.join(workdir, "real_%s.a" % flag)
        if os.path.exists(real):
            os.unlink(real)
        rc, err = run_tool(["ar", flag, real, *[n for n, _ in mem]], workdir)
        if rc:
            return "ar %s failed: %s" % (flag, err)
        with open(real, "rb") as f:
            want = f.read()
        got = ar_bytes(mem, thin)
        if got != want:
            return "ar writer differs from `ar %s` (%d vs %d bytes)" % (flag, len(got), len(want))
    return ""


# ------------------------------------------------------------------------------- object builders
def provider_object(defs):
    """defs: [(name, kind, marker)] with kind in S W U H P (initialised 8-byte object in .data),
    G (the same in a COMDAT group whose signature is the symbol itself), C4 / C16 (common).
    Returns object bytes."""
    o = ElfObject(osabi=3 if any(k == "U" for _, k, _ in defs) else 0)
    plain = [(n, k, m) for n, k, m in defs if k in ("S", "W", "U", "H", "P")]
    if plain:
        sec = o.section(".data", flags=SHF_ALLOC | SHF_WRITE, align=8,
                        data=b"".join(struct.pack("<Q", m) for _, _, m in plain))
        for i, (n, k, _m) in enumerate(plain):
            bind = {"W": STB_WEAK, "U": STB_GNU_UNIQUE}.get(k, STB_GLOBAL)
            vis = {"H": STV_HIDDEN, "P": STV_PROTECTED}.get(k, STV_DEFAULT)
            o.symbol(n, section=sec, value=8 * i, size=8, bind=bind, type=STT_OBJECT, vis=vis)
    for n, k, m in defs:
        if k == "G":
            sec = o.section(".data." + n, flags=SHF_ALLOC | SHF_WRITE, align=8,
                            data=struct.pack("<Q", m))
            sym = o.symbol(n, section=sec, size=8, type=STT_OBJECT)
            o.group(sym, [sec])
        elif k in ("C4", "C16"):
            size = int(k[1:])
            o.symbol(n, section="common", value=size, size=size, type=STT_OBJECT)
    o.note_gnu_stack()
    return o.to_bytes()


def reference_object(refs, entry=True):
    """refs: [(name, refkind)] refkind in strong / weak / hidden. One 8-byte slot `slot_<name>` per
    name in .data carrying R_X86_64_64 against the (undefined) name; defines _start."""
    o = ElfObject()
    if entry:
        t = o.section(".text", flags=SHF_ALLOC | SHF_EXECINSTR, align=16, data=b"\xc3")
        o.symbol("_start", section=t, type=STT_FUNC, size=1)
    sec = o.section(".data", flags=SHF_ALLOC | SHF_WRITE, align=8, data=bytes(8 * max(1, len(refs))))
    for i, (n, rk) in enumerate(refs):
        o.symbol("slot_" + n, section=sec, value=8 * i, size=8, type=STT_OBJECT)
        u = o.symbol(n, bind=STB_WEAK if rk == "weak" else STB_GLOBAL,
                     vis=STV_HIDDEN if rk == "hidden" else STV_DEFAULT)
        o.reloc(sec, 8 * i, R_X86_64_64, u, 0)
    o.note_gnu_stack()
    return o.to_bytes()


# ----------------------------------------------------------------------------------- observation
def observe_slots(path, names):
    """For each name: what `slot_<name>` of the linked output denotes.
      ("m", marker)        the slot points (statically, via RELATIVE/RELR, or via a symbolic dynamic
                           relocation against a *defined* dynamic symbol) at initialised data
      ("c", size)          it points at zero-initialised data; size = st_size of the symbol `name`
                           found at that address (how commons are told apart)
      ("dynundef", weak)   symbolic dynamic relocation against an undefined dynamic symbol (or a
                           COPY-relocated one): bound at run time
      ("zero",)            the slot is a link-time constant 0
      ("odd", text)        anything else
    """
    return observe_named_slots(path, [(n, "slot_" + n, n) for n in names])


SLOT_ABSENT = ("odd", "slot symbol count 0")


def observe_named_slots(path, slots):
    """observe_slots for slots that are not called slot_<name>: slots = [(key, slot symbol, name of
    the referenced symbol)] -> {key: observation}. A slot whose symbol is not defined in the output
    (its section was discarded) reads SLOT_ABSENT."""
    e = elfread.Elf(path)
    symtab = e.symbols(".symtab")
    dynsym = e.symbols(".dynsym") if e.dynamic() else []
    byname = {}
    for s in symtab:
        byname.setdefault(s.name, []).append(s)
    relocs, copies, relr = {}, set(), set()
    if e.dynamic():
        dr = e.dyn_relocs()
        for off, typ, si, add in dr["rela"] + dr["jmprel"]:
            relocs[off] = (typ, si, add or 0)
            if typ == R_X86_64_COPY:
                copies.add(off)
        relr = set(dr["relr"])
    out = {}
    for key, slotsym, n in slots:
        found = [s for s in byname.get(slotsym, []) if s.shndx != 0]
        if len(found) != 1:
            out[key] = ("odd", "slot symbol count %d" % len(found))
            continue
        slot = found[0].value
        if slot in relocs:
            typ, si, add = relocs[slot]
            if typ == R_X86_64_RELATIVE:
                target = add
            elif typ in (R_X86_64_64, R_X86_64_GLOB_DAT):
                if si >= len(dynsym):
                    out[key] = ("odd", "dynamic symbol index %d out of range" % si)
                    continue
                ds = dynsym[si]
                if ds.name != n:
                    out[key] = ("odd", "slot relocated against %r" % ds.name)
                    continue
                if ds.shndx == 0:
                    out[key] = ("dynundef", ds.bind == elfread.STB_WEAK)
                    continue
                target = ds.value + add
            else:
                out[key] = ("odd", "dynamic relocation type %d on the slot" % typ)
                continue
        else:
            target = e.read_u64(slot)
            if target == 0:
                out[key] = ("zero",)
                continue
        if target in copies:
            out[key] = ("dynundef", False)
            continue
        marker = None
        for width in (8, 4, 1):     # a 4-byte common may be the last thing in its segment
            try:
                marker = int.from_bytes(e.read_vaddr(target, width), "little")
                break
            except elfread.ElfError:
                pass
        if marker is None:
            out[key] = ("odd", "target %#x not mapped" % target)
            continue
        if marker:
            out[key] = ("m", marker)
        else:
            sizes = sorted({s.size for s in byname.get(n, []) + [d for d in dynsym if d.name == n]
                            if s.shndx != 0 and s.value == target})
            out[key] = ("c", sizes[0] if len(sizes) == 1 else tuple(sizes))
    return out


def defined_symbol_names(path, prefix):
    """Names starting with `prefix` that are defined in the output's .symtab."""
    e = elfread.Elf(path)
    return sorted({s.name for s in e.symbols(".symtab") if s.shndx != 0 and s.name.startswith(prefix)})
