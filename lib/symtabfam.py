"""Program family of check C31 (symbol tables describe the final resolution): per-symbol axes,
deterministic covering-array construction, elfgen object builders.  No subprocesses here."""
import itertools
import struct

import elfgen
from elfgen import (ElfObject, SHF_ALLOC, SHF_WRITE, SHF_EXECINSTR, SHF_TLS, STB_LOCAL, STB_GLOBAL,
                    STB_WEAK, STB_GNU_UNIQUE, STT_NOTYPE, STT_OBJECT, STT_FUNC, STT_FILE, STT_TLS,
                    STV_DEFAULT, STV_INTERNAL, STV_HIDDEN, STV_PROTECTED)

R_X86_64_64, R_X86_64_PLT32, R_X86_64_GOTPCREL, R_X86_64_GOTTPOFF = 1, 4, 9, 22

BINDS = ["local", "global", "weak", "unique"]
VISES = ["default", "protected", "hidden", "internal"]
TYPES = ["func", "object", "tls", "notype", "abs"]
FATES = ["retained", "gc", "xl-all", "xl-lib", "vs-local", "dyn-list", "eds"]
DUPS = ["single", "dup"]
AXES = [BINDS, VISES, TYPES, FATES, DUPS]
NA = len(AXES)
NSLOT = 4
BIND_NUM = {"local": STB_LOCAL, "global": STB_GLOBAL, "weak": STB_WEAK, "unique": STB_GNU_UNIQUE}
VIS_NUM = {"default": STV_DEFAULT, "protected": STV_PROTECTED, "hidden": STV_HIDDEN,
           "internal": STV_INTERNAL}
TYPE_NUM = {"func": STT_FUNC, "object": STT_OBJECT, "tls": STT_TLS, "notype": STT_NOTYPE,
            "abs": STT_NOTYPE}
ARCHIVE_FATES = ("xl-all", "xl-lib")


def legal(sym):
    """Illegal combinations, skipped by rule: a local symbol with non-default visibility; a second
    (weak, losing) definition in dup.o for anything but a global / weak symbol of main.o.  Partial
    tuples (None for an axis not yet chosen) are legal when some completion is."""
    b, v, _t, f, d = sym
    if b == "local" and v not in (None, "default"):
        return False
    if d == "dup" and (b in ("local", "unique") or f in ARCHIVE_FATES):
        return False
    return True


def all_symbol_tuples():
    return [s for s in itertools.product(*AXES) if legal(s)]


def _legal_idx(vals):
    return legal(tuple(None if x is None else AXES[a][x] for a, x in enumerate(vals)))


# ------------------------------------------------------------------------------ covering array
def covering_array(strength):
    """Deterministic greedy (AETG-style, no randomness) covering array of the given strength over
    the 16 factors (slot, axis), slot in 0..3, axis in bind/vis/type/fate, honouring `legal` inside
    every slot.  Construction: keep the set U of still-uncovered legal value combinations of every
    `strength`-subset of factors; each new row is seeded with the first element of U in
    lexicographic (factor-subset, values) order, then the remaining factors are fixed one at a time
    in index order, each to the value that covers the most elements of U together with the factors
    fixed so far (ties: the first value in the cyclic order starting at row_number mod levels);
    values that would make a slot illegal are not considered.  Returns rows of 4 symbol tuples."""
    nf = NSLOT * NA
    levels = [len(AXES[f % NA]) for f in range(nf)]

    def ok_partial(row):
        return all(_legal_idx(row[NA * s:NA * s + NA]) for s in range(NSLOT))

    unc = {}
    for combo in itertools.combinations(range(nf), strength):
        vals = set()
        for vs in itertools.product(*[range(levels[f]) for f in combo]):
            row = [None] * nf
            for f, x in zip(combo, vs):
                row[f] = x
            if ok_partial(row):
                vals.add(vs)
        unc[combo] = vals
    order = sorted(unc)
    rows = []
    first = 0
    while True:
        while first < len(order) and not unc[order[first]]:
            first += 1
        if first == len(order):
            break
        combo = order[first]
        seed = min(unc[combo])
        row = [None] * nf
        for f, x in zip(combo, seed):
            row[f] = x
        for f in range(nf):
            if row[f] is not None:
                continue
            fixed = [g for g in range(nf) if row[g] is not None]
            best, best_gain = None, -1
            start = len(rows) % levels[f]
            for k in range(levels[f]):
                x = (start + k) % levels[f]
                row[f] = x
                if not ok_partial(row):
                    continue
                gain = 0
                for others in itertools.combinations(fixed, strength - 1):
                    c = tuple(sorted(others + (f,)))
                    if tuple(row[g] for g in c) in unc[c]:
                        gain += 1
                if gain > best_gain:
                    best, best_gain = x, gain
            row[f] = best
        for c in itertools.combinations(range(nf), strength):
            unc[c].discard(tuple(row[g] for g in c))
        rows.append(tuple(tuple(AXES[a][row[NA * s + a]] for a in range(NA))
                          for s in range(NSLOT)))
    return rows


def tuple_cover_rows():
    """Rows in which every legal per-symbol tuple (all axes jointly) occurs once: the legal
    tuples in lexicographic order, dealt to rows of 4 (the last row is padded with the first
    tuples)."""
    ts = all_symbol_tuples()
    rows = []
    for i in range(0, len(ts), NSLOT):
        r = ts[i:i + NSLOT]
        k = 0
        while len(r) < NSLOT:
            r.append(ts[k])
            k += 1
        rows.append(tuple(r))
    return rows


def uncovered(rows, strength):
    """Number of legal `strength`-way combinations NOT covered by rows (verification of the array)."""
    nf = NSLOT * NA
    flat = [[r[s][a] for s in range(NSLOT) for a in range(NA)] for r in rows]
    missing = 0
    for combo in itertools.combinations(range(nf), strength):
        seen = {tuple(fr[f] for f in combo) for fr in flat}
        for vs in itertools.product(*[AXES[f % NA] for f in combo]):
            syms = {}
            for f, x in zip(combo, vs):
                syms.setdefault(f // NA, {})[f % NA] = x
            if not all(legal(tuple(d.get(a) for a in range(NA))) for d in syms.values()):
                continue
            if vs not in seen:
                missing += 1
    return missing


# ------------------------------------------------------------------------------ objects
def marker(tag, slot):
    """8 unique bytes per definition."""
    return struct.pack("<Q", 0xC31D_0000_0000_0000 | (tag << 8) | slot | 0x5A5A_0000_0000)


ABS_VALUE = [0xA110, 0xA220, 0xA330, 0xA440]
SEC_OF_TYPE = {"func": (".text", SHF_ALLOC | SHF_EXECINSTR), "object": (".data", SHF_ALLOC | SHF_WRITE),
               "tls": (".tdata", SHF_ALLOC | SHF_WRITE | SHF_TLS), "notype": (".rodata", SHF_ALLOC)}


def _define(o, slot, sym, tag, bind=None, extra=0):
    b, v, t = sym[:3]
    bind = BIND_NUM[b] if bind is None else bind
    name = f"s{slot}"
    if t == "abs":
        return o.symbol(name, section="abs", value=ABS_VALUE[slot] + extra, size=0, bind=bind,
                        type=STT_NOTYPE, vis=VIS_NUM[v])
    pre, flags = SEC_OF_TYPE[t]
    sec = o.section(f"{pre}.{name}", flags=flags, align=8, data=marker(tag, slot) + bytes(8))
    return o.symbol(name, section=sec, value=0, size=8 + slot + extra, bind=bind,
                    type=TYPE_NUM[t], vis=VIS_NUM[v])


def _ref(code, relocs, sym, t, absrefs=None):
    """mov sym@GOTPCREL(%rip),%rax / mov sym@GOTTPOFF(%rip),%rax; an absolute symbol is referenced
    by a `.quad sym` in a data section instead (GNU ld refuses GOT-relative code references to
    absolute symbols in position-independent output)."""
    if t == "abs":
        absrefs.append(sym)
        return
    relocs.append((len(code) + 3, R_X86_64_GOTTPOFF if t == "tls" else R_X86_64_GOTPCREL, sym, -4))
    code += b"\x48\x8b\x05\0\0\0\0"


def _absrefs_section(o, syms, code, relocs):
    if not syms:
        return
    sec = o.section(".data.absrefs", flags=SHF_ALLOC | SHF_WRITE, align=8, data=bytes(8 * len(syms)))
    for k, sym in enumerate(syms):
        o.reloc(sec, 8 * k, R_X86_64_64, sym, 0)
    loc = o.symbol("absrefs", section=sec, bind=STB_LOCAL, type=STT_OBJECT, size=8 * len(syms))
    relocs.append((len(code) + 3, R_X86_64_GOTPCREL, loc, -4))
    code += b"\x48\x8b\x05\0\0\0\0"


def build_program(row, imports):
    """-> (main.o bytes, member m.o bytes or None, dup.o bytes or None, expectations).
    expectations: per symbol name a dict(slot, bind, vis, type, fate, dup, where
    ('main'|'archive'), marker|None, value|None, size) describing the WINNING definition (a dup.o
    definition is weak and comes after main.o on the command line, so it always loses)."""
    unique = any(s[0] == "unique" for s in row)
    main = ElfObject("x86_64", osabi=3 if unique else 0)
    main.symbol("main.c", section="abs", bind=STB_LOCAL, type=STT_FILE)
    code, relocs, absrefs = bytearray(), [], []
    exp = {}
    arch_slots = [i for i, s in enumerate(row) if s[3] in ARCHIVE_FATES]
    member = None
    if arch_slots:
        member = ElfObject("x86_64", osabi=3 if unique else 0)
        member.symbol("m.c", section="abs", bind=STB_LOCAL, type=STT_FILE)
        mcode, mrelocs, mabs = bytearray(), [], []
    dup = None
    for i, s in enumerate(row):
        b, v, t, f, dp = s
        o = member if i in arch_slots else main
        tag = 2 if i in arch_slots else 1
        symobj = _define(o, i, s, tag)
        if dp == "dup":
            if dup is None:
                dup = ElfObject("x86_64")
                dup.symbol("dup.c", section="abs", bind=STB_LOCAL, type=STT_FILE)
            _define(dup, i, s, 4, bind=STB_WEAK, extra=16)
        exp[f"s{i}"] = dict(slot=i, bind=b, vis=v, type=t, fate=f, dup=(dp == "dup"),
                            where="archive" if i in arch_slots else "main",
                            marker=None if t == "abs" else marker(tag, i).hex(),
                            value=ABS_VALUE[i] if t == "abs" else None,
                            size=0 if t == "abs" else 8 + i)
        if f == "gc":
            continue
        if i in arch_slots:
            _ref(mcode, mrelocs, symobj, t, mabs)
        else:
            _ref(code, relocs, symobj, t, absrefs)
    if member is not None:
        _absrefs_section(member, mabs, mcode, mrelocs)
        mcode += b"\xc3"
        ms = member.section(".text.xanchor", flags=SHF_ALLOC | SHF_EXECINSTR, align=16,
                            data=marker(3, 9) + bytes(mcode))
        member.symbol("xanchor", section=ms, type=STT_FUNC, size=8 + len(mcode))
        for off, rt, sym, add in mrelocs:
            member.reloc(ms, 8 + off, rt, sym, add)
        member.note_gnu_stack()
        xa = main.symbol("xanchor")
        relocs.append((len(code) + 1, R_X86_64_PLT32, xa, -4))
        code += b"\xe8\0\0\0\0"
        exp["xanchor"] = dict(slot=None, bind="global", vis="default", type="func", fate="xanchor",
                              dup=False, where="archive", marker=marker(3, 9).hex(), value=None,
                              size=8 + len(mcode))
    _absrefs_section(main, absrefs, code, relocs)
    if imports:
        relocs.append((len(code) + 1, R_X86_64_PLT32, main.symbol("imp_f"), -4))
        code += b"\xe8\0\0\0\0"
        relocs.append((len(code) + 3, R_X86_64_GOTPCREL, main.symbol("imp_o"), -4))
        code += b"\x48\x8b\x05\0\0\0\0"
    code += b"\xc3"
    ts = main.section(".text._start", flags=SHF_ALLOC | SHF_EXECINSTR, align=16,
                      data=marker(3, 8) + bytes(code))
    main.symbol("_start", section=ts, type=STT_FUNC, size=8 + len(code))
    main.symbol(".Ltmp0", section=ts, value=8, bind=STB_LOCAL)
    main.symbol("loc_keep", section=ts, value=8, bind=STB_LOCAL, type=STT_FUNC, size=1)
    for off, rt, sym, add in relocs:
        main.reloc(ts, 8 + off, rt, sym, add)
    main.note_gnu_stack()
    exp["_start"] = dict(slot=None, bind="global", vis="default", type="func", fate="entry",
                         dup=False, where="main", marker=marker(3, 8).hex(), value=None, size=8 + len(code))
    if dup is not None:
        dup.note_gnu_stack()
    return (main.to_bytes(), member.to_bytes() if member is not None else None,
            dup.to_bytes() if dup is not None else None, exp)


def import_library_object():
    o = ElfObject("x86_64")
    t = o.section(".text", flags=SHF_ALLOC | SHF_EXECINSTR, align=16, data=b"\xc3\xc3")
    d = o.section(".data", flags=SHF_ALLOC | SHF_WRITE, align=8, data=bytes(8))
    o.symbol("imp_f", section=t, type=STT_FUNC, size=1)
    o.symbol("imp_unused", section=t, value=1, type=STT_FUNC, size=1)
    o.symbol("imp_o", section=d, type=STT_OBJECT, size=8)
    o.note_gnu_stack()
    return o.to_bytes()


def option_files(row):
    """-> (extra argv, {filename: text}) derived from the symbols' fates."""
    argv, files = [], {}
    fates = {}
    for i, s in enumerate(row):
        fates.setdefault(s[3], []).append(f"s{i}")
    if "xl-all" in fates:
        argv.append("--exclude-libs=ALL")
    if "xl-lib" in fates:
        argv.append("--exclude-libs=libx.a")
    if "vs-local" in fates:
        files["vs.map"] = "{ local: " + " ".join(n + ";" for n in fates["vs-local"]) + " };\n"
        argv.append("--version-script=vs.map")
    if "dyn-list" in fates:
        files["dyn.list"] = "{ " + " ".join(n + ";" for n in fates["dyn-list"]) + " };\n"
        argv.append("--dynamic-list=dyn.list")
    for n in fates.get("eds", []):
        argv.append(f"--export-dynamic-symbol={n}")
    return argv, files
