"""Program family of check C31 (symbol tables describe the final resolution): per-symbol axes,
deterministic covering-array construction, elfgen object builders.  No subprocesses here."""
import itertools
import struct

import elfgen
from elfgen import (ElfObject, SHF_ALLOC, SHF_WRITE, SHF_EXECINSTR, SHF_TLS, STB_LOCAL, STB_GLOBAL,
                    STB_WEAK, STB_GNU_UNIQUE, STT_NOTYPE, STT_OBJECT, STT_FUNC, STT_FILE, STT_TLS,
                    STV_DEFAULT, STV_INTERNAL, STV_HIDDEN, STV_PROTECTED)

R_X86_64_64, R_X86_64_PLT32, R_X86_64_GOTPCREL, R_X86_64_GOTTPOFF = 1, 4, 9, 22

BINDS = ["local", "global", "weak", "unique"]
VISES = ["default", "protected", "hidden", "internal"]
TYPES = ["func", "object", "tls", "notype", "abs", "common"]
FATES = ["retained", "gc", "xl-all", "xl-lib", "vs-local", "dyn-list", "eds"]
# The non-winning (second) definition of the same name: absent, in pre.o BEFORE the winner's object
# on the command line, or in dup.o AFTER it; and its own visibility.  Its binding follows from the
# winner's type: a smaller common when the winner is a common, else weak.  (A gnu-unique definition
# can never lose under GNU ld: against global / gnu-unique it is a multiple-definition error,
# against weak it wins -- so "gnu-unique involved" is covered with the winner being gnu-unique.)
DPOS = ["none", "before", "after"]
DVIS = ["default", "protected", "hidden", "internal"]
AXES = [BINDS, VISES, TYPES, FATES, DPOS, DVIS]
NA = len(AXES)
NSLOT = 4
BIND_NUM = {"local": STB_LOCAL, "global": STB_GLOBAL, "weak": STB_WEAK, "unique": STB_GNU_UNIQUE}
VIS_NUM = {"default": STV_DEFAULT, "protected": STV_PROTECTED, "hidden": STV_HIDDEN,
           "internal": STV_INTERNAL}
TYPE_NUM = {"func": STT_FUNC, "object": STT_OBJECT, "tls": STT_TLS, "notype": STT_NOTYPE,
            "abs": STT_NOTYPE, "common": STT_OBJECT}
ARCHIVE_FATES = ("xl-all", "xl-lib")
# ELF gABI / GNU ld (elf_merge_st_other): the most constraining visibility of all definitions wins.
VIS_RANK = {"internal": 0, "hidden": 1, "protected": 2, "default": 3}


def merged_visibility(*vs):
    return min(vs, key=lambda v: VIS_RANK[v])


def legal(sym):
    """Complete tuples skipped by rule:
      * a local symbol with non-default visibility or with a second definition;
      * a common symbol that is not STB_GLOBAL;
      * a second definition for a symbol of the --exclude-libs archive;
      * a second (weak) definition BEFORE a weak winner (it would win itself): the winner of
        `before` is global or gnu-unique; after it, global / weak / gnu-unique (commons: the larger
        one wins in either order);
      * dpos = none with dvis != default (canonical form, the axis is meaningless there)."""
    b, v, t, f, dp, dv = sym
    if b == "local" and (v != "default" or dp != "none"):
        return False
    if t == "common" and b != "global":
        return False
    if dp == "none":
        return dv == "default"
    if f in ARCHIVE_FATES:
        return False
    if t != "common" and dp == "before" and b not in ("global", "unique"):
        return False
    return True


LEGAL = [s for s in itertools.product(*AXES) if legal(s)]
_PROJ = {}


def legal_partial(sym):
    """sym with None for axes not chosen yet: legal iff some complete legal tuple extends it
    (decided exactly, by projection of the list of legal tuples)."""
    axes = tuple(a for a in range(NA) if sym[a] is not None)
    pr = _PROJ.get(axes)
    if pr is None:
        pr = _PROJ[axes] = {tuple(t[a] for a in axes) for t in LEGAL}
    return tuple(sym[a] for a in axes) in pr


def all_symbol_tuples():
    return list(LEGAL)


def _legal_idx(vals):
    return legal_partial(tuple(None if x is None else AXES[a][x] for a, x in enumerate(vals)))


# ------------------------------------------------------------------------------ covering array
def covering_array(strength):
    """Deterministic greedy (AETG-style, no randomness) covering array of the given strength over
    the 24 factors (slot, axis), slot in 0..3, axis in bind/vis/type/fate/dpos/dvis, honouring
    `legal` inside every slot.  Construction: keep the set U of still-uncovered legal value
    combinations of every `strength`-subset of factors; each new row is seeded with the first element
    of U in lexicographic (factor-subset, values) order, then the remaining factors are fixed one at
    a time in index order, each to the value that covers the most elements of U together with the
    factors fixed so far (ties: the first value in the cyclic order starting at row_number mod
    levels); values that would leave a slot without a legal completion are not considered.
    Returns rows of 4 symbol tuples."""
    nf = NSLOT * NA
    levels = [len(AXES[f % NA]) for f in range(nf)]

    def ok_partial(row, slots=range(NSLOT)):
        return all(_legal_idx(row[NA * s:NA * s + NA]) for s in slots)

    unc = {}
    for combo in itertools.combinations(range(nf), strength):
        vals = set()
        for vs in itertools.product(*[range(levels[f]) for f in combo]):
            row = [None] * nf
            for f, x in zip(combo, vs):
                row[f] = x
            if ok_partial(row, {f // NA for f in combo}):
                vals.add(vs)
        unc[combo] = vals
    order = sorted(unc)
    rows = []
    first = 0
    while True:
        while first < len(order) and not unc[order[first]]:
            first += 1
        if first == len(order):
            break
        combo = order[first]
        seed = min(unc[combo])
        row = [None] * nf
        for f, x in zip(combo, seed):
            row[f] = x
        for f in range(nf):
            if row[f] is not None:
                continue
            fixed = [g for g in range(nf) if row[g] is not None]
            best, best_gain = None, -1
            start = len(rows) % levels[f]
            for k in range(levels[f]):
                x = (start + k) % levels[f]
                row[f] = x
                if not ok_partial(row, (f // NA,)):
                    continue
                gain = 0
                for others in itertools.combinations(fixed, strength - 1):
                    c = tuple(sorted(others + (f,)))
                    if tuple(row[g] for g in c) in unc[c]:
                        gain += 1
                if gain > best_gain:
                    best, best_gain = x, gain
            row[f] = best
        for c in itertools.combinations(range(nf), strength):
            unc[c].discard(tuple(row[g] for g in c))
        rows.append(tuple(tuple(AXES[a][row[NA * s + a]] for a in range(NA))
                          for s in range(NSLOT)))
    return rows


def _deal(ts):
    """Tuples dealt to rows of 4 with stride ceil(n/4) (row i = ts[i], ts[i+R], ts[i+2R],
    ts[i+3R]; missing places are filled with the first tuples), so that the four symbols of a
    program differ in the leading axes."""
    n = len(ts)
    r = -(-n // NSLOT)
    rows = []
    for i in range(r):
        row = [ts[i + k * r] if i + k * r < n else ts[(i + k) % n] for k in range(NSLOT)]
        rows.append(tuple(row))
    return rows


def tuple_cover_rows():
    """Rows in which every legal per-symbol tuple WITHOUT a second definition occurs once."""
    return _deal([t for t in LEGAL if t[4] == "none"])


DUP_SUB_TYPES_RETAINED = ("func", "object", "tls", "notype", "abs", "common")
DUP_SUB_TYPES_GC = ("func", "object", "common")


def dup_subfamily_rows():
    """The dedicated duplicate-definition sub-family, exhaustive over
      position of the non-winning definition {before, after} x its visibility (4) x the winner's
      visibility (4) x the winner's binding (every legal one: global / gnu-unique before, global /
      weak / gnu-unique after; global for commons) x type {func, object, tls, notype, abs (loser
      weak), common (loser a smaller common)} with fate retained, and {func, object, common} with
      fate gc;
    four such symbols per program."""
    ts = [t for t in LEGAL if t[4] != "none" and
          ((t[3] == "retained" and t[2] in DUP_SUB_TYPES_RETAINED) or
           (t[3] == "gc" and t[2] in DUP_SUB_TYPES_GC))]
    return _deal(ts)


def uncovered(rows, strength):
    """Number of legal `strength`-way combinations NOT covered by rows (verification of the array)."""
    nf = NSLOT * NA
    flat = [[r[s][a] for s in range(NSLOT) for a in range(NA)] for r in rows]
    missing = 0
    for combo in itertools.combinations(range(nf), strength):
        seen = {tuple(fr[f] for f in combo) for fr in flat}
        for vs in itertools.product(*[AXES[f % NA] for f in combo]):
            syms = {}
            for f, x in zip(combo, vs):
                syms.setdefault(f // NA, {})[f % NA] = x
            if not all(legal_partial(tuple(d.get(a) for a in range(NA))) for d in syms.values()):
                continue
            if vs not in seen:
                missing += 1
    return missing


# ------------------------------------------------------------------------------ objects
def marker(tag, slot):
    """8 unique bytes per definition."""
    return struct.pack("<Q", 0xC31D_0000_0000_0000 | (tag << 8) | slot | 0x5A5A_0000_0000)


ABS_VALUE = [0xA110, 0xA220, 0xA330, 0xA440]
COMMON_SIZE = 64
SEC_OF_TYPE = {"func": (".text", SHF_ALLOC | SHF_EXECINSTR), "object": (".data", SHF_ALLOC | SHF_WRITE),
               "tls": (".tdata", SHF_ALLOC | SHF_WRITE | SHF_TLS), "notype": (".rodata", SHF_ALLOC)}


def _define(o, slot, sym, tag, bind=None, extra=0):
    b, v, t = sym[:3]
    bind = BIND_NUM[b] if bind is None else bind
    name = f"s{slot}"
    if t == "abs":
        return o.symbol(name, section="abs", value=ABS_VALUE[slot] + extra, size=0, bind=bind,
                        type=STT_NOTYPE, vis=VIS_NUM[v])
    if t == "common":
        # winner: 64 + 8 * slot bytes, alignment 16; the non-winning one (extra != 0): 8 bytes
        return o.symbol(name, section="common", value=8 if extra else 16,
                        size=8 if extra else COMMON_SIZE + 8 * slot, bind=STB_GLOBAL,
                        type=STT_OBJECT, vis=VIS_NUM[v])
    pre, flags = SEC_OF_TYPE[t]
    sec = o.section(f"{pre}.{name}", flags=flags, align=8, data=marker(tag, slot) + bytes(8))
    return o.symbol(name, section=sec, value=0, size=8 + slot + extra, bind=bind,
                    type=TYPE_NUM[t], vis=VIS_NUM[v])


def _ref(code, relocs, sym, t, absrefs=None):
    """mov sym@GOTPCREL(%rip),%rax / mov sym@GOTTPOFF(%rip),%rax; an absolute symbol is referenced
    by a `.quad sym` in a data section instead (GNU ld refuses GOT-relative code references to
    absolute symbols in position-independent output)."""
    if t == "abs":
        absrefs.append(sym)
        return
    relocs.append((len(code) + 3, R_X86_64_GOTTPOFF if t == "tls" else R_X86_64_GOTPCREL, sym, -4))
    code += b"\x48\x8b\x05\0\0\0\0"


def _absrefs_section(o, syms, code, relocs):
    if not syms:
        return
    sec = o.section(".data.absrefs", flags=SHF_ALLOC | SHF_WRITE, align=8, data=bytes(8 * len(syms)))
    for k, sym in enumerate(syms):
        o.reloc(sec, 8 * k, R_X86_64_64, sym, 0)
    loc = o.symbol("absrefs", section=sec, bind=STB_LOCAL, type=STT_OBJECT, size=8 * len(syms))
    relocs.append((len(code) + 3, R_X86_64_GOTPCREL, loc, -4))
    code += b"\x48\x8b\x05\0\0\0\0"


def build_program(row, imports):
    """-> (main.o, m.o | None, pre.o | None, dup.o | None, expectations), objects as bytes.
    Command-line order: pre.o main.o dup.o libx.a libimp.so.  expectations: per symbol name a
    dict(slot, bind, vis, own_vis, vis_from, type, fate, dup, where ('main'|'archive'),
    marker|None, value|None, size) describing the WINNING definition; `vis` is the most
    constraining visibility of all definitions of the name (`vis_from` says whose it is)."""
    unique = any(s[0] == "unique" for s in row)
    main = ElfObject("x86_64", osabi=3 if unique else 0)
    main.symbol("main.c", section="abs", bind=STB_LOCAL, type=STT_FILE)
    code, relocs, absrefs = bytearray(), [], []
    exp = {}
    arch_slots = [i for i, s in enumerate(row) if s[3] in ARCHIVE_FATES]
    member = None
    if arch_slots:
        member = ElfObject("x86_64", osabi=3 if unique else 0)
        member.symbol("m.c", section="abs", bind=STB_LOCAL, type=STT_FILE)
        mcode, mrelocs, mabs = bytearray(), [], []
    others = {"before": None, "after": None}
    for i, s in enumerate(row):
        b, v, t, f, dp, dv = s
        o = member if i in arch_slots else main
        tag = 2 if i in arch_slots else 1
        symobj = _define(o, i, s, tag)
        vis, vis_from = v, "winner"
        loser_marker = loser_value = None
        if dp != "none":
            ltag = 4 if dp == "after" else 5
            loser_marker = None if t in ("abs", "common") else marker(ltag, i).hex()
            loser_value = ABS_VALUE[i] + 16 if t == "abs" else None
            if others[dp] is None:
                others[dp] = ElfObject("x86_64")
                others[dp].symbol("pre.c" if dp == "before" else "dup.c", section="abs",
                                  bind=STB_LOCAL, type=STT_FILE)
            _define(others[dp], i, (b, dv, t), 4 if dp == "after" else 5, bind=STB_WEAK, extra=16)
            vis = merged_visibility(v, dv)
            if vis != v:
                vis_from = dp
        exp[f"s{i}"] = dict(slot=i, bind=b, vis=vis, own_vis=v, vis_from=vis_from, type=t, fate=f,
                            dup=dp if dp != "none" else False,
                            loser_marker=loser_marker, loser_value=loser_value,
                            where="archive" if i in arch_slots else "main",
                            marker=None if t in ("abs", "common") else marker(tag, i).hex(),
                            value=ABS_VALUE[i] if t == "abs" else None,
                            size=0 if t == "abs" else
                            (COMMON_SIZE + 8 * i if t == "common" else 8 + i))
        if f == "gc":
            continue
        if i in arch_slots:
            _ref(mcode, mrelocs, symobj, t, mabs)
        else:
            _ref(code, relocs, symobj, t, absrefs)
    if member is not None:
        _absrefs_section(member, mabs, mcode, mrelocs)
        mcode += b"\xc3"
        ms = member.section(".text.xanchor", flags=SHF_ALLOC | SHF_EXECINSTR, align=16,
                            data=marker(3, 9) + bytes(mcode))
        member.symbol("xanchor", section=ms, type=STT_FUNC, size=8 + len(mcode))
        for off, rt, sym, add in mrelocs:
            member.reloc(ms, 8 + off, rt, sym, add)
        member.note_gnu_stack()
        xa = main.symbol("xanchor")
        relocs.append((len(code) + 1, R_X86_64_PLT32, xa, -4))
        code += b"\xe8\0\0\0\0"
        exp["xanchor"] = dict(slot=None, bind="global", vis="default", own_vis="default",
                              vis_from="winner", type="func", fate="xanchor", dup=False, where="archive", marker=marker(3, 9).hex(), value=None,
                              size=8 + len(mcode))
    _absrefs_section(main, absrefs, code, relocs)
    if imports:
        relocs.append((len(code) + 1, R_X86_64_PLT32, main.symbol("imp_f"), -4))
        code += b"\xe8\0\0\0\0"
        relocs.append((len(code) + 3, R_X86_64_GOTPCREL, main.symbol("imp_o"), -4))
        code += b"\x48\x8b\x05\0\0\0\0"
    code += b"\xc3"
    ts = main.section(".text._start", flags=SHF_ALLOC | SHF_EXECINSTR, align=16,
                      data=marker(3, 8) + bytes(code))
    main.symbol("_start", section=ts, type=STT_FUNC, size=8 + len(code))
    main.symbol(".Ltmp0", section=ts, value=8, bind=STB_LOCAL)
    main.symbol("loc_keep", section=ts, value=8, bind=STB_LOCAL, type=STT_FUNC, size=1)
    for off, rt, sym, add in relocs:
        main.reloc(ts, 8 + off, rt, sym, add)
    main.note_gnu_stack()
    exp["_start"] = dict(slot=None, bind="global", vis="default", own_vis="default",
                         vis_from="winner", type="func", fate="entry", dup=False, where="main", marker=marker(3, 8).hex(), value=None, size=8 + len(code))
    for o in others.values():
        if o is not None:
            o.note_gnu_stack()
    return (main.to_bytes(), member.to_bytes() if member is not None else None,
            others["before"].to_bytes() if others["before"] is not None else None,
            others["after"].to_bytes() if others["after"] is not None else None, exp)


def import_library_object():
    o = ElfObject("x86_64")
    t = o.section(".text", flags=SHF_ALLOC | SHF_EXECINSTR, align=16, data=b"\xc3\xc3")
    d = o.section(".data", flags=SHF_ALLOC | SHF_WRITE, align=8, data=bytes(8))
    o.symbol("imp_f", section=t, type=STT_FUNC, size=1)
    o.symbol("imp_unused", section=t, value=1, type=STT_FUNC, size=1)
    o.symbol("imp_o", section=d, type=STT_OBJECT, size=8)
    o.note_gnu_stack()
    return o.to_bytes()


def option_files(row):
    """-> (extra argv, {filename: text}) derived from the symbols' fates."""
    argv, files = [], {}
    fates = {}
    for i, s in enumerate(row):
        fates.setdefault(s[3], []).append(f"s{i}")
    if "xl-all" in fates:
        argv.append("--exclude-libs=ALL")
    if "xl-lib" in fates:
        argv.append("--exclude-libs=libx.a")
    if "vs-local" in fates:
        files["vs.map"] = "{ local: " + " ".join(n + ";" for n in fates["vs-local"]) + " };\n"
        argv.append("--version-script=vs.map")
    if "dyn-list" in fates:
        files["dyn.list"] = "{ " + " ".join(n + ";" for n in fates["dyn-list"]) + " };\n"
        argv.append("--dynamic-list=dyn.list")
    for n in fates.get("eds", []):
        argv.append(f"--export-dynamic-symbol={n}")
    return argv, files
