"""thunkfam - the C11 program family (AArch64 range-limited branches over huge .text) and its oracle.

Generator: raw relocatable objects (elfgen) with exact instruction words; padding objects are
*sparse* files (a hole where the section contents would be: zero bytes = `udf #0`, never executed),
shared by hard links. Oracle: a walker that executes the output image from its entry point with
imgsim's AArch64 instruction decoder over an mmap of the file (nothing is loaded wholesale) and a
loader model for the few dynamic relocations that can sit in a GOT slot. Independent of wild: the
intended callee is recognised by a marker instruction that only the callee's body contains."""
import mmap
import os
import struct

import elfgen as G
import elfread
import imgsim

MiB = 1 << 20
AX = G.SHF_ALLOC | G.SHF_EXECINSTR
R_TSTBR14, R_CONDBR19, R_JUMP26, R_CALL26 = 279, 280, 282, 283
RET, NOP = 0xd65f03c0, 0xd503201f
ADR_X0_8 = 0x10000040                     # adr x0, .+8
FORMS = {                                  # name -> (instruction word, r_type, thunkable)
    "bl": (0x94000000, R_CALL26, True),
    "b": (0x14000000, R_JUMP26, True),
    "bcond": (0x5400000e, R_CONDBR19, False),   # b.al
    "tbz": (0x36000000, R_TSTBR14, False),      # tbz w0, #0 (x0 = 0 in the walker: taken)
}
DEEP_PAD = 130 * (1 << 20)
KINDS = ("local", "global", "align32", "custom", "plt", "ifunc")
CALLEE_MARK = 0x52800000 | (0xCA11 << 5)   # movz w0, #0xca11
DECOY_MARKS = {"decoy_a": 0x52800000 | (0xDEC1 << 5), "decoy_z": 0x52800000 | (0xDEC2 << 5)}
# Symbol-table order of the three far functions of a main-family member; the probe is the middle
# one, so its thunk / PLT entry is neither the first nor the last of its block.
TRIO = ("decoy_a", "callee", "decoy_z")
MARK_OF = dict(DECOY_MARKS, callee=CALLEE_MARK)
NAME_OF_MARK = {v: k for k, v in MARK_OF.items()}
ADR_X0_24 = 0x100000c0                    # adr x0, .+24


def filler_mark(i):
    return 0x52800000 | ((0xF100 + i) << 5)


def words(*ws):
    return b"".join(struct.pack("<I", w) for w in ws)


# ------------------------------------------------------------------------------------ objects
def write_sparse(obj, path, holes, dense=False):
    """Write `obj` (elfgen) to `path`; every section in `holes` (Sec -> size) has empty data in
    `obj` and gets a page-aligned hole of that size after the regular file contents. With `dense`
    the zeros are really written (a file many links share: populating the page cache once with
    write() is cheaper than every first reader faulting the pages in)."""
    blob, fmap = obj.to_bytes_with_map()
    blob = bytearray(blob)
    end = len(blob)
    for sec, size in holes.items():
        off = (end + 4095) & ~4095
        o, n = fmap["shdr", sec.index, "sh_offset"]
        blob[o:o + n] = struct.pack("<Q", off)
        o, n = fmap["shdr", sec.index, "sh_size"]
        blob[o:o + n] = struct.pack("<Q", size)
        end = off + size
    with open(path, "wb") as f:
        f.write(blob)
        if dense:
            zeros = bytes(8 * MiB)
            left = end - len(blob)
            while left > 0:
                left -= f.write(zeros[:min(left, len(zeros))])
        f.truncate(end)


def write_pad(path, size, align=4, dense=False):
    """A padding object: one retained `.text` section of `size` zero bytes, no symbols."""
    o = G.ElfObject("aarch64")
    t = o.section(".text", flags=AX | G.SHF_GNU_RETAIN, align=align)
    write_sparse(o, path, {t: size}, dense=dense)


def callee_so_object(path):
    o = G.ElfObject("aarch64")
    t = o.section(".text", flags=AX, align=4, data=_trio_text())
    for i, n in enumerate(TRIO):
        o.symbol(n, section=t, value=8 * i, type=G.STT_FUNC, size=8)
    o.write(path)


def blocks_for(pads, caller, callee):
    """The member's layout: position `caller` / `callee` hold the code objects, every other
    position p holds a padding object of pads[p] bytes. -> [('caller',) | ('callee',) | ('pad', n)]"""
    return [("caller",) if p == caller else ("callee",) if p == callee else ("pad", n)
            for p, n in enumerate(pads)]


def nominal_distance(blocks, code_bytes=16):
    """Callee block minus caller block if the blocks were laid out back to back (what the input
    promises before the linker adds anything; a label for callees that live elsewhere)."""
    off, pos = 0, {}
    for b in blocks:
        pos[b[0]] = off
        off += b[1] if b[0] == "pad" else code_bytes
    return pos["callee"] - pos["caller"]


def _trio_text():
    return words(MARK_OF[TRIO[0]], RET, MARK_OF[TRIO[1]], RET, MARK_OF[TRIO[2]], RET, NOP, NOP)


def _caller_text(form, decoys):
    br = FORMS[form][0]
    if decoys:      # call sites in TRIO order at 0 (decoy_a), 8 (callee = the entry point), 16 (decoy_z)
        return words(br, RET, br, RET, br, RET, NOP, NOP)
    return words(br, RET, NOP, NOP)


FILLER = words(filler_mark(0), RET, NOP, NOP)


def _link_file(src, dst):
    if os.path.lexists(dst):
        os.unlink(dst)
    os.link(src, dst)


def build_inputs(d, blocks, kind, form, pad_path, so_path, decoys=False, caller_sec="text", text_align=4):
    """Materialise one member in directory `d`. pad_path(size) -> path of the shared pad object of
    that size. With `decoys` the caller has three call sites (decoy_a, callee, decoy_z; the symbol
    `caller` = the entry point is the middle one) to three functions of the callee's kind defined
    together, so that the probe's thunk / PLT entry sits between two others.
    caller_sec: 'text' (4-byte aligned .text: wild's primary part), 'align32' (a 32-byte aligned
    .text.c32 section) or 'custom' (section `bar_calls`) - the latter two put the call sites into a
    non-primary part (not available for the one-object local kind). text_align: alignment of the
    caller's and a global callee's `.text` section (pad_path must hand out pads aligned alike).
    Returns the input names in command-line order."""
    rtype = FORMS[form][1]
    targets = TRIO if decoys else ("callee",)
    site = {n: 8 * i for i, n in enumerate(targets)}          # call-site offsets in the caller
    body = _trio_text() if decoys else words(CALLEE_MARK, RET, NOP, NOP)

    def add_caller(o, sec, syms):
        o.symbol("caller", section=sec, value=site["callee"], type=G.STT_FUNC, size=8)
        for n in targets:
            o.reloc(sec, site[n], rtype, syms[n], 0)

    def add_defs(o, sec, base=0, bind=G.STB_GLOBAL, type=G.STT_FUNC):
        return {n: o.symbol(n, section=sec, value=base + 8 * i, type=type, size=8, bind=bind)
                for i, n in enumerate(targets)}

    if kind == "local":
        # One object holds the whole layout as a sequence of sections: a STB_LOCAL callee can only
        # be called from its own object (the shape of an LTO / unity-build object).
        o = G.ElfObject("aarch64")
        holes, sec = {}, {}
        for i, b in enumerate(blocks):
            if b[0] == "pad":
                holes[o.section(f".text.b{i}", flags=AX | G.SHF_GNU_RETAIN, align=4)] = b[1]
            else:
                sec[b[0]] = o.section(f".text.b{i}", flags=AX, align=4,
                                      data=_caller_text(form, decoys) if b[0] == "caller" else body)
        add_caller(o, sec["caller"], add_defs(o, sec["callee"], bind=G.STB_LOCAL))
        write_sparse(o, os.path.join(d, "mega.o"), holes)
        return ["mega.o"]
    names = []
    for i, b in enumerate(blocks):
        n = f"b{i}.o"
        if b[0] == "pad":
            _link_file(pad_path(b[1]), os.path.join(d, n))
            names.append(n)
            continue
        o = G.ElfObject("aarch64")
        if b[0] == "caller":
            if caller_sec == "text":
                t = o.section(".text", flags=AX, align=text_align, data=_caller_text(form, decoys))
            else:
                o.section(".text", flags=AX | G.SHF_GNU_RETAIN, align=4, data=FILLER)
                t = o.section(*{"align32": (".text.c32",), "custom": ("bar_calls",)}[caller_sec], flags=AX,
                              align=32 if caller_sec == "align32" else 4, data=_caller_text(form, decoys))
            add_caller(o, t, {x: o.symbol(x) for x in targets})
        elif kind == "global":
            add_defs(o, o.section(".text", flags=AX, align=text_align, data=body))
        elif kind == "deep":
            # The callee lives DEEP inside a big object: DEEP_PAD bytes of retained .text between the
            # function and the end of its object that faces the caller (a caller in front: pad, then
            # the function; a caller behind: the function, then the pad). The object's start / end is
            # near the caller while the symbol itself is out of range.
            fwd = [x[0] for x in blocks].index("caller") < i
            secs = [o.section(".text.d0", flags=AX | (G.SHF_GNU_RETAIN if fwd else 0), align=4, data=b"" if fwd else body),
                    o.section(".text.d1", flags=AX | (0 if fwd else G.SHF_GNU_RETAIN), align=4, data=body if fwd else b"")]
            add_defs(o, secs[1 if fwd else 0])
            write_sparse(o, os.path.join(d, n), {secs[0 if fwd else 1]: DEEP_PAD})
            names.append(n)
            continue
        elif kind in ("align32", "custom"):
            o.section(".text", flags=AX | G.SHF_GNU_RETAIN, align=4, data=FILLER)
            if kind == "align32":
                t = o.section(".text.a32", flags=AX, align=32, data=body)
            else:
                t = o.section("foo_calls", flags=AX, align=4, data=body)
            add_defs(o, t)
        elif kind == "ifunc":
            # filler | resolver_i: adr x0, impl_i; ret  (x len(targets)) | impl_i: marker; ret
            k = len(targets)
            adr = {1: ADR_X0_8, 3: ADR_X0_24}[k]
            code = FILLER + words(*([adr, RET] * k)) + b"".join(words(MARK_OF[x], RET) for x in targets)
            t = o.section(".text", flags=AX | G.SHF_GNU_RETAIN, align=4, data=code)
            add_defs(o, t, base=16, type=G.STT_GNU_IFUNC)
        else:                                  # plt: the definitions live in libcallee.so
            o.section(".text", flags=AX | G.SHF_GNU_RETAIN, align=4, data=FILLER)
        o.write(os.path.join(d, n))
        names.append(n)
        if b[0] == "callee" and kind == "plt":
            _link_file(so_path, os.path.join(d, "libcallee.so"))
            names.append("libcallee.so")
    return names


# -------------------------------------------------------------------------------------- reader
class MappedElf(elfread.Elf):
    """elfread.Elf over an mmap: only the pages actually inspected are read."""

    def __init__(self, path):
        self._f = open(path, "rb")
        self._mm = mmap.mmap(self._f.fileno(), 0, access=mmap.ACCESS_READ)
        self.path, self.data = path, self._mm
        self._cache = {}
        self._parse_header()
        self._parse_sections()
        self._parse_segments()

    def close(self):
        self._cache.clear()
        self.data = b""
        try:
            self._mm.close()
        except BufferError:
            pass
        self._f.close()


class _Mem:
    """Memory of the loaded image at base 0: PT_LOAD contents + an overlay of relocated slots."""

    def __init__(self, elf):
        self.elf = elf
        self.over = {}          # vaddr (8-aligned slot) -> u64

    def read(self, addr, n):
        if n == 8 and addr in self.over:
            return struct.pack("<Q", self.over[addr])
        try:
            return self.elf.read_vaddr(addr, n)
        except elfread.ElfError as ex:
            raise imgsim.Fault(str(ex))

    def r32(self, addr):
        return struct.unpack("<I", self.read(addr, 4))[0]

    def r64(self, addr):
        return struct.unpack("<Q", self.read(addr, 8))[0]

    def write(self, addr, data):
        raise imgsim.Fault(f"store to {addr:#x} on a branch path")


class _Proc:
    stack_top = 0x7fff_0000_0000
    tp = 0

    def __init__(self, mem):
        self.mem = mem
        self.hooks = {}


EXTERN_BASE = 0xFFFF_0000_E000_0000       # magic landing addresses for symbols of other modules


class Image:
    """An output executable prepared for walking."""

    def __init__(self, path):
        self.elf = MappedElf(path)
        self.mem = _Mem(self.elf)
        self.proc = _Proc(self.mem)
        self.externs = {}        # magic address -> symbol name
        self.exec_ranges = [(p.p_vaddr, p.p_vaddr + p.p_memsz) for p in self.elf.segments
                            if p.p_type == elfread.PT_LOAD and p.p_flags & elfread.PF_X]
        self._relocate()

    def close(self):
        self.elf.close()

    def _extern(self, name):
        for a, n in self.externs.items():
            if n == name:
                return a
        a = EXTERN_BASE + 16 * len(self.externs)
        self.externs[a] = name
        return a

    def _static_irelative(self):
        """Static executable: the startup code applies the RELA entries between
        __rela_iplt_start and __rela_iplt_end."""
        lo = hi = None
        for s in self.elf.symbols(".symtab"):
            if s.name == "__rela_iplt_start":
                lo = s.value
            elif s.name == "__rela_iplt_end":
                hi = s.value
        out = []
        if lo is not None and hi is not None:
            raw = self.elf.read_vaddr(lo, hi - lo) if hi > lo else b""
            for i in range(len(raw) // 24):
                o, info, a = struct.unpack_from("<QQq", raw, i * 24)
                out.append((o, info & 0xffffffff, info >> 32, a))
            return out
        # The symbols exist only when something refers to them (lld) - nothing does in a program
        # without startup code; the same table is then found as the allocated SHT_RELA sections.
        for s in self.elf.sections:
            if s.sh_type == elfread.SHT_RELA and s.sh_flags & elfread.SHF_ALLOC:
                for o, info, a in struct.iter_unpack("<QQq", s.data):
                    out.append((o, info & 0xffffffff, info >> 32, a))
        return out

    def _relocate(self):
        elf = self.elf
        irel = []
        if elf.dynamic():
            rel = elf.dyn_relocs()
            for off in rel["relr"]:
                self.mem.over[off] = self.mem.r64(off)          # base 0
            seen = set()
            dynsym = None
            for key in ("rela", "jmprel"):
                for off, rtype, symidx, addend in rel[key]:
                    if (off, rtype, symidx) in seen:
                        continue
                    seen.add((off, rtype, symidx))
                    if rtype == imgsim.R_RELATIVE:
                        self.mem.over[off] = addend & imgsim.M64
                    elif rtype == imgsim.R_IRELATIVE:
                        irel.append((off, addend))
                    elif rtype in (imgsim.R_JUMP_SLOT, imgsim.R_GLOB_DAT, imgsim.R_ABS64):
                        if dynsym is None:
                            dynsym = elf.symbols(".dynsym")
                        sym = dynsym[symidx]
                        if sym.shndx != 0:
                            v = sym.value
                            if sym.type == elfread.STT_GNU_IFUNC:
                                irel.append((off, v))
                                continue
                            self.mem.over[off] = (v + (addend or 0)) & imgsim.M64
                        else:
                            self.mem.over[off] = self._extern(sym.name)
        else:
            for off, rtype, symidx, addend in self._static_irelative():
                if rtype == imgsim.R_IRELATIVE:
                    irel.append((off, addend))
        self.irelative = irel
        for off, resolver in irel:
            cpu = imgsim.Cpu(self.proc)
            cpu.x[30] = imgsim.RETURN_MAGIC
            cpu.pc = resolver
            for _ in range(64):
                if cpu.pc == imgsim.RETURN_MAGIC:
                    break
                cpu.step()
            else:
                raise imgsim.Fault(f"ifunc resolver at {resolver:#x} does not return")
            self.mem.over[off] = cpu.x[0]

    def walk(self, start, max_hops=8, max_steps=64):
        """Execute from `start` until a function marker, an extern landing, or trouble.
        -> dict(status: 'mark' (mark = function name, where = pc) | 'extern' (where = symbol name)
                | 'bad' (detail), hops, path [(pc, insn)], lr)"""
        cpu = imgsim.Cpu(self.proc)
        for i in range(31):
            cpu.x[i] = 0
        cpu.x[30] = 0xFFFF_0000_0BAD_0000
        cpu.pc = start
        hops, path = 0, []
        res = {"status": "bad", "hops": 0, "path": path}
        for _ in range(max_steps):
            pc = cpu.pc
            if pc in self.externs:
                res.update(status="extern", where=self.externs[pc], lr=cpu.x[30], hops=hops)
                return res
            if not any(lo <= pc < hi for lo, hi in self.exec_ranges):
                res.update(detail=f"control reaches {pc:#x}, outside every executable segment", hops=hops)
                return res
            try:
                insn = self.mem.r32(pc)
            except imgsim.SimError as ex:
                res.update(detail=f"fetch at {pc:#x}: {ex}", hops=hops)
                return res
            if insn in NAME_OF_MARK and pc != start:
                res.update(status="mark", mark=NAME_OF_MARK[insn], where=pc, lr=cpu.x[30], hops=hops)
                return res
            path.append((pc, insn))
            try:
                cpu.step()
            except imgsim.Unsupported as ex:
                res.update(detail=f"undecodable: {ex}", hops=hops)
                return res
            except imgsim.SimError as ex:
                res.update(detail=f"fault: {ex}", hops=hops)
                return res
            if cpu.pc != pc + 4:
                hops += 1
                if hops > max_hops:
                    res.update(detail=f"more than {max_hops} control transfers", hops=hops)
                    return res
        res.update(detail=f"no landing within {max_steps} instructions", hops=hops)
        return res


def fmt_path(path):
    return " ".join(f"{pc:#x}:{insn:08x}" for pc, insn in path[:12])
