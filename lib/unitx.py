"""Driving the Rust harness `unitx` (/verif/engines) from a check.

`unitx <sub-command> --tier T` enumerates a bounded input domain of real wild functions against an
independently written reference and prints one JSON object: evaluations, outcome cells, samples
and violations (each with a stable key, a description of the first instance, a count and a
self-contained replay object). `unitx replay-<sub-command> <file>` re-runs one case."""
import json
import subprocess
import sys

import vlib


def build(chk, with_wild=False):
    """Build the engine (and wild, for checks that also link). Returns build seconds."""
    if chk.args.no_build:
        return 0.0
    targets = (["wild"] if with_wild else []) + ["engines"]
    return vlib.build(*targets)


def run(chk, sub, extra=(), timeout=3000):
    """Run a sub-command for the check's tier; returns the parsed JSON summary."""
    cmd = [vlib.UNITX, sub, "--tier", chk.tier, *extra]
    try:
        p = subprocess.run(cmd, stdout=subprocess.PIPE, stderr=subprocess.PIPE, timeout=timeout)
    except subprocess.TimeoutExpired:
        chk.machinery(f"{' '.join(cmd)} timed out after {timeout}s")
    if p.returncode != 0:
        chk.machinery(f"{' '.join(cmd)} exited {p.returncode}: {p.stderr.decode()[-400:]}")
    try:
        return json.loads(p.stdout)
    except ValueError as e:
        chk.machinery(f"{' '.join(cmd)}: unparsable output ({e}): {p.stdout[:200]!r}")


def replay_case(chk, sub, path, timeout=600):
    """Re-run one recorded case (a /verif/replays file or a bare replay object)."""
    cmd = [vlib.UNITX, "replay-" + sub, path]
    p = subprocess.run(cmd, stdout=subprocess.PIPE, stderr=subprocess.PIPE, timeout=timeout)
    if p.returncode != 0:
        chk.machinery(f"{' '.join(cmd)} exited {p.returncode}: {p.stderr.decode()[-400:]}")
    return json.loads(p.stdout)


def record_violations(chk, res, part=None, order=None):
    """Turn the engine's violations into chk.violation calls (vlib writes replay files for the
    first 20 distinct keys only, so `order` - a sort key on the violation's key - puts the most
    telling ones first). Returns the number recorded."""
    n = 0
    vs = res.get("violations", [])
    if order:
        vs = sorted(vs, key=lambda v: order(v["key"]))
    for v in vs:
        replay = dict(v["replay"])
        if part:
            replay["part"] = part
        replay["engine"] = res.get("subcommand")
        chk.violation(v["key"], f"{v['what']} [{v['count']} case(s) in this run]", replay)
        n += 1
    return n


def finish_replay(chk, res, original_key=None):
    """Report the outcome of a --replay run without touching the evidence file."""
    vs = res.get("violations", [])
    for s in res.get("samples", []):
        print(json.dumps(s, indent=1))
    if res.get("error"):
        chk.machinery(f"replay: {res['error']}")
    if not vs:
        print(f"REPLAY property={chk.pid}: the recorded case no longer violates the property")
        sys.exit(vlib.EXIT_OK)
    for v in vs:
        print(f"REPLAY property={chk.pid} key={v['key']} {v['what']}"[:900])
    known = all(any(v["key"] == k or k.startswith(v["key"] + ":") or v["key"].startswith(k)
                    for k in chk.known) for v in vs)
    sys.exit(vlib.EXIT_OK if known and chk.known else vlib.EXIT_VIOLATION)


def load_replay(path):
    with open(path) as f:
        d = json.load(f)
    return d.get("replay", d), d.get("key")
