"""Common machinery for all checks: build, scratch space, parallel map, evidence, findings."""
import argparse
import contextlib
import hashlib
import json
import multiprocessing
import os
import shutil
import subprocess
import sys
import time

VERIF = os.path.dirname(os.path.dirname(os.path.abspath(__file__)))
REPO = os.environ.get("VERIF_REPO", "/repo")
BUILD = os.environ.get("VERIF_BUILD") or os.path.join(VERIF, ".build")
if not os.path.isabs(BUILD):
    BUILD = os.path.join(VERIF, BUILD)
BIN = os.path.join(BUILD, "bin")
WILD = os.path.join(BIN, "wild")
WILD_B2 = os.path.join(BIN, "wild-b2")
LINKER_DIFF = os.path.join(BIN, "linker-diff")
UNITX = os.path.join(BIN, "unitx")
OBJCACHE = os.path.join(VERIF, ".build", "objcache")
NPROC = min(16, os.cpu_count() or 4)

EXIT_OK, EXIT_VIOLATION, EXIT_MACHINERY = 0, 1, 2


def build(*targets):
    """Rebuild what a check needs from /repo's current working tree (hooks on)."""
    t0 = time.time()
    r = subprocess.run([os.path.join(VERIF, "vbuild"), *targets], cwd=VERIF)
    if r.returncode != 0:
        print(f"MACHINERY: vbuild {' '.join(targets)} failed", file=sys.stderr)
        sys.exit(EXIT_MACHINERY)
    return time.time() - t0


@contextlib.contextmanager
def scratch(tag="x"):
    base = "/dev/shm" if os.path.isdir("/dev/shm") else os.environ.get("TMPDIR", "/var/tmp")
    d = os.path.join(base, f"verif.{tag}.{os.getpid()}")
    shutil.rmtree(d, ignore_errors=True)
    os.makedirs(d)
    try:
        yield d
    finally:
        shutil.rmtree(d, ignore_errors=True)


def run(cmd, env=None, timeout=60, cwd=None, stdin=None):
    """Run a command. Returns (returncode, stdout bytes, stderr bytes). returncode is negative for
    a signal, and the string 'timeout' if the time limit was hit."""
    e = dict(os.environ)
    if env:
        e.update(env)
    try:
        p = subprocess.run(cmd, env=e, cwd=cwd, stdin=stdin or subprocess.DEVNULL,
                           stdout=subprocess.PIPE, stderr=subprocess.PIPE, timeout=timeout)
        return p.returncode, p.stdout, p.stderr
    except subprocess.TimeoutExpired as ex:
        return "timeout", ex.stdout or b"", ex.stderr or b""


def sha(data):
    if isinstance(data, str):
        data = data.encode()
    return hashlib.sha256(data).hexdigest()


def file_sha(path):
    try:
        with open(path, "rb") as f:
            return hashlib.sha256(f.read()).hexdigest()
    except OSError:
        return None


def assemble(src, arch="x86_64", ext=".s", extra=()):
    """Assemble (or compile) source text into an object file, cached by content. Returns path."""
    os.makedirs(OBJCACHE, exist_ok=True)
    key = sha(arch + "\0" + ext + "\0" + " ".join(extra) + "\0" + src)[:24]
    out = os.path.join(OBJCACHE, key + ".o")
    if os.path.exists(out):
        return out
    srcpath = os.path.join(OBJCACHE, f"{key}.{os.getpid()}{ext}")
    with open(srcpath, "w") as f:
        f.write(src)
    if arch == "x86_64":
        cmd = ["gcc", "-c", srcpath, "-o", out + f".{os.getpid()}", *extra]
    else:
        cmd = ["clang", "--target=aarch64-linux-gnu", "-c", srcpath, "-o",
               out + f".{os.getpid()}", *extra]
    r = subprocess.run(cmd, stdout=subprocess.PIPE, stderr=subprocess.PIPE)
    os.unlink(srcpath)
    if r.returncode != 0:
        raise RuntimeError(f"assemble failed: {r.stderr.decode()}\n---\n{src}")
    os.replace(out + f".{os.getpid()}", out)
    return out


def pmap(func, items, procs=None, chunksize=None):
    """Ordered parallel map over a list using processes. A worker that dies (killed, out of memory)
    is a machinery error (exit 2), never a hang."""
    import concurrent.futures
    from concurrent.futures.process import BrokenProcessPool
    items = list(items)
    procs = procs or NPROC
    if procs <= 1 or len(items) <= 1:
        return [func(i) for i in items]
    if chunksize is None:
        chunksize = max(1, min(64, len(items) // (procs * 8)))
    ctx = multiprocessing.get_context("fork")
    try:
        with concurrent.futures.ProcessPoolExecutor(procs, mp_context=ctx) as ex:
            return list(ex.map(func, items, chunksize=chunksize))
    except BrokenProcessPool:
        print("MACHINERY: a worker process of the parallel map died", file=sys.stderr)
        sys.exit(EXIT_MACHINERY)


def _run_chunk(arg):
    func, chunk = arg
    return [func(i) for i in chunk]


def pmap_unordered(func, items, procs=None, chunksize=1):
    """Lazy parallel map: yields results as chunks complete (any order), so that a caller may stop
    early (wall caps). A dead worker is a machinery error (exit 2), never a hang. When the caller
    stops consuming, work not yet started is cancelled and the workers are terminated."""
    import concurrent.futures
    from concurrent.futures.process import BrokenProcessPool
    items = list(items)
    procs = procs or NPROC
    if procs <= 1 or len(items) <= 1:
        for i in items:
            yield func(i)
        return
    chunks = [items[i:i + chunksize] for i in range(0, len(items), chunksize)]
    ctx = multiprocessing.get_context("fork")
    ex = concurrent.futures.ProcessPoolExecutor(procs, mp_context=ctx)
    done = False
    try:
        futs = [ex.submit(_run_chunk, (func, c)) for c in chunks]
        for fut in concurrent.futures.as_completed(futs):
            try:
                res = fut.result()
            except BrokenProcessPool:
                print("MACHINERY: a worker process of the parallel map died", file=sys.stderr)
                sys.exit(EXIT_MACHINERY)
            for r in res:
                yield r
        done = True
    finally:
        if done:
            ex.shutdown(wait=True)
        else:
            alive = list((getattr(ex, "_processes", None) or {}).values())
            ex.shutdown(wait=False, cancel_futures=True)
            for p in alive:
                try:
                    p.terminate()
                except Exception:
                    pass


# ---------------------------------------------------------------------------------------------
# Findings, violations, evidence

def load_known():
    path = os.path.join(VERIF, "known_findings.json")
    with open(path) as f:
        data = json.load(f)
    return data


class Check:
    """Book-keeping for one run of one property's check."""

    def __init__(self, pid, level, argv=None):
        ap = argparse.ArgumentParser()
        ap.add_argument("--tier", default=os.environ.get("VERIF_TIER", "quick"),
                        choices=["quick", "thorough"])
        ap.add_argument("--replay", default=None)
        ap.add_argument("--no-build", action="store_true")
        self.args = ap.parse_args(argv)
        self.pid = pid
        self.level = level
        self.tier = self.args.tier
        self.seed = int(os.environ.get("VERIF_SEED", "0") or 0)
        self.t0 = time.time()
        self.violations = []   # list of (key, what, replay dict)
        self.known_hits = {}   # key -> count
        self.coverage = {}
        self.assumptions = []
        known = load_known()
        self.known = {f["key"]: f for f in known.get("findings", []) if f["property"] == pid}

    @property
    def thorough(self):
        return self.tier == "thorough"

    def violation(self, key, what, replay):
        """Record a violation. `key` identifies the specific failing member / site / history."""
        if key in self.known:
            self.known_hits[key] = self.known_hits.get(key, 0) + 1
            return False
        self.violations.append((key, what, replay))
        return True

    def machinery(self, msg):
        print(f"MACHINERY: property={self.pid} {msg}", file=sys.stderr)
        sys.exit(EXIT_MACHINERY)

    def finish(self):
        wall = time.time() - self.t0
        for key, n in sorted(self.known_hits.items()):
            print(f"KNOWN-FINDING: property={self.pid} key={key} hits={n} {self.known[key]['what']}")
        rdir = os.path.join(VERIF, "replays", self.pid)
        seen = set()
        nviol = 0
        for key, what, replay in self.violations:
            nviol += 1
            if key in seen:
                continue
            seen.add(key)
            if len(seen) > 200:
                continue
            os.makedirs(rdir, exist_ok=True)
            path = os.path.join(rdir, sha(key)[:12] + ".json")
            with open(path, "w") as f:
                json.dump({"property": self.pid, "key": key, "what": what, "replay": replay},
                          f, indent=1, default=str)
            print(f"VIOLATION property={self.pid} replay={path}")
            print(f"  key={key} {what}"[:600])
        cov = dict(self.coverage)
        cov.setdefault("known_findings_reproduced", sorted(self.known_hits))
        # Keys whose type the evidence schema fixes: keep them well-typed whatever a check put there
        # (the original value moves to <key>_detail).
        for k in ("evaluations", "distinct_nontrivial", "states", "transitions",
                  "traces_validated_against_impl", "obligations", "discharged", "programs",
                  "disagreements_checked"):
            v = cov.get(k)
            if v is not None and (isinstance(v, bool) or not isinstance(v, int)):
                cov[k + "_detail"] = v
                cov[k] = len(v) if hasattr(v, "__len__") else int(v)
        for k in ("rule", "explanation", "checker_cmd"):
            if k in cov and not isinstance(cov[k], str):
                cov[k] = json.dumps(cov[k], default=str)
        if "exhaustive" in cov and not isinstance(cov["exhaustive"], bool):
            cov["exhaustive"] = bool(cov["exhaustive"])
        if "samples" in cov and not isinstance(cov["samples"], list):
            cov["samples"] = [cov["samples"]]
        ev = {
            "property_id": self.pid,
            "tier": self.tier,
            "seed": self.seed,
            "level": self.level,
            "coverage": cov,
            "assumptions": self.assumptions,
            "wall_s": round(wall, 2),
            "violations": nviol,
        }
        os.makedirs(os.path.join(VERIF, "evidence"), exist_ok=True)
        tmp = os.path.join(VERIF, "evidence", f".{self.pid}.{os.getpid()}.tmp")
        with open(tmp, "w") as f:
            json.dump(ev, f, indent=1, default=str)
        os.replace(tmp, os.path.join(VERIF, "evidence", f"{self.pid}.json"))
        summary = {k: v for k, v in cov.items() if isinstance(v, (int, float, bool, str))}
        print(f"{self.pid} tier={self.tier} wall={wall:.1f}s violations={nviol} "
              f"known={len(self.known_hits)} {json.dumps(summary)[:400]}")
        sys.exit(EXIT_VIOLATION if nviol else EXIT_OK)
