"""ELF well-formedness monitor (property C04), transcribed from the ELF gABI (chapters 4 and 5), the
LSB (PT_GNU_EH_FRAME, PT_GNU_RELRO) and what the Linux kernel / glibc do with the program headers
(`_dl_protect_relro`). Independent of wild; calibrated against GNU ld 2.40 and ld.lld 14 outputs
(checks/c04.py runs that calibration). Usable by any check on any output:

    from wellformed import check_wellformed
    for key, message in check_wellformed(path_or_Elf):   # [] = well formed
        ...

Every rule has its own narrow key (the part before the first ':' names the rule). The monitor reads
only the file; it does not know the link options. RELRO rules therefore classify sections by what
any linker must agree on: the sections named in MUST_RELRO have to be inside the RELRO segment when
there is one (and inside what glibc's `_dl_protect_relro` actually protects with 4 KiB pages:
[p_vaddr rounded down, p_vaddr + p_memsz rounded down)); a writable section that is neither in
MUST_RELRO nor linker-synthesised / TLS (EITHER_RELRO: .got, .got.plt, .dynamic, .relro_padding,
.tdata, .tbss ...) is ordinary data and must not fall into the protected range for any page size
from 4 KiB up to the largest PT_LOAD alignment; EITHER_RELRO sections may be on either side.

Rules, for ET_EXEC / ET_DYN (R = also for ET_REL, A = advisory, only with strict=True):
  ehdr-*       R  header fields valid; tables inside the file
  shstrtab     R  section-name string table valid, every name in range and NUL-terminated
  sec-null     R  section header 0 is the null section (gABI figure 4-10: all fields zero)
  sec-align    R  sh_addralign is 0 or a power of two and sh_addr = 0 (mod sh_addralign)
  sec-extent   R  every non-NOBITS section lies inside the file
  file-overlap R  no two non-empty, non-NOBITS sections share a file byte (key names whether both
                  are SHF_ALLOC), none overlaps the ELF header or the section header table
  symtab-*     R  at most one SHT_SYMTAB / SHT_DYNSYM; entsize, string table link, names inside
                  the string table, locals before globals with sh_info = first non-local,
                  st_shndx in range
  rel-*        R  (ET_REL only) no program headers; relocation sections link a symbol table and a
                  target section, offsets inside the target, symbol indices in range
  addr-overlap    no two non-empty SHF_ALLOC sections share an address (.tbss-like TLS NOBITS
                  sections take no address space and are exempt)
  sec-in-load     every non-empty SHF_ALLOC section lies inside exactly one PT_LOAD, in memory and
                  (non-NOBITS) in the file, at the same delta
  sec-perm        that PT_LOAD has PF_W if SHF_WRITE and PF_X if SHF_EXECINSTR
  nobits-zero     a NOBITS section that a PT_LOAD backs with file bytes is backed by zeros
  load-wx         no PT_LOAD has both PF_W and PF_X
  load-congruent  p_offset = p_vaddr (mod p_align) for every PT_LOAD; p_align 0/1 or a power of 2
  load-size       p_filesz <= p_memsz and the file part lies inside the file
  load-order      PT_LOAD entries ascend by p_vaddr and do not overlap in memory
  load-page    A  two PT_LOADs with different permissions do not share a 4 KiB page of memory
  tls-*           exactly one PT_TLS iff there are non-empty TLS sections; it starts at the first
                  TLS section, ends at the end of the last one (GNU ld rounds p_memsz up to
                  p_align: accepted), the initialised part covers the PROGBITS ones (a longer
                  p_filesz must be backed by zeros), p_align >= every TLS section's alignment
  relro-*         see above; additionally the segment starts inside a PT_LOAD and every PT_LOAD it
                  intersects is writable and not executable
  dynamic / interp / ehframehdr   PT_DYNAMIC = .dynamic, PT_INTERP = .interp (NUL-terminated),
                  PT_GNU_EH_FRAME = .eh_frame_hdr: same address, offset, file and memory size
  phdr-*          PT_PHDR describes exactly the program header table, lies in a PT_LOAD and
                  precedes every PT_LOAD entry; PT_INTERP precedes every PT_LOAD entry
  seg-in-load     PT_DYNAMIC / PT_GNU_EH_FRAME / PT_NOTE lie inside one PT_LOAD
"""
import struct

import elfread
from elfread import (ET_REL, ET_EXEC, ET_DYN, EM_X86_64, EM_AARCH64, SHT_NULL, SHT_NOBITS,
                     SHT_STRTAB, SHT_SYMTAB, SHT_DYNSYM, SHT_DYNAMIC, SHT_RELA, SHT_REL,
                     SHF_WRITE, SHF_ALLOC, SHF_EXECINSTR, SHF_TLS, SHN_LORESERVE, SHN_XINDEX,
                     PT_LOAD, PT_DYNAMIC, PT_INTERP, PT_NOTE, PT_PHDR, PT_TLS, PT_GNU_EH_FRAME,
                     PT_GNU_RELRO, PF_X, PF_W, ElfError)

# Sections every linker has to protect when it emits PT_GNU_RELRO (written only during relocation
# processing by definition of their names).
MUST_RELRO = ('.data.rel.ro', '.init_array', '.fini_array', '.preinit_array', '.ctors', '.dtors',
              '.jcr')
# Linker-synthesised or TLS-template writable sections that may be on either side.
EITHER_RELRO = ('.dynamic', '.got', '.got.plt', '.relro_padding', '.tdata', '.tbss', '.toc',
                '.tm_clone_table', '.plt', '.plt.got', '.plt.sec', '.iplt', '.igot', '.igot.plt')


def _pow2(x):
    return x != 0 and x & (x - 1) == 0


def _rng(lo, hi):
    return '[%#x,%#x)' % (lo, hi)


def is_must_relro(name):
    return any(name == n or name.startswith(n + '.') for n in MUST_RELRO)


def is_either_relro(name):
    return any(name == n or name.startswith(n + '.') for n in EITHER_RELRO)


def check_wellformed(path_or_elf, page=4096, strict=False):
    """-> list of (key, message); [] when the file satisfies every rule. strict=True adds the
    advisory rules (marked A in the module docstring) that reference linkers break under linker
    scripts."""
    out = []

    def bad(key, msg):
        out.append((key, msg))

    try:
        e = path_or_elf if isinstance(path_or_elf, elfread.Elf) else elfread.Elf(path_or_elf)
    except ElfError as ex:
        text = str(ex)
        key = 'shstrtab' if ('name' in text or 'e_shstrndx' in text) else 'ehdr-parse'
        return [(key, 'unreadable: ' + text)]
    try:
        _check(e, bad, page, strict)
    except ElfError as ex:
        bad('malformed', str(ex))
    return out


def _check(e, bad, page, strict):
    n = len(e.data)
    # ------------------------------------------------------------------ ELF header
    if e.e_ident[6] != 1 or e.e_version != 1:
        bad('ehdr-version', 'EI_VERSION=%d e_version=%d' % (e.e_ident[6], e.e_version))
    if e.e_type not in (ET_REL, ET_EXEC, ET_DYN):
        bad('ehdr-type', 'e_type=%d' % e.e_type)
    if e.e_machine not in (EM_X86_64, EM_AARCH64):
        bad('ehdr-machine', 'e_machine=%d' % e.e_machine)
    if e.e_ehsize != 64:
        bad('ehdr-ehsize', 'e_ehsize=%d' % e.e_ehsize)
    if e.e_phnum and (e.e_phentsize != 56 or e.e_phoff == 0):
        bad('ehdr-phdr', 'e_phnum=%d e_phentsize=%d e_phoff=%#x' % (e.e_phnum, e.e_phentsize,
                                                                 e.e_phoff))
    if e.e_shnum and e.e_shentsize != 64:
        bad('ehdr-shdr', 'e_shentsize=%d' % e.e_shentsize)
    if e.e_shoff and e.e_shoff % 8:
        bad('ehdr-shoff-align', 'e_shoff=%#x is not 8-aligned' % e.e_shoff)
    if e.e_phoff and e.e_phoff % 8:
        bad('ehdr-phoff-align', 'e_phoff=%#x is not 8-aligned' % e.e_phoff)
    if e.e_shoff and e.e_shoff + 64 * e.e_shnum > n:
        bad('ehdr-shdr', 'section header table %s outside file of %#x bytes'
            % (_rng(e.e_shoff, e.e_shoff + 64 * e.e_shnum), n))
    if e.e_phoff and e.e_phoff + 56 * e.e_phnum > n:
        bad('ehdr-phdr', 'program header table outside file')
    is_rel = e.e_type == ET_REL
    secs = e.sections
    # ------------------------------------------------------------------ sections (all file types)
    if secs:
        s0 = secs[0]
        extended = e.e_shnum_raw == 0 or e.e_shstrndx_raw == SHN_XINDEX or e.e_phnum_raw == 0xffff
        if s0.sh_type != SHT_NULL or s0.sh_name or s0.sh_flags or s0.sh_addr or s0.sh_offset or \
                s0.sh_addralign or s0.sh_entsize or (not extended and (s0.sh_size or s0.sh_link
                                                                       or s0.sh_info)):
            bad('sec-null', 'section header 0 is not the null section: %r' % s0)
        if e.e_shstrndx == 0:
            bad('shstrtab', 'sections present but e_shstrndx is SHN_UNDEF')
    if e.e_shoff and secs:
        lo, hi = e.e_shoff, e.e_shoff + 64 * len(secs)
        for s in secs:
            if s.sh_type not in (SHT_NOBITS, SHT_NULL) and s.sh_size and \
                    s.sh_offset < hi and lo < s.sh_offset + s.sh_size:
                bad('file-overlap:shdr-table', '%s %s overlaps the section header table %s'
                    % (s.name, _rng(s.sh_offset, s.sh_offset + s.sh_size), _rng(lo, hi)))
    filed = []
    for s in secs[1:]:
        if s.sh_addralign and not _pow2(s.sh_addralign):
            bad('sec-align:not-pow2', '%s sh_addralign=%#x' % (s.name, s.sh_addralign))
        elif s.sh_addralign > 1 and s.sh_addr % s.sh_addralign:
            bad('sec-align:addr', '%s sh_addr=%#x is not a multiple of sh_addralign=%#x'
                % (s.name, s.sh_addr, s.sh_addralign))
        if s.sh_type in (SHT_NOBITS, SHT_NULL):
            continue
        if s.sh_offset + s.sh_size > n:
            bad('sec-extent', '%s %s outside file of %#x bytes'
                % (s.name, _rng(s.sh_offset, s.sh_offset + s.sh_size), n))
        if s.sh_size:
            filed.append((s.sh_offset, s.sh_offset + s.sh_size, s))
            if s.sh_offset < 64:
                bad('file-overlap:ehdr', '%s at file offset %#x overlaps the ELF header'
                    % (s.name, s.sh_offset))
    filed.sort(key=lambda t: (t[0], t[1]))
    reach = None
    for lo, hi, s in filed:
        if reach is not None and lo < reach[1]:
            both = bool(s.sh_flags & SHF_ALLOC) and bool(reach[2].sh_flags & SHF_ALLOC)
            bad('file-overlap:' + ('alloc' if both else 'nonalloc'),
                '%s %s and %s %s share file bytes' % (reach[2].name, _rng(reach[0], reach[1]),
                                                      s.name, _rng(lo, hi)))
        if reach is None or hi > reach[1]:
            reach = (lo, hi, s)
    _check_symtabs(e, bad)
    if is_rel:
        if e.e_phnum:
            bad('rel-phdrs', 'relocatable file has %d program headers' % e.e_phnum)
        _check_rel_sections(e, bad)
        return
    # ------------------------------------------------------------------ segments
    segs = e.segments
    loads = [p for p in segs if p.p_type == PT_LOAD]
    for p in segs:
        if p.p_type != PT_LOAD and p.p_filesz and p.p_offset + p.p_filesz > n:
            bad('seg-extent', 'segment %d (type %#x) file part %s outside file'
                % (p.index, p.p_type, _rng(p.p_offset, p.p_offset + p.p_filesz)))
    prev = None
    for p in loads:
        if p.p_flags & PF_W and p.p_flags & PF_X:
            bad('load-wx', 'PT_LOAD %d at %#x is writable and executable' % (p.index, p.p_vaddr))
        if p.p_align > 1:
            if not _pow2(p.p_align):
                bad('load-congruent:align', 'PT_LOAD %d p_align=%#x' % (p.index, p.p_align))
            elif (p.p_offset - p.p_vaddr) % p.p_align:
                bad('load-congruent', 'PT_LOAD %d p_offset=%#x p_vaddr=%#x p_align=%#x'
                    % (p.index, p.p_offset, p.p_vaddr, p.p_align))
        if p.p_filesz > p.p_memsz:
            bad('load-size:filesz>memsz', 'PT_LOAD %d p_filesz=%#x p_memsz=%#x'
                % (p.index, p.p_filesz, p.p_memsz))
        if p.p_offset + p.p_filesz > n:
            bad('load-size:extent', 'PT_LOAD %d file part %s outside file of %#x bytes'
                % (p.index, _rng(p.p_offset, p.p_offset + p.p_filesz), n))
        if prev is not None:
            if p.p_vaddr < prev.p_vaddr:
                bad('load-order', 'PT_LOAD %d p_vaddr=%#x follows PT_LOAD %d p_vaddr=%#x'
                    % (p.index, p.p_vaddr, prev.index, prev.p_vaddr))
        prev = p
    byaddr = sorted((p for p in loads if p.p_memsz), key=lambda p: p.p_vaddr)
    for a, b in zip(byaddr, byaddr[1:]):
        if b.p_vaddr < a.p_vaddr + a.p_memsz:
            bad('load-order:overlap', 'PT_LOAD %d %s and PT_LOAD %d %s overlap in memory'
                % (a.index, _rng(a.p_vaddr, a.p_vaddr + a.p_memsz), b.index,
                   _rng(b.p_vaddr, b.p_vaddr + b.p_memsz)))
        elif strict and a.p_flags != b.p_flags and \
                b.p_vaddr // page == (a.p_vaddr + a.p_memsz - 1) // page:
            bad('load-page', 'PT_LOAD %d (flags %d) ends at %#x and PT_LOAD %d (flags %d) starts '
                'at %#x: same %d-byte page' % (a.index, a.p_flags, a.p_vaddr + a.p_memsz,
                                                b.index, b.p_flags, b.p_vaddr, page))

    def load_of(lo, hi):
        """PT_LOADs whose memory range contains [lo, hi)."""
        return [p for p in loads if p.p_vaddr <= lo and hi <= p.p_vaddr + p.p_memsz]

    # ------------------------------------------------------------------ allocated sections
    alloc = [s for s in secs[1:] if s.sh_flags & SHF_ALLOC]

    def takes_space(s):
        return s.sh_size and not (s.sh_type == SHT_NOBITS and s.sh_flags & SHF_TLS)

    inmem = sorted((s for s in alloc if takes_space(s)), key=lambda s: (s.sh_addr, s.sh_size))
    reach = None
    for s in inmem:
        if reach is not None and s.sh_addr < reach.sh_addr + reach.sh_size:
            bad('addr-overlap', '%s %s and %s %s share addresses'
                % (reach.name, _rng(reach.sh_addr, reach.sh_addr + reach.sh_size), s.name,
                   _rng(s.sh_addr, s.sh_addr + s.sh_size)))
        if reach is None or s.sh_addr + s.sh_size > reach.sh_addr + reach.sh_size:
            reach = s
    for s in inmem:
        lo, hi = s.sh_addr, s.sh_addr + s.sh_size
        ps = load_of(lo, hi)
        if len(ps) != 1:
            bad('sec-in-load:' + ('none' if not ps else 'several'),
                '%s %s lies in %d PT_LOAD segments' % (s.name, _rng(lo, hi), len(ps)))
            continue
        p = ps[0]
        if s.sh_type != SHT_NOBITS:
            if s.sh_offset - p.p_offset != lo - p.p_vaddr:
                bad('sec-in-load:delta', '%s sh_offset=%#x sh_addr=%#x but PT_LOAD %d has '
                    'p_offset=%#x p_vaddr=%#x' % (s.name, s.sh_offset, lo, p.index, p.p_offset,
                                                  p.p_vaddr))
            elif hi > p.p_vaddr + p.p_filesz:
                bad('sec-in-load:filesz', '%s %s extends beyond the file-backed part of PT_LOAD '
                    '%d (ends %#x)' % (s.name, _rng(lo, hi), p.index, p.p_vaddr + p.p_filesz))
        else:
            flo, fhi = max(lo, p.p_vaddr), min(hi, p.p_vaddr + p.p_filesz)
            if flo < fhi:
                raw = e._slice(p.p_offset + (flo - p.p_vaddr), fhi - flo, 'NOBITS backing')
                if raw.strip(b'\0'):
                    bad('nobits-zero', 'NOBITS %s %s is backed by non-zero file bytes of '
                        'PT_LOAD %d' % (s.name, _rng(lo, hi), p.index))
        need = (PF_W if s.sh_flags & SHF_WRITE else 0) | (PF_X if s.sh_flags & SHF_EXECINSTR else 0)
        if need & ~p.p_flags:
            bad('sec-perm:' + ('W' if need & ~p.p_flags & PF_W else 'X'),
                '%s (sh_flags %#x) lies in PT_LOAD %d with p_flags %d'
                % (s.name, s.sh_flags, p.index, p.p_flags))

    # ------------------------------------------------------------------ PT_TLS
    tls_secs = [s for s in alloc if s.sh_flags & SHF_TLS]
    tls_segs = [p for p in segs if p.p_type == PT_TLS]
    nonempty_tls = [s for s in tls_secs if s.sh_size]
    if len(tls_segs) > 1:
        bad('tls-count', '%d PT_TLS segments' % len(tls_segs))
    elif nonempty_tls and not tls_segs:
        bad('tls-missing', 'TLS sections %s but no PT_TLS' % [s.name for s in nonempty_tls])
    elif tls_segs and not tls_secs and secs:
        bad('tls-spurious', 'PT_TLS but no SHF_TLS section')
    elif tls_segs and nonempty_tls:
        p = tls_segs[0]
        first = min(nonempty_tls, key=lambda s: s.sh_addr)
        end = max(s.sh_addr + s.sh_size for s in nonempty_tls)
        filed_tls = [s for s in nonempty_tls if s.sh_type != SHT_NOBITS]
        fend = max((s.sh_addr + s.sh_size for s in filed_tls), default=p.p_vaddr)
        starts = {first.sh_addr, min(s.sh_addr for s in tls_secs)}
        if p.p_vaddr not in starts:
            bad('tls-start', 'PT_TLS p_vaddr=%#x but the first TLS section %s is at %#x'
                % (p.p_vaddr, first.name, first.sh_addr))
        else:
            # GNU ld rounds p_memsz up to p_align; the end must not leave any TLS byte out and
            # must not reach beyond the rounded end.
            rounded = -(-(end - p.p_vaddr) // max(p.p_align, 1)) * max(p.p_align, 1)
            if not end - p.p_vaddr <= p.p_memsz <= rounded:
                bad('tls-memsz', 'PT_TLS p_memsz=%#x but TLS sections span %#x bytes'
                    % (p.p_memsz, end - p.p_vaddr))
            if not fend - p.p_vaddr <= p.p_filesz <= p.p_memsz:
                bad('tls-filesz', 'PT_TLS p_filesz=%#x p_memsz=%#x but initialised TLS sections '
                    'span %#x bytes' % (p.p_filesz, p.p_memsz, fend - p.p_vaddr))
            elif p.p_filesz > fend - p.p_vaddr:
                # A longer initialisation image is equivalent iff the extra bytes are zero.
                extra = e._slice(p.p_offset + (fend - p.p_vaddr), p.p_filesz - (fend - p.p_vaddr),
                                 'PT_TLS tail')
                if extra.strip(b'\0'):
                    bad('tls-filesz:nonzero', 'PT_TLS p_filesz=%#x extends %#x bytes beyond the '
                        'initialised TLS sections and those file bytes are not zero'
                        % (p.p_filesz, p.p_filesz - (fend - p.p_vaddr)))
            if filed_tls and first.sh_type != SHT_NOBITS and \
                    p.p_offset - first.sh_offset != p.p_vaddr - first.sh_addr:
                bad('tls-offset', 'PT_TLS p_offset=%#x but %s is at file offset %#x'
                    % (p.p_offset, first.name, first.sh_offset))
        # A linker may let an empty TLS section's alignment count (lld does): only too small a
        # p_align is wrong.
        want = max(s.sh_addralign for s in nonempty_tls)
        if p.p_align < want or (p.p_align > 1 and not _pow2(p.p_align)):
            bad('tls-align', 'PT_TLS p_align=%#x but the largest TLS section alignment is %#x'
                % (p.p_align, want))

    # ------------------------------------------------------------------ PT_GNU_RELRO
    relros = [p for p in segs if p.p_type == PT_GNU_RELRO]
    if len(relros) > 1:
        bad('relro-count', '%d PT_GNU_RELRO segments' % len(relros))
    for p in relros[:1]:
        lo, hi = p.p_vaddr, p.p_vaddr + p.p_memsz
        if p.p_memsz:
            # GNU ld and lld let the segment span several PT_LOADs when alignment gaps split the
            # RELRO sections; what must hold is that everything it touches is writable data.
            ps = [q for q in loads if q.p_vaddr < hi and lo < q.p_vaddr + q.p_memsz]
            if not ps:
                pass     # covers nothing at all (lld emits this for empty RELRO sections)
            elif not any(q.p_vaddr <= lo < q.p_vaddr + q.p_memsz for q in ps):
                bad('relro-in-load', 'PT_GNU_RELRO %s does not start inside a PT_LOAD'
                    % _rng(lo, hi))
            else:
                for q in ps:
                    if not q.p_flags & PF_W or q.p_flags & PF_X:
                        bad('relro-in-load:not-writable', 'PT_GNU_RELRO %s intersects PT_LOAD %d '
                            'with p_flags %d' % (_rng(lo, hi), q.index, q.p_flags))
                q = [q for q in ps if q.p_vaddr <= lo < q.p_vaddr + q.p_memsz][0]
                if p.p_offset - q.p_offset != lo - q.p_vaddr:
                    bad('relro-in-load:delta', 'PT_GNU_RELRO p_offset=%#x p_vaddr=%#x '
                        'inconsistent with PT_LOAD %d' % (p.p_offset, lo, q.index))
        maxpage = max([page] + [q.p_align for q in loads if _pow2(q.p_align)])
        plo, phi = lo & -page, hi & -page          # what glibc's _dl_protect_relro protects
        for s in inmem:
            if not s.sh_flags & SHF_WRITE:
                continue
            a, b = s.sh_addr, s.sh_addr + s.sh_size
            if is_must_relro(s.name):
                if not (lo <= a and b <= hi):
                    bad('relro-cover:outside', '%s %s is not inside PT_GNU_RELRO %s'
                        % (s.name, _rng(a, b), _rng(lo, hi)))
                elif not (plo <= a and b <= phi):
                    bad('relro-cover:unprotected', '%s %s is inside PT_GNU_RELRO %s but glibc '
                        'protects only %s with %d-byte pages'
                        % (s.name, _rng(a, b), _rng(lo, hi), _rng(plo, phi), page))
            elif not is_either_relro(s.name):
                if a < hi and lo < b:
                    bad('relro-exact:inside', 'writable non-RELRO %s %s intersects '
                        'PT_GNU_RELRO %s' % (s.name, _rng(a, b), _rng(lo, hi)))
                else:
                    pg = page
                    while pg <= maxpage:
                        if a < (hi & -pg) and (lo & -pg) < b:
                            bad('relro-exact:protected', 'writable non-RELRO %s %s would be made '
                                'read-only: glibc protects %s with %d-byte pages'
                                % (s.name, _rng(a, b), _rng(lo & -pg, hi & -pg), pg))
                            break
                        pg *= 2

    # ------------------------------------------------------------------ segment = section
    def same(ptype, pname, sec, key):
        ps = [p for p in segs if p.p_type == ptype]
        if len(ps) > 1:
            bad(key + ':count', '%d %s segments' % (len(ps), pname))
            return None
        if not ps:
            if sec is not None and sec.sh_flags & SHF_ALLOC and sec.sh_size:
                bad(key + ':missing', '%s present but no %s' % (sec.name, pname))
            return None
        p = ps[0]
        if sec is None:
            if secs:
                bad(key + ':no-section', '%s present but no matching section' % pname)
            return p
        if (p.p_vaddr, p.p_offset, p.p_filesz, p.p_memsz) != (sec.sh_addr, sec.sh_offset,
                                                                sec.sh_size, sec.sh_size):
            bad(key, '%s vaddr=%#x off=%#x filesz=%#x memsz=%#x but %s addr=%#x off=%#x size=%#x'
                % (pname, p.p_vaddr, p.p_offset, p.p_filesz, p.p_memsz, sec.name, sec.sh_addr,
                   sec.sh_offset, sec.sh_size))
        return p

    dyn = [s for s in secs if s.sh_type == SHT_DYNAMIC]
    same(PT_DYNAMIC, 'PT_DYNAMIC', dyn[0] if dyn else None, 'dynamic')
    pi = same(PT_INTERP, 'PT_INTERP', e.section('.interp'), 'interp')
    if pi is not None and pi.p_filesz and pi.p_offset + pi.p_filesz <= n:
        raw = pi.data
        if raw[-1:] != b'\0' or b'\0' in raw[:-1]:
            bad('interp:string', 'PT_INTERP contents %r are not one NUL-terminated string'
                % raw[:80])
    same(PT_GNU_EH_FRAME, 'PT_GNU_EH_FRAME', e.section('.eh_frame_hdr'), 'ehframehdr')
    first_load = min((p.index for p in loads), default=None)
    for p in segs:
        if p.p_type == PT_PHDR:
            if p.p_offset != e.e_phoff or p.p_filesz != 56 * e.e_phnum or p.p_memsz != p.p_filesz:
                bad('phdr-extent', 'PT_PHDR off=%#x filesz=%#x memsz=%#x but the table is at %#x, '
                    '%#x bytes' % (p.p_offset, p.p_filesz, p.p_memsz, e.e_phoff, 56 * e.e_phnum))
            ps = load_of(p.p_vaddr, p.p_vaddr + p.p_memsz)
            if len(ps) != 1 or ps[0].p_offset - p.p_offset != ps[0].p_vaddr - p.p_vaddr or \
                    p.p_offset + p.p_filesz > ps[0].p_offset + ps[0].p_filesz:
                bad('phdr-in-load', 'PT_PHDR vaddr=%#x off=%#x is not inside one PT_LOAD '
                    'consistently' % (p.p_vaddr, p.p_offset))
            if first_load is not None and p.index > first_load:
                bad('phdr-order', 'PT_PHDR (entry %d) follows a PT_LOAD entry (%d)'
                    % (p.index, first_load))
        elif p.p_type == PT_INTERP and first_load is not None and p.index > first_load:
            bad('phdr-order:interp', 'PT_INTERP (entry %d) follows a PT_LOAD entry (%d)'
                % (p.index, first_load))
        elif p.p_type in (PT_DYNAMIC, PT_GNU_EH_FRAME, PT_NOTE) and p.p_memsz:
            ps = load_of(p.p_vaddr, p.p_vaddr + p.p_memsz)
            if len(ps) != 1 or ps[0].p_offset - p.p_offset != ps[0].p_vaddr - p.p_vaddr:
                bad('seg-in-load', 'segment %d (type %#x) vaddr=%#x off=%#x is not inside one '
                    'PT_LOAD consistently' % (p.index, p.p_type, p.p_vaddr, p.p_offset))
    if [p for p in segs if p.p_type == PT_PHDR][1:]:
        bad('phdr-count', 'more than one PT_PHDR')


def _check_symtabs(e, bad):
    for ty, nm in ((SHT_SYMTAB, 'SHT_SYMTAB'), (SHT_DYNSYM, 'SHT_DYNSYM')):
        k = [s.name for s in e.sections if s.sh_type == ty]
        if len(k) > 1:
            bad('symtab-count', '%d sections of type %s: %s' % (len(k), nm, k))
    for s in e.sections:
        if s.sh_type not in (SHT_SYMTAB, SHT_DYNSYM):
            continue
        if s.sh_entsize != 24 or s.sh_size % 24:
            bad('symtab-entsize', '%s sh_entsize=%d sh_size=%#x' % (s.name, s.sh_entsize, s.sh_size))
            continue
        if not 0 < s.sh_link < len(e.sections) or e.sections[s.sh_link].sh_type != SHT_STRTAB:
            bad('symtab-link', '%s sh_link=%d is not a string table' % (s.name, s.sh_link))
            continue
        strs = e.sections[s.sh_link].data
        raw = s.data
        nsym = len(raw) // 24
        if nsym and raw[:24] != bytes(24):
            bad('symtab-null', '%s symbol 0 is not the null symbol' % s.name)
        first_global = None
        for i in range(nsym):
            st_name, info, _other, shndx, _value, _size = struct.unpack_from('<IBBHQQ', raw, i * 24)
            if st_name >= max(len(strs), 1) or strs.find(b'\0', st_name) < 0:
                bad('symtab-name', '%s symbol %d st_name=%#x outside the string table'
                    % (s.name, i, st_name))
                break
            if info >> 4 == 0:
                if first_global is not None:
                    bad('symtab-locals', '%s local symbol %d follows global symbol %d'
                        % (s.name, i, first_global))
                    break
            elif first_global is None:
                first_global = i
            if shndx and shndx < SHN_LORESERVE and shndx >= len(e.sections):
                bad('symtab-shndx', '%s symbol %d st_shndx=%d with %d sections'
                    % (s.name, i, shndx, len(e.sections)))
                break
        else:
            want = nsym if first_global is None else first_global
            if s.sh_info != want:
                bad('symtab-info', '%s sh_info=%d but the first non-local symbol is %d'
                    % (s.name, s.sh_info, want))


def _check_rel_sections(e, bad):
    """Relocation sections of a relocatable file: link/info valid, offsets inside the target."""
    for s in e.sections:
        if s.sh_type not in (SHT_RELA, SHT_REL):
            continue
        ent = 24 if s.sh_type == SHT_RELA else 16
        if s.sh_entsize != ent or s.sh_size % ent:
            bad('rel-entsize', '%s sh_entsize=%d sh_size=%#x' % (s.name, s.sh_entsize, s.sh_size))
            continue
        if not 0 < s.sh_link < len(e.sections) or e.sections[s.sh_link].sh_type != SHT_SYMTAB:
            bad('rel-link', '%s sh_link=%d is not a symbol table' % (s.name, s.sh_link))
            continue
        if not 0 < s.sh_info < len(e.sections):
            bad('rel-info', '%s sh_info=%d is not a section' % (s.name, s.sh_info))
            continue
        tgt = e.sections[s.sh_info]
        nsym = e.sections[s.sh_link].sh_size // 24
        raw = s.data
        for i in range(len(raw) // ent):
            off, info = struct.unpack_from('<QQ', raw, i * ent)
            if off >= max(tgt.sh_size, 1) and not (off == 0 and tgt.sh_size == 0):
                bad('rel-offset', '%s entry %d r_offset=%#x outside %s of size %#x'
                    % (s.name, i, off, tgt.name, tgt.sh_size))
                break
            if info >> 32 >= nsym:
                bad('rel-sym', '%s entry %d symbol index %d with %d symbols'
                    % (s.name, i, info >> 32, nsym))
                break
