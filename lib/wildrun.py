"""Running wild for the program-family checks.

Process creation is the scarce resource in this sandbox (~350 spawns/s in total, however many
cores are used), so bulk links go through wild's in-process server mode (feature `verif`,
WILD_VERIF_SERVE=1): one long-lived wild process per worker, one request per link, ~1-4 ms each.
Use `link_subprocess` only when the property is about the real process (exit status, fork,
files touched).
"""
import multiprocessing
import os

import vlib
from wsched import Server, threads_key

_SRV = {}


def server_link(argv, cwd=None, env=None, wild=None, timeout=60):
    """Link in this worker's server. argv excludes the program name. Returns (rc, message) where rc
    is 0 (ok), 1 (wild returned an error; message is the diagnostic, warnings appended as
    'WARNING: ...' lines), 101 (panic), 'timeout', or the exit status of a died server (negative =
    signal)."""
    wild = wild or vlib.WILD
    # One server per distinct --threads value (the pool is sized by the first link).
    key = (os.getpid(), wild, threads_key(argv))
    srv = _SRV.get(key)
    if srv is None:
        srv = _SRV[key] = Server(wild)
    return srv.request("off", "", "", 200000, cwd or os.getcwd(), env or {}, list(argv), timeout)


def link_subprocess(argv, cwd=None, env=None, wild=None, timeout=60):
    """Real subprocess. Returns (rc, stdout bytes, stderr bytes)."""
    return vlib.run([wild or vlib.WILD, *argv], env=env, cwd=cwd, timeout=timeout)


def _job(job):
    func, item = job
    return func(item)


def pmap(func, items, procs=None, chunksize=None):
    """Like vlib.pmap; every worker process keeps its own wild server across items, so `func` can
    call `server_link` freely."""
    return vlib.pmap(func, items, procs=procs, chunksize=chunksize)
