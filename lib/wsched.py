"""Stateless explorer over the controlled scheduler compiled into wild (feature `verif`).

One *execution* is one run of the real wild binary with WILD_VERIF_SCHED=<choice prefix>: the
scheduler inside wild serialises the tasks of the selected region, takes choice[k] at the k-th
non-trivial decision (0 = canonical default: keep running the previous task if it is still
enabled, else the lowest task id) and logs every decision and observation event to a trace file.

`explore` enumerates every choice sequence whose cost is within the bound. Two cost models:
  * "preempt":   a non-default choice costs 1 only when the previously running task was still
                 enabled (a preemption); switches at task end / block are free (CHESS).
  * "deviation": every non-default choice costs 1.
"""
import hashlib
import os
import shutil
import sys
import time
import multiprocessing

from vlib import run, file_sha, NPROC

EXIT_DEADLOCK, EXIT_MACHINERY, EXIT_HORIZON = 93, 94, 95


class Execution:
    __slots__ = ("prefix", "rc", "stderr", "out_sha", "decisions", "events", "xlines", "regions",
                 "dlines_hash", "wall")

    def choices(self):
        return [d["c"] for d in self.decisions]


REGION_EVENTS = {
    "gc": {"sent", "handled", "enter_group", "exit_group", "slot", "final_slot"},
    "resolve": {"file_requested"},
    "merge": {"merge_begin", "merge_end", "bucket_take", "bucket_park", "bucket_done", "publish",
              "reserve_ok", "reserve_fail"},
}


def parse_trace(path, regions_wanted=None):
    """Events of regions that are not being scheduled come from free-running threads, so their
    position in the trace is not deterministic; they are dropped."""
    keep = None
    if regions_wanted:
        keep = set()
        for r in regions_wanted.split(","):
            keep |= REGION_EVENTS.get(r, set())
    decisions, events, xlines, regions, dl = [], [], [], [], []
    try:
        with open(path) as f:
            lines = f.read().split("\n")
    except OSError:
        lines = []
    for line in lines:
        if not line:
            continue
        tag = line[0]
        if tag == "D":
            parts = line.split(" ")
            d = {"k": int(parts[1])}
            for p in parts[2:]:
                k, _, v = p.partition("=")
                d[k] = v
            d["n"] = int(d["n"]); d["c"] = int(d["c"]); d["pe"] = int(d["pe"]); d["t"] = int(d["t"])
            decisions.append(d)
            # Everything about the decision except which alternative was taken.
            # The state fingerprint is a statistic only: it is NOT part of the replay-divergence
            # check (under heavy machine load it was once seen to differ between two runs of the
            # same schedule while the enabled sets and choices were identical).
            dl.append(f"{d['k']} {d['n']} {d['pe']} {d['en']}")
        elif tag == "E":
            parts = line.split(" ")
            if keep is not None and parts[1] not in keep:
                continue
            events.append((parts[1], int(parts[2]), int(parts[3]), int(parts[4]), int(parts[5][2:])))
        elif tag == "X":
            xlines.append(line)
        elif tag == "R":
            regions.append(line)
    return decisions, events, xlines, regions, dl


def prefix_hash(dlines, upto):
    """Hash of the decision records before index `upto` plus the alternatives available at it."""
    h = hashlib.sha256()
    for line in dlines[:upto + 1]:
        h.update(line.encode())
        h.update(b"\n")
    return h.hexdigest()[:16]


class Server:
    """A wild process in server mode (WILD_VERIF_SERVE): runs one link per request line."""

    def __init__(self, wild):
        self.wild = wild
        self.p = None

    def start(self):
        import subprocess
        self.env_keys = set()
        env = dict(os.environ)
        env["WILD_VERIF_SERVE"] = "1"
        self.p = subprocess.Popen([self.wild], env=env, stdin=subprocess.PIPE,
                                  stdout=subprocess.PIPE, stderr=subprocess.PIPE, bufsize=0)
        self.buf = b""

    def stop(self):
        if self.p is not None:
            try:
                self.p.kill()
                self.p.wait()
            except OSError:
                pass
            self.p = None

    def request(self, sched, regions, trace, horizon, cwd, env, argv, timeout):
        """Returns (rc, message). rc is 'timeout' or the server's exit status if it died."""
        import select
        if self.p is None or self.p.poll() is not None:
            self.start()
        # Variables set for an earlier request stay set in the server process: unset them.
        stale = getattr(self, "env_keys", set()) - set(env)
        self.env_keys = set(env)
        envs = "\x1f".join([f"{k}={v}" for k, v in sorted(env.items())] + sorted(stale))
        line = "\t".join(["RUN", sched, regions, trace, str(horizon), cwd or "", envs,
                           "\x1f".join(argv)]) + "\n"
        try:
            self.p.stdin.write(line.encode())
        except OSError:
            pass
        deadline = time.time() + timeout
        fd = self.p.stdout.fileno()
        while b"\n" not in self.buf:
            left = deadline - time.time()
            if left <= 0:
                self.stop()
                return "timeout", ""
            r, _, _ = select.select([fd], [], [], min(left, 1.0))
            if r:
                chunk = os.read(fd, 65536)
                if not chunk:
                    rc = self.p.wait()
                    err = self.p.stderr.read().decode("utf-8", "replace")
                    self.p = None
                    return rc, err
                self.buf += chunk
        reply, _, self.buf = self.buf.partition(b"\n")
        parts = reply.decode("utf-8", "replace").split("\t", 2)
        if len(parts) < 3 or parts[0] != "DONE":
            self.stop()
            return EXIT_MACHINERY, f"bad reply {reply!r}"
        msg = parts[2].replace("\\n", "\n").replace("\\\\", "\\")
        if int(parts[1]) == 101:
            # A panic may leave process-global state (poisoned locks, half-run scopes) behind.
            err = ""
            self.stop()
            return 101, msg + " (panicked)"
        return int(parts[1]), msg


_SERVERS = {}


def threads_key(argv):
    return ",".join(a for a in argv if a.startswith("--threads") or a == "--no-threads")


def run_execution(cfg, prefix, workdir):
    """cfg: dict(wild, argv (list; '{out}' is replaced), env, cwd, regions, timeout, server)."""
    if cfg.get("server", True):
        return run_execution_server(cfg, prefix, workdir)
    return run_execution_subprocess(cfg, prefix, workdir)


def run_execution_server(cfg, prefix, workdir):
    os.makedirs(workdir, exist_ok=True)
    trace = os.path.join(workdir, "trace")
    out = os.path.join(workdir, "out")
    for p in (trace, out):
        try:
            os.unlink(p)
        except OSError:
            pass
    # The rayon pool of a server process is sized by the first link it runs: one server per
    # distinct --threads value.
    key = (os.getpid(), cfg["wild"], threads_key(cfg["argv"]))
    srv = _SERVERS.get(key)
    if srv is None:
        srv = _SERVERS[key] = Server(cfg["wild"])
    argv = [a.replace("{out}", out) for a in cfg["argv"]]
    t0 = time.time()
    rc, msg = srv.request(",".join(map(str, prefix)) if prefix else "-", cfg["regions"], trace,
                          cfg.get("horizon", 200000), cfg.get("cwd"), cfg.get("env", {}), argv,
                          cfg.get("timeout", 120))
    x = Execution()
    x.wall = time.time() - t0
    x.prefix = list(prefix)
    x.rc = rc
    x.stderr = msg
    x.out_sha = file_sha(out)
    x.decisions, x.events, x.xlines, x.regions, dl = parse_trace(trace, cfg["regions"])
    x.dlines_hash = dl
    return x


def run_execution_subprocess(cfg, prefix, workdir):
    os.makedirs(workdir, exist_ok=True)
    trace = os.path.join(workdir, "trace")
    out = os.path.join(workdir, "out")
    for p in (trace, out):
        try:
            os.unlink(p)
        except OSError:
            pass
    env = dict(cfg.get("env", {}))
    env["WILD_VERIF_SCHED"] = ",".join(map(str, prefix)) if prefix else "-"
    env["WILD_VERIF_REGIONS"] = cfg["regions"]
    env["WILD_VERIF_TRACE"] = trace
    if "horizon" in cfg:
        env["WILD_VERIF_HORIZON"] = str(cfg["horizon"])
    argv = [cfg["wild"]] + [a.replace("{out}", out) for a in cfg["argv"]]
    t0 = time.time()
    rc, so, se = run(argv, env=env, cwd=cfg.get("cwd"), timeout=cfg.get("timeout", 120))
    x = Execution()
    x.wall = time.time() - t0
    x.prefix = list(prefix)
    x.rc = rc
    x.stderr = se.decode("utf-8", "replace")
    x.out_sha = file_sha(out)
    x.decisions, x.events, x.xlines, x.regions, dl = parse_trace(trace, cfg["regions"])
    x.dlines_hash = dl
    return x


def choice_cost(d, c, model):
    if c == 0:
        return 0
    if model == "deviation":
        return 1
    return 1 if d["pe"] else 0


# --- worker side -------------------------------------------------------------------------------
_W = {}


def _worker_init(cfg, oracle, bound, model, base):
    _W["cfg"] = cfg
    _W["oracle"] = oracle
    _W["bound"] = bound
    _W["model"] = model
    _W["dir"] = os.path.join(base, f"w{os.getpid()}")


def _worker(item):
    prefix, expect_hash, restrict = item
    cfg, oracle, bound, model = _W["cfg"], _W["oracle"], _W["bound"], _W["model"]
    x = run_execution(cfg, prefix, _W["dir"])
    res = {"prefix": prefix, "rc": x.rc, "machinery": None, "violations": [], "children": [],
           "fps": [], "trans": [], "outcome": None, "ndec": len(x.decisions), "horizon": False,
           "deadlock": False, "evsig": None}
    if x.rc == "timeout":
        res["machinery"] = f"timeout running prefix {prefix}"
        return res
    if x.rc == EXIT_MACHINERY or any(l.startswith("X divergence") or l.startswith("X stuck")
                                      for l in x.xlines):
        res["machinery"] = f"scheduler machinery error prefix={prefix}: {x.xlines} {x.stderr[-300:]}"
        return res
    if x.rc == EXIT_HORIZON:
        res["horizon"] = True
    if x.rc == EXIT_DEADLOCK:
        res["deadlock"] = True
    n = len(prefix)
    if n and len(x.decisions) < n and not res["deadlock"] and not res["horizon"]:
        res["machinery"] = (f"replay divergence: prefix of {n} choices but only "
                            f"{len(x.decisions)} decisions; stderr={x.stderr[-300:]}")
        return res
    if expect_hash is not None and len(x.decisions) >= n:
        got = prefix_hash(x.dlines_hash, n - 1)
        if got != expect_hash:
            res["machinery"] = f"replay divergence at prefix {prefix}: {got} != {expect_hash}"
            return res
    first_new = max(0, n - 1)
    for d in x.decisions[first_new:]:
        res["fps"].append(d["fp"])
        res["trans"].append(f"{d['fp']}:{d['t']}:{d['op']}:{d['o']}")
    res["violations"] = oracle(x) if oracle else []
    res["outcome"] = (x.rc, x.out_sha)
    res["evsig"] = hashlib.sha256(repr([e[:4] for e in x.events]).encode()).hexdigest()[:12]
    # Children: one per alternative at every decision at or after the end of the prefix.
    cost = 0
    for i, d in enumerate(x.decisions):
        if i >= n:
            for alt in range(1, d["n"]):
                if restrict and d["op"] not in restrict:
                    continue
                if cost + choice_cost(d, alt, model) <= bound:
                    res["children"].append((x.choices()[:i] + [alt],
                                            prefix_hash(x.dlines_hash, i), restrict))
        cost += choice_cost(d, d["c"], model)
    return res


def explore(cfg, bound, model="preempt", oracle=None, max_exec=None, time_cap=None, base=None,
            restrict=None, procs=None, progress=None):
    """Enumerate every schedule within `bound`. Returns a stats dict. `oracle(x)` returns a list of
    (key, what) violations for one execution; it must be a picklable top-level function."""
    procs = procs or NPROC
    base = base or f"/dev/shm/verif.wsched.{os.getpid()}"
    os.makedirs(base, exist_ok=True)
    stats = {"executions": 0, "states": set(), "transitions": set(), "outcomes": {},
             "event_sequences": set(), "violations": [], "deadlocks": 0, "horizon_hits": 0,
             "capped": None, "max_decisions": 0, "machinery": None, "bound": bound,
             "model": model, "samples": []}
    t0 = time.time()
    frontier = [([], None, restrict)]
    import concurrent.futures
    from concurrent.futures.process import BrokenProcessPool
    pool = concurrent.futures.ProcessPoolExecutor(
        procs, mp_context=multiprocessing.get_context("fork"), initializer=_worker_init,
        initargs=(cfg, oracle, bound, model, base))
    try:
        while frontier:
            if max_exec is not None and stats["executions"] + len(frontier) > max_exec:
                room = max(0, max_exec - stats["executions"])
                stats["capped"] = f"max_exec={max_exec}"
                frontier = frontier[:room]
                if not frontier:
                    break
            nxt = []
            futures = [pool.submit(_worker, item) for item in frontier]
            for fut in concurrent.futures.as_completed(futures):
                try:
                    res = fut.result()
                except BrokenProcessPool:
                    stats["machinery"] = "an explorer worker process died"
                    return _finish(stats, t0, base)
                if res["machinery"]:
                    stats["machinery"] = res["machinery"]
                    return _finish(stats, t0, base)
                stats["executions"] += 1
                stats["states"].update(res["fps"])
                stats["transitions"].update(res["trans"])
                stats["outcomes"][res["outcome"]] = stats["outcomes"].get(res["outcome"], 0) + 1
                stats["event_sequences"].add(res["evsig"])
                stats["max_decisions"] = max(stats["max_decisions"], res["ndec"])
                if res["deadlock"]:
                    stats["deadlocks"] += 1
                    stats["violations"].append(("deadlock", "no enabled task while tasks are "
                                                "blocked", res["prefix"]))
                if res["horizon"]:
                    stats["horizon_hits"] += 1
                for key, what in res["violations"]:
                    stats["violations"].append((key, what, res["prefix"]))
                if len(stats["samples"]) < 3 or (res["prefix"] and len(stats["samples"]) < 6):
                    stats["samples"].append({"schedule": res["prefix"], "exit": res["rc"],
                                             "decisions": res["ndec"]})
                nxt.extend(res["children"])
                if time_cap is not None and time.time() - t0 > time_cap:
                    stats["capped"] = f"time_cap={time_cap}s"
                    return _finish(stats, t0, base)
            if progress:
                progress(stats, len(nxt))
            if stats["capped"]:
                break
            frontier = nxt
    finally:
        procs_alive = list((getattr(pool, "_processes", None) or {}).values())
        pool.shutdown(wait=False, cancel_futures=True)
        for proc in procs_alive:
            try:
                proc.terminate()
            except Exception:
                pass
    return _finish(stats, t0, base)


def _finish(stats, t0, base):
    stats["wall"] = time.time() - t0
    stats["n_states"] = len(stats["states"])
    stats["n_transitions"] = len(stats["transitions"])
    stats["n_event_sequences"] = len(stats["event_sequences"])
    del stats["states"], stats["transitions"], stats["event_sequences"]
    shutil.rmtree(base, ignore_errors=True)
    return stats


def replay_twice(cfg, prefix, base=None):
    """Runs one schedule twice; returns (x1, identical?)."""
    base = base or f"/dev/shm/verif.wreplay.{os.getpid()}"
    x1 = run_execution(cfg, prefix, os.path.join(base, "r1"))
    x2 = run_execution(cfg, prefix, os.path.join(base, "r2"))
    same = (x1.rc == x2.rc and x1.out_sha == x2.out_sha and x1.dlines_hash == x2.dlines_hash
            and [e[:4] for e in x1.events] == [e[:4] for e in x2.events])
    shutil.rmtree(base, ignore_errors=True)
    return x1, same
