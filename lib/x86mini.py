"""Mini x86-64 decoder for the instruction forms a linker may leave at a GOT / TLS relaxation site
(property C14), written from the Intel SDM vol. 2 (legacy / REX encodings) and the Intel APX
architecture specification (REX2 prefix, EVEX map 4 "promoted legacy" encodings). Independent of
wild and of iced-x86. Stdlib only.

    insn = decode(code, pos, addr)      # code: bytes, pos: index, addr: address of code[pos]
    insn.length, insn.mnem, insn.opsize, insn.dst, insn.a, insn.b, insn.nf

Semantics carried by an Insn (operands are tuples, see below):
    mov / movabs   dst <- b
    lea            dst <- address of b           (b is a memory operand)
    add or adc sbb and sub xor   dst <- a OP b   (flags too unless nf)
    cmp test       flags(a, b)                   dst is None
    call jmp       transfer to b                 b = ('rel', target) | memory operand | ('reg', n)
    nop endbr64    nothing
Operands:
    ('reg', n)              general register 0..31 (0 = rax, 7 = rdi, 16.. = APX r16..r31)
    ('imm', v)              v is the value the instruction uses, reduced mod 2^64: a sign-extended
                            imm32 when the operand size is 64, the plain 32 bits when it is 32
    ('rip', addr)           memory at link-time address addr (RIP-relative, already resolved)
    ('base', reg, disp)     memory at reg + disp (disp signed)
    ('abs', disp, seg)      memory at disp32 without base (seg 'fs' | None)
Anything outside the supported subset raises DecodeError (the caller reports the bytes)."""
from collections import namedtuple

M64 = (1 << 64) - 1
ALU = ('add', 'or', 'adc', 'sbb', 'and', 'sub', 'xor', 'cmp')
REG64 = ('rax rcx rdx rbx rsp rbp rsi rdi r8 r9 r10 r11 r12 r13 r14 r15 r16 r17 r18 r19 r20 r21 '
         'r22 r23 r24 r25 r26 r27 r28 r29 r30 r31').split()

Insn = namedtuple('Insn', 'length mnem opsize dst a b nf text')


class DecodeError(Exception):
    pass


def sext(v, bits):
    v &= (1 << bits) - 1
    return v - (1 << bits) if v >> (bits - 1) else v


def _u32(code, pos):
    if pos + 4 > len(code):
        raise DecodeError('truncated')
    return int.from_bytes(code[pos:pos + 4], 'little')


def _modrm(code, pos, R, X, B):
    """Parse ModRM [+SIB] [+disp] at code[pos]. R, X, B are the (up to 2-bit) extension values
    already shifted (0, 8, 16, 24). -> (reg, operand, consumed). A RIP-relative operand comes back
    as ('riprel', disp) and is resolved by the caller once the instruction length is known."""
    if pos >= len(code):
        raise DecodeError('truncated')
    m = code[pos]
    mod, reg, rm = m >> 6, (m >> 3 & 7) | R, m & 7
    n = 1
    if mod == 3:
        return reg, ('reg', rm | B), n
    if rm == 4:                                    # SIB
        if pos + 1 >= len(code):
            raise DecodeError('truncated')
        sib = code[pos + 1]
        n += 1
        scale, index, base = sib >> 6, (sib >> 3 & 7) | X, sib & 7
        if index != 4:                             # an index register: only seen in nops
            operand_base = ('sib', base | B, index, scale)
        else:
            operand_base = None
        if base == 5 and mod == 0:
            disp = sext(_u32(code, pos + n), 32)
            n += 4
            if operand_base is not None:
                return reg, ('sibmem', None, index, scale, disp), n
            return reg, ('abs', disp, None), n
        basereg = base | B
    else:
        operand_base = None
        if rm == 5 and mod == 0:                   # RIP-relative; REX.B is not decoded here
            disp = sext(_u32(code, pos + n), 32)
            return reg, ('riprel', disp), n + 4
        basereg = rm | B
    disp = 0
    if mod == 1:
        if pos + n >= len(code):
            raise DecodeError('truncated')
        disp = sext(code[pos + n], 8)
        n += 1
    elif mod == 2:
        disp = sext(_u32(code, pos + n), 32)
        n += 4
    if operand_base is not None:
        return reg, ('sibmem', basereg, operand_base[2], operand_base[3], disp), n
    return reg, ('base', basereg, disp), n


def _fmt_op(o):
    if o is None:
        return '-'
    if o[0] == 'reg':
        return '%' + REG64[o[1]]
    if o[0] == 'imm':
        return '$%#x' % o[1]
    if o[0] == 'rip':
        return '[%#x]' % o[1]
    if o[0] == 'rel':
        return '%#x' % o[1]
    if o[0] == 'base':
        return '[%%%s%+#x]' % (REG64[o[1]], o[2])
    if o[0] == 'abs':
        return '%s:[%#x]' % (o[2] or 'ds', o[1])
    return repr(o)


def decode(code, pos, addr):
    """Decode one instruction at code[pos] (its link-time address is addr)."""
    start = pos
    n66 = 0
    seg = None
    a67 = False
    rep = None
    # ---- legacy prefixes
    while pos < len(code):
        b = code[pos]
        if b == 0x66:
            n66 += 1
        elif b == 0x67:
            a67 = True
        elif b == 0x64:
            seg = 'fs'
        elif b == 0x2e:
            pass                                    # cs: (padding only)
        elif b in (0xf2, 0xf3):
            rep = b
        elif 0x40 <= b <= 0x4f and pos + 1 < len(code) and \
                code[pos + 1] in (0x66, 0x67, 0x64, 0x2e, 0xf2, 0xf3):
            pass                                    # a REX not directly before the opcode is ignored
        else:
            break
        pos += 1
    if pos >= len(code):
        raise DecodeError('truncated')
    W = 0
    R = X = B = 0
    has_rex = False
    evex = None
    b = code[pos]
    if 0x40 <= b <= 0x4f:                           # REX
        has_rex = True
        W, R, X, B = b >> 3 & 1, (b >> 2 & 1) << 3, (b >> 1 & 1) << 3, (b & 1) << 3
        pos += 1
    elif b == 0xd5:                                 # REX2: M0 R4 X4 B4 W R3 X3 B3
        if pos + 1 >= len(code):
            raise DecodeError('truncated')
        p = code[pos + 1]
        if p & 0x80:
            raise DecodeError('REX2 map 1 not supported')
        W = p >> 3 & 1
        R = (p >> 2 & 1) << 3 | (p >> 6 & 1) << 4
        X = (p >> 1 & 1) << 3 | (p >> 5 & 1) << 4
        B = (p & 1) << 3 | (p >> 4 & 1) << 4
        has_rex = True
        pos += 2
    elif b == 0x62:                                 # EVEX (APX extended, map 4 only)
        if pos + 4 >= len(code):
            raise DecodeError('truncated')
        p0, p1, p2 = code[pos + 1], code[pos + 2], code[pos + 3]
        if p0 & 7 != 4:
            raise DecodeError('EVEX map %d not supported' % (p0 & 7))
        if p2 & 0xe3:
            raise DecodeError('EVEX byte 3 %#x: reserved bits set for a map-4 instruction' % p2)
        if p1 & 3:
            raise DecodeError('EVEX.pp != 0 not supported')
        R = (~p0 >> 7 & 1) << 3 | (~p0 >> 4 & 1) << 4
        X = (~p0 >> 6 & 1) << 3 | (~p1 >> 2 & 1) << 4
        B = (~p0 >> 5 & 1) << 3 | (p0 >> 3 & 1) << 4
        W = p1 >> 7 & 1
        vvvv = (~p1 >> 3 & 0xf) | (~p2 >> 3 & 1) << 4
        nd, nf = p2 >> 4 & 1, p2 >> 2 & 1
        if not nd and vvvv:
            raise DecodeError('EVEX.vvvv set without ND')
        evex = (nd, nf, vvvv)
        pos += 4
    op = code[pos]
    pos += 1
    opsize = 64 if W else 32
    mnem = dst = oa = ob = None
    nf = bool(evex and evex[1])

    def fin(mnem, dst, oa, ob, end, opsize=opsize):
        def fix(o):
            if o is not None and o[0] == 'riprel':
                return ('rip', (addr + (end - start) + o[1]) & M64)
            if o is not None and o[0] == 'abs':
                return ('abs', o[1], seg)
            return o
        dst, oa, ob = fix(dst), fix(oa), fix(ob)
        text = '%s%d %s <- %s, %s' % (mnem, opsize, _fmt_op(dst), _fmt_op(oa), _fmt_op(ob))
        return Insn(end - start, mnem, opsize, dst, oa, ob, nf, text)

    def imm32(p):
        v = _u32(code, p)
        return ('imm', sext(v, 32) & M64 if opsize == 64 else v)

    if evex is not None:
        nd, _, vvvv = evex
        if op in (0x01, 0x03) or (op & 0xc7) in (0x01, 0x03):
            mn = ALU[op >> 3 & 7]
            reg, rm, n = _modrm(code, pos, R, X, B)
            pos += n
            if op & 2:
                d, x, y = ('reg', reg), ('reg', reg), rm
            else:
                d, x, y = rm, rm, ('reg', reg)
            if nd:
                d = ('reg', vvvv)
            if mn == 'cmp':
                d = None
            return fin(mn, d, x, y, pos)
        if op == 0x81:
            reg, rm, n = _modrm(code, pos, 0, X, B)
            pos += n
            mn = ALU[reg & 7]
            im = imm32(pos)
            pos += 4
            d = ('reg', vvvv) if nd else rm
            if mn == 'cmp':
                d = None
            return fin(mn, d, rm, im, pos)
        if op == 0x8b:
            raise DecodeError('EVEX mov not supported')
        raise DecodeError('EVEX map-4 opcode %#x not supported' % op)

    if n66 and op not in (0x90, 0x0f, 0x8d, 0xe8, 0x8b, 0xff):
        raise DecodeError('operand-size prefix on opcode %#x not supported' % op)
    # data16 is padding on the TLS sequences (lea / call / mov %fs:0 with REX.W: W wins)
    if n66 and op in (0x8d, 0x8b, 0xff, 0xe8) and not (W or op == 0xe8):
        raise DecodeError('16-bit operand size not supported')

    if op == 0x90 and not B:
        return fin('nop', None, None, None, pos)
    if op == 0x0f:
        if pos >= len(code):
            raise DecodeError('truncated')
        op2 = code[pos]
        pos += 1
        if op2 == 0x1f:                             # nop r/m
            _, _, n = _modrm(code, pos, R, X, B)
            return fin('nop', None, None, None, pos + n)
        if op2 == 0x1e and rep == 0xf3 and pos < len(code) and code[pos] == 0xfa:
            return fin('endbr64', None, None, None, pos + 1)
        raise DecodeError('0f %02x not supported' % op2)
    if op < 0x40 and op & 7 in (1, 3):              # ALU r/m,r  /  r,r/m
        mn = ALU[op >> 3]
        reg, rm, n = _modrm(code, pos, R, X, B)
        pos += n
        if op & 2:
            d, x, y = ('reg', reg), ('reg', reg), rm
        else:
            d, x, y = rm, rm, ('reg', reg)
        return fin(mn, None if mn == 'cmp' else d, x, y, pos)
    if op == 0x85:                                  # test r/m, r
        reg, rm, n = _modrm(code, pos, R, X, B)
        return fin('test', None, rm, ('reg', reg), pos + n)
    if op == 0x8b:                                  # mov r, r/m
        reg, rm, n = _modrm(code, pos, R, X, B)
        return fin('mov', ('reg', reg), None, rm, pos + n)
    if op == 0x89:                                  # mov r/m, r
        reg, rm, n = _modrm(code, pos, R, X, B)
        return fin('mov', rm, None, ('reg', reg), pos + n)
    if op == 0x8d:                                  # lea
        reg, rm, n = _modrm(code, pos, R, X, B)
        if rm[0] == 'reg':
            raise DecodeError('lea with a register operand')
        return fin('lea', ('reg', reg), None, rm, pos + n)
    if op == 0xc7:                                  # mov r/m, imm32 (/0)
        reg, rm, n = _modrm(code, pos, 0, X, B)
        if reg != 0:
            raise DecodeError('c7 /%d not supported' % reg)
        pos += n
        im = imm32(pos)
        return fin('mov', rm, None, im, pos + 4)
    if op == 0x81:                                  # ALU r/m, imm32
        reg, rm, n = _modrm(code, pos, 0, X, B)
        pos += n
        mn = ALU[reg]
        im = imm32(pos)
        return fin(mn, None if mn == 'cmp' else rm, rm, im, pos + 4)
    if op == 0xf7:                                  # test r/m, imm32 (/0)
        reg, rm, n = _modrm(code, pos, 0, X, B)
        if reg != 0:
            raise DecodeError('f7 /%d not supported' % reg)
        pos += n
        im = imm32(pos)
        return fin('test', None, rm, im, pos + 4)
    if 0xb8 <= op <= 0xbf and W:                    # movabs $imm64, r
        if pos + 8 > len(code):
            raise DecodeError('truncated')
        v = int.from_bytes(code[pos:pos + 8], 'little')
        return fin('movabs', ('reg', (op & 7) | B), None, ('imm', v), pos + 8)
    if op in (0xe8, 0xe9):
        rel = sext(_u32(code, pos), 32)
        end = pos + 4
        tgt = (addr + (end - start) + rel) & M64
        if a67:                                     # addr32 does not change a rel32 branch target
            pass
        return fin('call' if op == 0xe8 else 'jmp', None, None, ('rel', tgt), end, opsize=64)
    if op == 0xff:
        reg, rm, n = _modrm(code, pos, 0, X, B)
        if reg not in (2, 4):
            raise DecodeError('ff /%d not supported' % reg)
        return fin('call' if reg == 2 else 'jmp', None, None, rm, pos + n, opsize=64)
    raise DecodeError('opcode %#x not supported' % op)


def decode_all(code, addr, limit=None):
    """Decode consecutive instructions covering exactly code[0:limit]. -> [Insn]."""
    limit = len(code) if limit is None else limit
    pos, out = 0, []
    while pos < limit:
        i = decode(code[:limit], pos, addr + pos)
        out.append(i)
        pos += i.length
    return out


# --------------------------------------------------------------------------------------------
# Encoders used by the generator (kept next to the decoder so that a self-test can round-trip).

def enc_modrm_rip(reg):
    return bytes([(reg & 7) << 3 | 5])


def rex_byte(w=0, r=0, x=0, b=0):
    return 0x40 | w << 3 | r << 2 | x << 1 | b


def rex2_payload(w=0, reg=0, x=0, b=0, m0=0):
    """REX2 payload for ModRM.reg extension `reg` (bits 3 and 4 of the register number)."""
    return (m0 << 7 | (reg >> 4 & 1) << 6 | (x >> 4 & 1) << 5 | (b >> 4 & 1) << 4 | w << 3 |
            (reg >> 3 & 1) << 2 | (x >> 3 & 1) << 1 | (b >> 3 & 1))


def evex_map4(w, reg, vvvv, nd, nf, rm=0, x=0):
    """The three EVEX payload bytes of a map-4 instruction: ModRM.reg register `reg` (0..31),
    ModRM.rm register `rm`, new-data-destination `vvvv` (0..31; must be 0 without nd)."""
    p0 = ((~reg >> 3 & 1) << 7 | (~x >> 3 & 1) << 6 | (~rm >> 3 & 1) << 5 | (~reg >> 4 & 1) << 4 |
          (rm >> 4 & 1) << 3 | 4)
    p1 = w << 7 | (~vvvv & 0xf) << 3 | (~x >> 4 & 1) << 2
    p2 = nd << 4 | (~vvvv >> 4 & 1) << 3 | nf << 2
    return bytes([p0, p1, p2])
