---------------------------- MODULE SlotProtocol ----------------------------
(* Model of wild's parallel section-graph traversal (libwild/src/layout.rs:          *)
(* find_required_sections / activate_group / do_pending_work / send_work), at the   *)
(* granularity of its critical sections.  The harness data (which item produces     *)
(* which requests) is supplied by an instance module generated from the same        *)
(* harness description that generates the objects linked by the real wild.          *)
EXTENDS Naturals, Sequences, FiniteSets

CONSTANTS Groups,        \* set of group indexes
          Synth,         \* the synthetic-symbols group (processing is delayed)
          Items,         \* set of work items
          Owner,         \* [Items -> Groups]
          InitProducts,  \* [Groups -> Seq(Items)]: requests issued while a group activates
          Products,      \* [Items -> Seq(Items)]: requests issued while an item is handled
          Registers,     \* [Groups -> Seq(Items)]: start/stop sections a group registers when it
                         \* activates (pushed to start_stop_sections)
          DrainItems,    \* items (__start_X/__stop_X requests) whose handling drains the registry
          Variant        \* "correct", or a seeded protocol slip used to show the model detects it

VARIABLES phase,     \* [Groups -> {"idle","act","work","ctr","popping","done"}] activation task
          runner,    \* [Groups -> {"none","act","wake","pop"}] who is inside do_pending_work
          popBy,     \* [Groups -> Groups] activation task that popped the delayed group
          actPend,   \* [Groups -> Seq(Items)] requests still to issue during activation
          pend,      \* [Groups -> Seq(Items)] requests still to issue for the item being handled
          local,     \* [Groups -> Seq(Items)] the group's local LIFO queue
          slotWork,  \* [Groups -> Seq(Items)] WorkerSlot.work
          parked,    \* [Groups -> BOOLEAN]    WorkerSlot.worker.is_some()
          wake,      \* set of groups with a spawned but not yet started wake-up task
          requested, \* items whose request has been issued (per-symbol flag set)
          handled,   \* items handled
          remaining, \* activations_remaining
          delayed,   \* delay_processing queue (capacity 1)
          registered, \* start_stop_sections queue
          claim,     \* [Groups -> Items \cup {"none"}] request whose per-symbol flag the task inside
                     \* do_pending_work has just set and which it has not yet pushed
          actClaim   \* the same for the group's activation task

vars == <<phase, runner, popBy, actPend, pend, local, slotWork, parked, wake, requested,
          handled, remaining, delayed, registered, claim, actClaim>>

Init == /\ phase = [g \in Groups |-> "idle"]
        /\ runner = [g \in Groups |-> "none"]
        /\ popBy = [g \in Groups |-> g]
        /\ actPend = [g \in Groups |-> <<>>]
        /\ pend = [g \in Groups |-> <<>>]
        /\ local = [g \in Groups |-> <<>>]
        /\ slotWork = [g \in Groups |-> <<>>]
        /\ parked = [g \in Groups |-> FALSE]
        /\ wake = {}
        /\ requested = {}
        /\ handled = {}
        /\ remaining = Cardinality(Groups)
        /\ delayed = {}
        /\ registered = <<>>
        /\ claim = [g \in Groups |-> "none"]
        /\ actClaim = [g \in Groups |-> "none"]

StartAct(g) == /\ phase[g] = "idle"
               /\ phase' = [phase EXCEPT ![g] = "act"]
               /\ actPend' = [actPend EXCEPT ![g] = InitProducts[g]]
               /\ UNCHANGED <<runner, popBy, pend, local, slotWork, parked, wake, requested,
                              handled, remaining, delayed, registered, claim, actClaim>>

\* Issuing request j takes two steps of the issuing task. First the per-symbol flag is set (an
\* atomic fetch_or): it decides whether the request is sent at all, and by whom. Only the task that
\* set it sends the request, in a later step; another task that meets the symbol in between sees
\* the flag and sends nothing (observed in the implementation: schedule 0^20 1 of harness samesym).
\* A request for another group goes into that group's slot, taking the parked worker if any.
Push(g, j) ==
    IF Owner[j] = g
    THEN /\ local' = [local EXCEPT ![g] = Append(@, j)]
         /\ UNCHANGED <<slotWork, parked, wake>>
    ELSE /\ slotWork' = [slotWork EXCEPT ![Owner[j]] = Append(@, j)]
         /\ parked' = [parked EXCEPT ![Owner[j]] = FALSE]
         /\ wake' = IF parked[Owner[j]] THEN wake \cup {Owner[j]} ELSE wake
         /\ UNCHANGED local

ActSend(g) == /\ phase[g] = "act" /\ actPend[g] # <<>> /\ actClaim[g] = "none"
              /\ LET j == Head(actPend[g]) IN
                   IF j \in requested
                   THEN UNCHANGED <<requested, actClaim>>
                   ELSE /\ requested' = requested \cup {j}
                        /\ actClaim' = [actClaim EXCEPT ![g] = j]
              /\ actPend' = [actPend EXCEPT ![g] = Tail(@)]
              /\ UNCHANGED <<phase, runner, popBy, pend, local, slotWork, parked, wake, handled,
                             remaining, delayed, registered, claim>>

ActPush(g) == /\ actClaim[g] # "none"
              /\ Push(g, actClaim[g])
              /\ actClaim' = [actClaim EXCEPT ![g] = "none"]
              /\ UNCHANGED <<phase, runner, popBy, actPend, pend, requested, handled, remaining,
                             delayed, registered, claim>>

ActDone(g) == /\ phase[g] = "act" /\ actPend[g] = <<>> /\ actClaim[g] = "none"
              /\ ~(Variant = "counter-before-push" /\ g = Synth)
              /\ IF g = Synth
                 THEN /\ delayed' = delayed \cup {g}
                      /\ phase' = [phase EXCEPT ![g] = "ctr"]
                      /\ UNCHANGED runner
                 ELSE /\ runner' = [runner EXCEPT ![g] = "act"]
                      /\ phase' = [phase EXCEPT ![g] = "work"]
                      /\ UNCHANGED delayed
              /\ registered' = registered \o Registers[g]
              /\ UNCHANGED <<popBy, actPend, pend, local, slotWork, parked, wake, requested,
                             handled, remaining, claim, actClaim>>

Handle(g) == /\ runner[g] # "none" /\ pend[g] = <<>> /\ local[g] # <<>> /\ claim[g] = "none"
             /\ LET i == local[g][Len(local[g])] IN
                  /\ handled' = handled \cup {i}
                  /\ IF i \in DrainItems
                     THEN pend' = [pend EXCEPT ![g] = registered] /\ registered' = <<>>
                     ELSE pend' = [pend EXCEPT ![g] = Products[i]] /\ UNCHANGED registered
                  /\ local' = [local EXCEPT ![g] = SubSeq(@, 1, Len(@) - 1)]
             /\ UNCHANGED <<phase, runner, popBy, actPend, slotWork, parked, wake, requested,
                            remaining, delayed, claim, actClaim>>

Deliver(g) == /\ runner[g] # "none" /\ pend[g] # <<>> /\ claim[g] = "none"
              /\ LET j == Head(pend[g]) IN
                   IF j \in requested
                   THEN UNCHANGED <<requested, claim>>
                   ELSE /\ requested' = requested \cup {j}
                        /\ claim' = [claim EXCEPT ![g] = j]
              /\ pend' = [pend EXCEPT ![g] = Tail(@)]
              /\ UNCHANGED <<phase, runner, popBy, actPend, local, slotWork, parked, wake, handled,
                             remaining, delayed, registered, actClaim>>

DeliverPush(g) == /\ claim[g] # "none"
                  /\ Push(g, claim[g])
                  /\ claim' = [claim EXCEPT ![g] = "none"]
                  /\ UNCHANGED <<phase, runner, popBy, actPend, pend, requested, handled,
                                 remaining, delayed, registered, actClaim>>

\* The critical section at the bottom of do_pending_work's loop.
SlotCheck(g) ==
    /\ runner[g] # "none" /\ pend[g] = <<>> /\ local[g] = <<>> /\ claim[g] = "none"
    /\ IF slotWork[g] = <<>>
       THEN /\ parked' = [parked EXCEPT ![g] = TRUE]
            /\ runner' = [runner EXCEPT ![g] = "none"]
            /\ phase' = CASE runner[g] = "act" -> [phase EXCEPT ![g] = "ctr"]
                          [] runner[g] = "pop" -> [phase EXCEPT ![popBy[g]] = "done"]
                          [] OTHER -> phase
            /\ UNCHANGED <<local, slotWork>>
       ELSE /\ local' = [local EXCEPT ![g] = slotWork[g]]
            /\ slotWork' = [slotWork EXCEPT ![g] = <<>>]
            /\ UNCHANGED <<parked, runner, phase>>
    /\ UNCHANGED <<popBy, actPend, pend, wake, requested, handled, remaining, delayed,
                   registered, claim, actClaim>>

WakeBegin(g) == /\ g \in wake /\ runner[g] = "none"
                /\ wake' = wake \ {g}
                /\ runner' = [runner EXCEPT ![g] = "wake"]
                /\ UNCHANGED <<phase, popBy, actPend, pend, local, slotWork, parked, requested,
                               handled, remaining, delayed, registered, claim, actClaim>>

\* fetch_sub on activations_remaining; whoever reaches zero runs the delayed group.
Counter(g) == /\ phase[g] = "ctr"
              /\ remaining' = remaining - 1
              /\ IF remaining = 1 /\ delayed # {}
                 THEN /\ delayed' = {}
                      /\ runner' = [runner EXCEPT ![Synth] = "pop"]
                      /\ popBy' = [popBy EXCEPT ![Synth] = g]
                      /\ phase' = [phase EXCEPT ![g] = "popping"]
                 ELSE /\ phase' = [phase EXCEPT ![g] = "done"]
                      /\ UNCHANGED <<delayed, runner, popBy>>
              /\ UNCHANGED <<actPend, pend, local, slotWork, parked, wake, requested, handled,
                             registered, claim, actClaim>>

\* Seeded slip (seeded/c39-1): the synthetic group decrements activations_remaining BEFORE it
\* pushes itself to delay_processing.
SlipDecrement(g) == /\ Variant = "counter-before-push" /\ g = Synth
                    /\ phase[g] = "act" /\ actPend[g] = <<>> /\ actClaim[g] = "none"
                    /\ remaining' = remaining - 1
                    /\ phase' = [phase EXCEPT ![g] = IF remaining = 1 THEN "slip-last" ELSE "slip"]
                    /\ UNCHANGED <<runner, popBy, actPend, pend, local, slotWork, parked, wake,
                                   requested, handled, delayed, claim, actClaim>>
                    /\ registered' = registered \o Registers[g]
SlipPush(g) == /\ phase[g] \in {"slip", "slip-last"}
               /\ IF phase[g] = "slip-last"
                  THEN /\ runner' = [runner EXCEPT ![g] = "pop"]
                       /\ popBy' = [popBy EXCEPT ![g] = g]
                       /\ phase' = [phase EXCEPT ![g] = "popping"]
                       /\ UNCHANGED delayed
                  ELSE /\ delayed' = delayed \cup {g}
                       /\ phase' = [phase EXCEPT ![g] = "done"]
                       /\ UNCHANGED <<runner, popBy>>
               /\ UNCHANGED <<actPend, pend, local, slotWork, parked, wake, requested, handled,
                              remaining, registered, claim, actClaim>>

Next == \E g \in Groups : \/ SlipDecrement(g) \/ SlipPush(g) \/ StartAct(g) \/ ActSend(g) \/ ActPush(g)
                          \/ ActDone(g) \/ Handle(g) \/ Deliver(g) \/ DeliverPush(g)
                          \/ SlotCheck(g) \/ WakeBegin(g) \/ Counter(g)

Spec == Init /\ [][Next]_vars /\ WF_vars(Next)

Terminated == /\ \A g \in Groups : phase[g] = "done" /\ runner[g] = "none"
              /\ wake = {}

\* Safety: when nothing is left to do, nothing was lost.
NoWorkLost == Terminated =>
                /\ \A g \in Groups : slotWork[g] = <<>> /\ parked[g] /\ local[g] = <<>>
                /\ handled = requested
                /\ delayed = {}
                /\ registered = <<>> \/ DrainItems \cap requested = {}

\* A group's state is only ever inside one task (structural here, checked for the record).
TypeOK == /\ \A g \in Groups : runner[g] \in {"none", "act", "wake", "pop"}
          /\ \A g \in wake : ~parked[g]
          /\ remaining \in 0..Cardinality(Groups)

\* No deadlock before termination and eventual termination under weak fairness.
Progress == <>Terminated
EventuallyAllHandled == <>(Terminated /\ handled = requested)
=============================================================================
