#!/usr/bin/env python3
"""Owner's tool (never run by a check): run a check (or read its log, KF_LOG=<file>), and append each
violation it printed to known_findings.json. The exact key is taken from the replay file named on the
VIOLATION line (keys may contain blanks). Usage: add_kf.py C13 [key-prefix-filter] [note]"""
import json, subprocess, sys, re, os
pid=sys.argv[1]; filt=sys.argv[2] if len(sys.argv)>2 else ""
note=sys.argv[3] if len(sys.argv)>3 else ""
out=open(os.environ["KF_LOG"]).read() if os.environ.get("KF_LOG") else subprocess.run(["./check",pid,"--tier","quick","--no-build"],capture_output=True,text=True,cwd="/verif").stdout
d=json.load(open("/verif/known_findings.json"))
have={(f["property"],f["key"]) for f in d["findings"]}
n=0
for m in re.finditer(r"^VIOLATION property=(\S+) replay=(\S+)\n  key=(.*)$", out, re.M):
    if m.group(1)!=pid: continue
    try:
        rp=json.load(open(m.group(2)))
        key,what=rp["key"],rp["what"]
    except Exception as ex:
        print("cannot read",m.group(2),ex); continue
    if not m.group(3).startswith(key):
        print("replay file does not match the printed key:",m.group(2)); continue
    if filt and not key.startswith(filt): continue
    if (pid,key) in have: continue
    d["findings"].append({"property":pid,"key":key,"what":(str(what)[:400]+(" "+note if note else ""))})
    have.add((pid,key)); n+=1
json.dump(d,open("/verif/known_findings.json","w"),indent=1)
print("added",n)
