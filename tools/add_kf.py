#!/usr/bin/env python3
"""Owner's tool (never run by a check): run a check, and append each VIOLATION key it prints to
known_findings.json with the first line of its description. Usage: add_kf.py C13 [key-prefix-filter] """
import json, subprocess, sys, re
pid=sys.argv[1]; filt=sys.argv[2] if len(sys.argv)>2 else ""
note=sys.argv[3] if len(sys.argv)>3 else ""
import os
out=open(os.environ["KF_LOG"]).read() if os.environ.get("KF_LOG") else subprocess.run(["./check",pid,"--tier","quick","--no-build"],capture_output=True,text=True,cwd="/verif").stdout
d=json.load(open("/verif/known_findings.json"))
have={(f["property"],f["key"]) for f in d["findings"]}
n=0
for m in re.finditer(r"^  key=(\S+) (.*)$", out, re.M):
    key,what=m.group(1),m.group(2)
    if filt and not key.startswith(filt): continue
    if (pid,key) in have: continue
    d["findings"].append({"property":pid,"key":key,"what":(what[:400]+(" "+note if note else ""))})
    have.add((pid,key)); n+=1
json.dump(d,open("/verif/known_findings.json","w"),indent=1)
print("added",n)
