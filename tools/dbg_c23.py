import sys, os
sys.path.insert(0,'/verif/lib'); sys.path.insert(0,'/verif/checks')
import vlib, wildrun, c23
with vlib.scratch("dbg23") as base:
    ms=c23.build_corpus(base)
    for m in ms:
        for verify in (False, True):
            k,rc,msg=c23.wild_link((m,[],verify))
            if rc!=0: print(m[0],m[1],verify,rc,msg[:600].replace("\n"," | "))
