import sys
sys.path.insert(0,'/verif/lib'); sys.path.insert(0,'/verif/checks')
import vlib, c26
chk=vlib.Check("C26","model_checking",["--no-build"])
with vlib.scratch("dbg26") as base:
    print(c26.iteration_orders(chk, base)); print(chk.violations, chk.known_hits)
