import sys, os
sys.path.insert(0,'/verif/lib'); sys.path.insert(0,'/verif/checks')
import vlib, wsched, c39
H=c39.harnesses(); name=sys.argv[1]; prefix=[int(x) for x in sys.argv[2].split(",")] if len(sys.argv)>2 and sys.argv[2] else []
with vlib.scratch("dbg") as base:
    cfg=c39.make_cfg(name,H[name],base)
    x1=wsched.run_execution(cfg,prefix,base+"/r1")
    print(x1.rc, repr(x1.stderr[-1500:]), x1.xlines)
