import sys, os
sys.path.insert(0,'/verif/lib'); sys.path.insert(0,'/verif/checks')
import vlib, wsched, c40
H=c40.harnesses(); name=sys.argv[1]; build=sys.argv[2]
with vlib.scratch("dbg") as base:
    wild = vlib.WILD_B2 if build=="b2" else vlib.WILD
    cfg=c40.make_cfg(name,H[name],base,wild,8 if build=="b2" else 28)
    x1=wsched.run_execution(cfg,[],base+"/r1"); x2=wsched.run_execution(cfg,[],base+"/r2")
    print(x1.rc,x2.rc,x1.out_sha==x2.out_sha,len(x1.decisions),len(x2.decisions), x1.stderr[:300])
    for a,b in zip(x1.dlines_hash,x2.dlines_hash):
        if a!=b: print("DIFF",a,"|",b); break
    e1=[e[:4] for e in x1.events]; e2=[e[:4] for e in x2.events]
    for i,(a,b) in enumerate(zip(e1,e2)):
        if a!=b: print("EVDIFF",i,a,b); break
    print(len(e1),len(e2))
    print(open(base+"/r1/trace").read()[:3000])
