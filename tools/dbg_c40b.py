import sys, os
sys.path.insert(0,'/verif/lib'); sys.path.insert(0,'/verif/checks')
import vlib, wsched, c40
H=c40.harnesses(); name=sys.argv[1]; build=sys.argv[2]; prefix=[int(x) for x in sys.argv[3].split(",")] if len(sys.argv)>3 and sys.argv[3] else []
with vlib.scratch("dbg") as base:
    wild = vlib.WILD_B2 if build=="b2" else vlib.WILD
    cfg=c40.make_cfg(name,H[name],base,wild,8 if build=="b2" else 28)
    cfg["server"]=(os.environ.get("SRV")=="1"); cfg["timeout"]=15
    x1=wsched.run_execution(cfg,prefix,base+"/r1")
    print(x1.rc, x1.stderr[-600:], x1.xlines)
    print(open(base+"/r1/trace").read()[-1500:])
