import sys, os
sys.path.insert(0,'/verif/lib'); sys.path.insert(0,'/verif/checks')
import vlib, wsched, c39
H=c39.harnesses(); name=sys.argv[1]; prefix=[int(x) for x in sys.argv[2].split(",")] if len(sys.argv)>2 and sys.argv[2] else []
with vlib.scratch("dump") as base:
    cfg=c39.make_cfg(name,H[name],base)
    x=wsched.run_execution(cfg,prefix,base+"/r1")
    for l in open(base+"/r1/trace"):
        if l[0] in "ER": print(l.rstrip())
