#!/usr/bin/env python3
"""Regenerates /verif/MANIFEST.json from the table below and validates it against the schema."""
import json, os, sys
V = os.path.dirname(os.path.dirname(os.path.abspath(__file__)))
props = [json.loads(l) for l in open(os.path.join(V, "properties.jsonl"))]
sys.path.insert(0, os.path.join(V, "tools"))
from manifest_table import CHECKS, NOT_APPLICABLE
import subprocess
HOOK_COMMITS = subprocess.run(["git", "-C", "/repo", "log", "--reverse", "--format=%H %s", "--grep=^verif hooks"],
                              capture_output=True, text=True).stdout.strip().split("\n")

checks = []
for pid, c in sorted(CHECKS.items()):
    checks.append({
        "property_id": pid,
        "quick_cmd": f"./check {pid} --tier quick",
        "thorough_cmd": f"./check {pid} --tier thorough",
        "evidence_file": f"/verif/evidence/{pid}.json",
        "replay_cmd_template": f"./check {pid} --replay {{path}}",
        "engine": c["engine"],
        "level_claimed": {"category": c["level"], "text": c["text"], "design_ref": c["ref"]},
        "level_note": c["note"],
        "technique": c["technique"],
    })
na = [{"property_id": p["id"], "reason": NOT_APPLICABLE.get(p["id"], "no check built yet in this round; see DESIGN.md for the planned decision procedure")}
      for p in props if p["id"] not in CHECKS]
m = {
    "version": 1,
    "setup_cmd": "./vbuild wild wild-b2 engines",
    "hooks": {
        "guard": "cargo feature `verif` (libwild, forwarded by wild-linker; `verif-b2` implies it)",
        "enable": "./vbuild: cargo build -p wild-linker --features verif (and --features verif-b2 for the 2-bucket string-merge build) from /repo into /verif/.build",
        "baseline_off_cmd": "cd /repo && cargo nextest run --workspace --no-fail-fast --tool-config-file pb:/w/lib/nextest.toml --profile pb --test-threads 8 --offline || cargo test --workspace --no-fail-fast --offline",
        "source_commits": HOOK_COMMITS,
        "add_only": True,
    },
    "engines": [
        {"name": "unitx", "path": "engines/ + lib/unitx.py", "serves_properties": ["C12", "C13", "C29"], "kind_free_text": "Rust harness enumerating bounded input domains of real linker-utils/libwild functions against independent reference tables"},
        {"name": "tinyprog", "path": "checks/*.py + lib/{wildrun,elfread,elfgen,relmatrix,imgsim,x86mini,symtabfam,bindkit}.py", "serves_properties": ["C01","C02","C03","C04","C05","C07","C08","C09","C10","C14","C15","C16","C22","C23","C24","C25","C30","C31","C32","C33","C36","C37"], "kind_free_text": "bounded-exhaustive program/input family generators, independent ELF reader, reference models, in-process wild server"},
        {"name": "faultenum", "path": "lib/faultenum.py, lib/liverun.py, checks/c17-c21,c35", "serves_properties": ["C17","C18","C19","C20","C21","C35"], "kind_free_text": "phase-point fault / pause injection and history enumeration on real wild processes"},
        {"name": "wsched", "path": "lib/wsched.py + /repo/libwild/src/verif.rs", "serves_properties": ["C39", "C40", "C26", "C06", "C03"], "kind_free_text": "controlled token-passing scheduler compiled into wild + stateless DFS explorer with preemption/deviation bounding"},
    ],
    "checks": checks,
    "not_applicable": na,
    "notes": "See DESIGN.md. Exit 2 from any check = machinery error (never a verdict).",
}
json.dump(m, open(os.path.join(V, "MANIFEST.json"), "w"), indent=1)
try:
    import jsonschema
    jsonschema.validate(m, json.load(open("/root/.vp/MANIFEST.schema.json")))
    print("MANIFEST.json valid;", len(checks), "checks,", len(na), "not claimed")
except ImportError:
    print("jsonschema not available; wrote MANIFEST.json unchecked")
