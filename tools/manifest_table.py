NOT_APPLICABLE = {}
CHECKS = {
 "C39": dict(engine="wsched", level="model_checking", ref="DESIGN.md §2 C39, §1.3",
   technique="stateless model checking of the real code: exhaustive schedule enumeration under a controlled scheduler with deviation/preemption bounding",
   text="Every interleaving (within the stated deviation / preemption bound) of the real tasks of wild's section-graph traversal is executed on 7 harness programs built to collide on worker slots; on each execution: termination, no deadlock, no request left in a slot, every group parked, no two tasks inside one group, every sent request handled, exit status and output bytes equal to the default schedule.",
   note="Sequentially consistent interleavings only; scheduling points are the shimmed sync operations of layout.rs and task begin/end; harness programs have <= 4 objects; bound 2 deviations (quick), 3 deviations + preemption bound 0/1 (thorough)."),
 "C40": dict(engine="wsched", level="model_checking", ref="DESIGN.md §2 C40, §1.3",
   technique="stateless model checking of the real code: exhaustive schedule enumeration under a controlled scheduler with deviation/preemption bounding",
   text="Every interleaving (within the stated bound) of the real input-splitting and bucket tasks of wild's string merging is executed, on the production 16-bucket build and on the verif-b2 build (same source, 2 buckets), for G<=4 input groups and split parallelism P<=3; on each execution: termination, no deadlock, each bucket takes groups 0..G-1 exactly once in order, all buckets finish, no input group stranded, pool returns to capacity (in-code assert), exit status and output bytes equal to the default schedule; error path (unterminated string) fails rather than hangs.",
   note="Sequentially consistent interleavings only; 2-bucket build assumed representative of bucket-bucket and bucket-input interactions (verdict for 16 buckets rests on the b16 runs, bound 1 quick / restricted bound 2 thorough)."),
 "C26": dict(engine="wsched", level="model_checking", ref="DESIGN.md §2 C26, §1.3",
   technique="stateless model checking of the real code (exhaustive schedule enumeration, deviation bounded) + exhaustive configuration product",
   text="Failing programs with 2-3 independent errors (undefined symbols in different groups, same group; two unterminated merge-string sections) and a program with two warnings are linked under every schedule within the deviation bound of the region that reports the error (gc / merge), and under threads {1,2,4,8,16} x files-per-group {unset,1}; exit status, error text and the set of warnings must be identical to the default schedule's.",
   note="Errors raised in par_iter-only phases (symbol resolution, section resolution, size finalisation, writing) are covered by the configuration product only, not by schedule exploration."),
}
