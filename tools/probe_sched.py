import sys, os, time
sys.path.insert(0,'/verif/lib'); sys.path.insert(0,'/verif/checks')
import vlib, wsched, c39
H=c39.harnesses()
name=sys.argv[1]; bound=int(sys.argv[2]); model=sys.argv[3]
with vlib.scratch("probe") as base:
    cfg=c39.make_cfg(name,H[name],base); cfg["server"]=(len(sys.argv)<6)
    b0=wsched.run_execution(cfg,[],base+"/b0")
    print("baseline rc",b0.rc,"decisions",len(b0.decisions), "wall",b0.wall)
    t0=time.time()
    def prog(st,n): print(" exec",st["executions"],"next",n, "t",round(time.time()-t0,1), flush=True)
    st=wsched.explore(cfg,bound,model,c39.make_oracle(cfg,(b0.rc,b0.out_sha)),time_cap=float(sys.argv[4]),base=base+"/x",progress=prog)
    print({k:v for k,v in st.items() if k not in("samples",)})
