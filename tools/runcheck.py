#!/usr/bin/env python3
"""Launcher behind ./check: runs one check script in this process, then leaves *hard*.

Why: a check ends with sys.exit(), after which the interpreter joins the management threads of
every process pool it ever made; with worker processes that were terminated (explorer workers are)
that join can block for ever, and any left-over child (a wild server, a paused wild) keeps the
caller's stdout pipe open.  Either makes a finished check look like a hung one.  So: run the
script, take its exit status, flush, kill every descendant and every other member of our process
group, and os._exit() with the status - no interpreter finalisation.
"""
import os
import runpy
import signal
import sys
import traceback


_FRESH_GROUP = False     # True when main() made a new process group that only we (and ours) are in


def _others():
    """pids of our descendants (by parent chain) and of the other members of our process group."""
    me = os.getpid()
    pg = os.getpgrp()
    own_group = _FRESH_GROUP and pg == me
    parent, group = {}, {}
    for d in os.listdir("/proc"):
        if not d.isdigit():
            continue
        try:
            with open(f"/proc/{d}/stat", "rb") as f:
                s = f.read().decode("latin-1")
            rest = s[s.rindex(")") + 2:].split()
            parent[int(d)] = int(rest[1])
            group[int(d)] = int(rest[2])
        except (OSError, ValueError, IndexError):
            continue
    out = set()
    todo = [me]
    while todo:
        p = todo.pop()
        for c, pp in parent.items():
            if pp == p and c not in out and c != me:
                out.add(c)
                todo.append(c)
    if own_group:
        out.update(p for p, g in group.items() if g == pg and p != me)
    return out


def _reap_and_leave(code):
    try:
        sys.stdout.flush()
    except Exception:
        pass
    try:
        sys.stderr.flush()
    except Exception:
        pass
    for _ in range(3):
        pids = _others()
        if os.environ.get('VERIF_RC_DEBUG'):
            for q in pids:
                try:
                    print('runcheck: killing', q, open(f'/proc/{q}/cmdline','rb').read()[:80], file=sys.stderr)
                except OSError:
                    pass
        if not pids:
            break
        for p in pids:
            try:
                os.kill(p, signal.SIGKILL)
            except OSError:
                pass
    os._exit(code)


def _on_term(signum, _frame):
    _reap_and_leave(128 + signum)


def main():
    if len(sys.argv) < 2:
        print("usage: runcheck.py <check script> [args]", file=sys.stderr)
        os._exit(2)
    global _FRESH_GROUP
    try:
        # Our own process group, so that strays can be found at the end.  When we already lead a
        # group (a job-control shell made one for the whole pipeline), its other members are the
        # caller's (`| tail`), not ours: then only descendants are reaped.
        if os.getpgrp() != os.getpid():
            os.setpgid(0, 0)
            _FRESH_GROUP = True
    except OSError:
        pass
    signal.signal(signal.SIGTERM, _on_term)
    path = os.path.abspath(sys.argv[1])
    sys.argv = [path] + sys.argv[2:]
    sys.path.insert(0, os.path.dirname(path))
    code = 0
    try:
        runpy.run_path(path, run_name="__main__")
    except SystemExit as e:
        if e.code is None:
            code = 0
        elif isinstance(e.code, int):
            code = e.code
        else:
            print(e.code, file=sys.stderr)
            code = 2
    except KeyboardInterrupt:
        code = 130
    except BaseException:
        traceback.print_exc()
        print("MACHINERY: the check script raised an exception", file=sys.stderr)
        code = 2
    _reap_and_leave(code)


if __name__ == "__main__":
    main()
