#!/usr/bin/env python3
"""Validation of lib/elfread.py (against readelf and structural ground truth) and lib/elfgen.py
(readelf, GNU ld, ld.lld, execution). Exits 0 iff every check passed."""
import os
import re
import shutil
import struct
import subprocess
import sys

sys.path.insert(0, os.path.join(os.path.dirname(os.path.abspath(__file__)), '..', 'lib'))
import elfread as E   # noqa: E402
import elfgen as G    # noqa: E402

FAILS, NCHECKS = [], [0]
WORK = '/dev/shm/verif.test_elflibs.%d' % os.getpid()


def check(cond, msg):
    NCHECKS[0] += 1
    if not cond:
        FAILS.append(msg)
        if len(FAILS) <= 60:
            print('FAIL:', msg[:400])
    return cond


def eq(a, b, msg):
    return check(a == b, '%s: elfread=%r expected=%r' % (msg, a, b))


def sh(cmd, ok=(0,), **kw):
    p = subprocess.run(cmd, stdout=subprocess.PIPE, stderr=subprocess.PIPE, cwd=WORK, **kw)
    if ok is not None and p.returncode not in ok:
        raise RuntimeError('command failed (%d): %s\n%s' % (p.returncode, ' '.join(cmd),
                                                           p.stderr.decode(errors='replace')))
    return p.stdout.decode(errors='replace'), p.stderr.decode(errors='replace'), p.returncode


def readelf(*args):
    out, err, _ = sh(['readelf', '-W', *args])
    return out, err


def write(name, text):
    with open(os.path.join(WORK, name), 'w') as f:
        f.write(text)
    return name


# ------------------------------------------------------------------------------- readelf parsers
SHT_NAMES = {'NULL': 0, 'PROGBITS': 1, 'SYMTAB': 2, 'STRTAB': 3, 'RELA': 4, 'HASH': 5, 'DYNAMIC': 6,
             'NOTE': 7, 'NOBITS': 8, 'REL': 9, 'DYNSYM': 11, 'INIT_ARRAY': 14, 'FINI_ARRAY': 15,
             'PREINIT_ARRAY': 16, 'GROUP': 17, 'SYMTAB SECTION INDICES': 18, 'RELR': 19,
             'GNU_HASH': 0x6ffffff6, 'VERDEF': 0x6ffffffd, 'VERNEED': 0x6ffffffe,
             'VERSYM': 0x6fffffff, 'X86_64_UNWIND': 0x70000001, 'LLVM_ADDRSIG': 0x6fff4c03}
FLAG_LETTERS = {'W': 1, 'A': 2, 'X': 4, 'M': 0x10, 'S': 0x20, 'I': 0x40, 'L': 0x80, 'O': 0x100,
                'G': 0x200, 'T': 0x400, 'C': 0x800, 'E': 0x80000000, 'R': 0x200000}
PT_NAMES = {'NULL': 0, 'LOAD': 1, 'DYNAMIC': 2, 'INTERP': 3, 'NOTE': 4, 'SHLIB': 5, 'PHDR': 6,
            'TLS': 7, 'GNU_EH_FRAME': 0x6474e550, 'GNU_STACK': 0x6474e551,
            'GNU_RELRO': 0x6474e552, 'GNU_PROPERTY': 0x6474e553}
STT_NAMES = {'NOTYPE': 0, 'OBJECT': 1, 'FUNC': 2, 'SECTION': 3, 'FILE': 4, 'COMMON': 5, 'TLS': 6,
             'IFUNC': 10}
STB_NAMES = {'LOCAL': 0, 'GLOBAL': 1, 'WEAK': 2, 'UNIQUE': 10}
STV_NAMES = {'DEFAULT': 0, 'INTERNAL': 1, 'HIDDEN': 2, 'PROTECTED': 3}


def cmp_header(e, path):
    out, _ = readelf('-h', path)
    g = lambda pat: re.search(pat, out).group(1)   # noqa: E731
    tname = g(r'Type:\s+(\S+)')
    eq(e.e_type, {'REL': 1, 'EXEC': 2, 'DYN': 3}[tname], path + ' e_type')
    eq(e.e_entry, int(g(r'Entry point address:\s+0x([0-9a-f]+)'), 16), path + ' e_entry')
    eq(e.e_phoff, int(g(r'Start of program headers:\s+(\d+)')), path + ' e_phoff')
    eq(e.e_shoff, int(g(r'Start of section headers:\s+(\d+)')), path + ' e_shoff')
    eq(e.e_flags, int(g(r'Flags:\s+0x([0-9a-f]+)'), 16), path + ' e_flags')
    m = re.search(r'Number of program headers:\s+(\d+)(?: \((\d+)\))?', out)
    eq(e.e_phnum, int(m.group(2) or m.group(1)), path + ' e_phnum')
    m = re.search(r'Number of section headers:\s+(\d+)(?: \((\d+)\))?', out)
    eq(e.e_shnum, int(m.group(2) or m.group(1)), path + ' e_shnum')
    m = re.search(r'Section header string table index:\s+(\d+)(?: \((\d+)\))?', out)
    eq(e.e_shstrndx, int(m.group(2) or m.group(1)), path + ' e_shstrndx')
    mach = g(r'Machine:\s+(.*)')
    eq(e.e_machine, 62 if 'X86-64' in mach else 183 if 'AArch64' in mach else -1,
       path + ' e_machine')


def cmp_sections(e, path):
    out, _ = readelf('-S', path)
    rx = re.compile(r'^\s*\[\s*(\d+)\] (.*?)\s+([A-Z][A-Za-z0-9_ ]*?|[0-9a-f]{8}: <unknown>|'
                    r'LOOS\+0x[0-9a-f]+)\s+([0-9a-f]{16}) ([0-9a-f]{6,}) ([0-9a-f]{6,}) '
                    r'([0-9a-f]{2,})\s+([A-Za-z]*)\s+(\d+)\s+(\d+)\s+(\d+)$')
    n = 0
    for line in out.splitlines():
        m = rx.match(line)
        if not m:
            continue
        n += 1
        idx = int(m.group(1))
        s = e.sections[idx]
        w = '%s section %d' % (path, idx)
        eq(s.name, m.group(2), w + ' name')
        if m.group(3) in SHT_NAMES:
            eq(s.sh_type, SHT_NAMES[m.group(3)], w + ' type')
        eq((s.sh_addr, s.sh_offset, s.sh_size, s.sh_entsize),
           tuple(int(m.group(i), 16) for i in (4, 5, 6, 7)), w + ' addr/off/size/entsize')
        eq((s.sh_link, s.sh_info, s.sh_addralign), tuple(int(m.group(i)) for i in (9, 10, 11)),
           w + ' link/info/align')
        flags = 0
        for ch in m.group(8):
            flags |= FLAG_LETTERS.get(ch, 0)
        known = sum(FLAG_LETTERS.values())
        eq(s.sh_flags & known, flags, w + ' flags')
    eq(len(e.sections), n, path + ' number of sections parsed from readelf -S')
    eq(e.e_shnum, len(e.sections), path + ' e_shnum vs sections')
    for s in e.sections:
        check(e.section(s.name) is e.sections_named(s.name)[0], path + ' section() lookup')
    check(e.section('.no.such.section') is None, path + ' section() of absent name')


def cmp_segments(e, path):
    out, _ = readelf('-l', path)
    rx = re.compile(r'^  (\S+)\s+0x([0-9a-f]+) 0x([0-9a-f]+) 0x([0-9a-f]+) 0x([0-9a-f]+) '
                    r'0x([0-9a-f]+) ([R ][W ][E ]) (?:0x)?([0-9a-f]+)$')
    rows = [m for m in map(rx.match, out.splitlines()) if m]
    eq(len(e.segments), len(rows), path + ' number of segments')
    for p, m in zip(e.segments, rows):
        w = '%s segment %d' % (path, p.index)
        if m.group(1) in PT_NAMES:
            eq(p.p_type, PT_NAMES[m.group(1)], w + ' type')
        eq((p.p_offset, p.p_vaddr, p.p_paddr, p.p_filesz, p.p_memsz),
           tuple(int(m.group(i), 16) for i in (2, 3, 4, 5, 6)), w + ' off/vaddr/paddr/filesz/memsz')
        fl = m.group(7)
        eq(p.p_flags, (4 if 'R' in fl else 0) | (2 if 'W' in fl else 0) | (1 if 'E' in fl else 0),
           w + ' flags')
        eq(p.p_align, int(m.group(8), 16), w + ' align')


def parse_symbols(path):
    out, _ = readelf('-s', path)
    tabs, cur = {}, None
    rx = re.compile(r'^\s*(\d+): ([0-9a-f]{16})\s+(\S+) (\S+)\s+(\S+)\s+(\S+)\s+(?:\[.*?\]\s+)?'
                    r'(\S+)(?: (.*))?$')
    for line in out.splitlines():
        m = re.match(r"Symbol table '(.*)' contains (\d+) entr", line)
        if m:
            cur = tabs.setdefault(m.group(1), [])
            continue
        m = rx.match(line)
        if m and cur is not None:
            cur.append(m.groups())
    return tabs


def cmp_symbols(e, path):
    tabs = parse_symbols(path)
    for which in ('.symtab', '.dynsym'):
        syms = e.symbols(which)
        rows = tabs.get(which, [])
        eq(len(syms), len(rows), '%s %s symbol count' % (path, which))
        for s, r in zip(syms, rows):
            w = '%s %s[%d]' % (path, which, s.index)
            num, value, size, typ, bind, vis, ndx, name = r
            name = name or ''
            eq(s.index, int(num), w + ' index')
            eq(s.value, int(value, 16), w + ' value')
            eq(s.size, int(size, 0), w + ' size')
            eq((s.type, s.bind, s.visibility),
               (STT_NAMES.get(typ), STB_NAMES.get(bind), STV_NAMES.get(vis)), w + ' type/bind/vis')
            exp_ndx = {'UND': 0, 'ABS': 0xfff1, 'COM': 0xfff2}.get(ndx)
            eq(s.shndx, int(ndx) if exp_ndx is None else exp_ndx, w + ' shndx')
            if s.type == E.STT_SECTION and not s.name:
                continue    # readelf shows the section's name for unnamed section symbols
            if which == '.dynsym':
                name = re.sub(r' \(\d+\)$', '', name)
                vidx = e.versym()[s.index] & 0x7fff if e.versym() else 0
                from_def = vidx in {d[0] for d in e.verdefs()}
                if s.version is None or (s.shndx == 0xfff1 and s.name == s.version):
                    mine = s.name     # readelf omits the version of a version-definition symbol
                elif s.version_hidden or s.shndx == 0 or not from_def:
                    mine = '%s@%s' % (s.name, s.version)
                else:
                    mine = '%s@@%s' % (s.name, s.version)
                eq(mine, name, w + ' name/version')
            else:
                eq(s.name, name, w + ' name')
    return len(e.symbols('.symtab')), len(e.symbols('.dynsym'))


def cmp_dynamic(e, path):
    out, _ = readelf('-d', path)
    rows = re.findall(r'^ 0x([0-9a-f]{16}) \((\w+)\)[ \t]*(.*)$', out, re.M)
    rows = [(int(t, 16), n, v.strip()) for t, n, v in rows]
    if rows and rows[-1][0] == 0:
        while rows and rows[-1][0] == 0:
            rows.pop()
    dyn = e.dynamic()
    eq([t for t, _ in dyn], [t for t, _, _ in rows], path + ' dynamic tags')
    needed = []
    for (tag, val), (_t, name, text) in zip(dyn, rows):
        w = '%s dynamic %s' % (path, name)
        if name in E.DT.values():
            eq(E.DT.get(tag), name, w + ' tag name')
        if re.fullmatch(r'0x[0-9a-f]+', text):
            eq(val, int(text, 16), w)
        elif re.fullmatch(r'(\d+) \(bytes\)', text):
            eq(val, int(text.split()[0]), w)
        elif re.fullmatch(r'\d+', text):
            eq(val, int(text), w)
        m = re.search(r'\[(.*)\]$', text)
        if name == 'NEEDED':
            needed.append(m.group(1))
        elif name == 'SONAME':
            eq(e.soname(), m.group(1), w)
        elif name == 'RUNPATH':
            eq(e.runpath(), m.group(1), w)
        elif name == 'RPATH':
            eq(e.rpath(), m.group(1), w)
    eq(e.needed(), needed, path + ' needed()')
    dd = e.dynamic_dict()
    check(all(dd[t] == next(v for t2, v in dyn if t2 == t) for t in dd), path + ' dynamic_dict')
    if not any(n == 'SONAME' for _, n, _ in rows):
        eq(e.soname(), None, path + ' soname absent')
    return len(dyn)


def cmp_relocations(e, path):
    out, _ = readelf('-r', path)
    table = E.R_X86_64 if e.e_machine == 62 else E.R_AARCH64
    mine = {}
    for r in e.relocations():
        mine.setdefault(r.section_name, []).append(r)
    total, cur, relr = 0, None, {}
    seen = set()
    rx = re.compile(r'^([0-9a-f]{16})  ([0-9a-f]{16}) (\S+)\s*(.*)$')
    for line in out.splitlines():
        m = re.match(r"Relocation section '(.*)' at offset 0x[0-9a-f]+ contains (\d+) entr", line)
        if m:
            cur, cnt = m.group(1), int(m.group(2))
            sec = e.section(cur)
            if sec.sh_type == E.SHT_RELR:
                relr[cur] = []
            else:
                seen.add(cur)
                eq(len(mine.get(cur, [])), cnt, '%s %s relocation count' % (path, cur))
                it = iter(mine.get(cur, []))
            continue
        if cur in relr:
            if re.fullmatch(r'[0-9a-f]{16}', line.strip()):
                relr[cur].append(int(line.strip(), 16))
            continue
        m = rx.match(line)
        if not m or cur is None:
            continue
        r = next(it, None)
        if r is None:
            check(False, '%s %s: readelf lists more entries than elfread' % (path, cur))
            continue
        total += 1
        w = '%s %s @%#x' % (path, cur, r.offset)
        info = int(m.group(2), 16)
        eq((r.offset, r.type, r.sym_index), (int(m.group(1), 16), info & 0xffffffff, info >> 32), w)
        eq(table.get(r.type), m.group(3), w + ' type name')
        eq(r.target_section_index, e.section(cur).sh_info, w + ' sh_info')
        rest = m.group(4).strip()
        m2 = re.fullmatch(r'([0-9a-f]{16})\s+(.*?) ([+-]) ([0-9a-f]+)', rest)
        if m2:
            addend = int(m2.group(4), 16) * (1 if m2.group(3) == '+' else -1)
            eq(r.addend, addend, w + ' addend')
            eq(r.sym_name, m2.group(2).split('@')[0] if m2.group(2) else '', w + ' symbol name')
        elif re.fullmatch(r'[0-9a-f]+', rest):
            eq(r.addend & 0xffffffffffffffff, int(rest, 16), w + ' addend (no symbol)')
        else:
            check(False, w + ' unparsed readelf relocation line: ' + line)
    eq(sorted(mine), sorted(seen), path + ' set of relocation sections')
    return total, relr


def cmp_notes(e, path):
    out, _ = readelf('-n', path)
    exp, cur = [], None
    for line in out.splitlines():
        m = re.match(r'Displaying notes found in: (\S+)', line)
        if m:
            cur = m.group(1)
            continue
        m = re.match(r'^  (\S+)\s+0x([0-9a-f]{8})\s+(.*)$', line)
        if m and cur:
            exp.append((cur, m.group(1), int(m.group(2), 16)))
    eq([(w, o, len(d)) for w, o, _t, d in e.notes()], exp, path + ' notes (where, owner, descsz)')
    m = re.search(r'Build ID: ([0-9a-f]+)', out)
    bid = e.build_id()
    eq(bid.hex() if bid is not None else None, m.group(1) if m else None, path + ' build id')
    m = re.search(r'Properties: (.*)', out)
    props = e.gnu_properties()
    if m and 'x86 feature:' in m.group(1):
        feat = [d for t, d in props if t == E.GNU_PROPERTY_X86_FEATURE_1_AND]
        if check(len(feat) == 1 and len(feat[0]) == 4, path + ' x86 feature property present'):
            bits = struct.unpack('<I', feat[0])[0]
            names = re.search(r'x86 feature: ([A-Z, ]+)', m.group(1)).group(1)
            eq(bits & 3, (1 if 'IBT' in names else 0) | (2 if 'SHSTK' in names else 0),
               path + ' x86 feature bits')
    elif m and 'AArch64 feature:' in m.group(1):
        feat = [d for t, d in props if t == E.GNU_PROPERTY_AARCH64_FEATURE_1_AND]
        if check(len(feat) == 1, path + ' aarch64 feature property present'):
            bits = struct.unpack('<I', feat[0])[0]
            eq(bits & 3, (1 if 'BTI' in m.group(1) else 0) | (2 if 'PAC' in m.group(1) else 0),
               path + ' aarch64 feature bits')
    elif not m:
        eq(props, [], path + ' no gnu properties')
    return len(exp)


def cmp_hexdump(e, path, secname):
    s = e.section(secname)
    if s is None or s.sh_type == E.SHT_NOBITS or s.sh_size == 0:
        return 0
    out, _ = readelf('-x', secname, path)
    got = bytearray()
    for line in out.splitlines():
        m = re.match(r'^  0x[0-9a-f]+ ', line)
        if m:
            got += bytes.fromhex(line[m.end():m.end() + 35].replace(' ', ''))
    eq(bytes(got), s.data, '%s hex dump of %s' % (path, secname))
    return 1


def cmp_versions(e, path):
    out, _ = readelf('-V', path)
    defs, needs, versym = [], [], []
    for line in out.splitlines():
        m = re.match(r'^\s+(?:0x)?[0-9a-f]+: Rev: 1\s+Flags: (.*?)\s+Index: (\d+)\s+Cnt: (\d+)'
                     r'\s+Name: (.*)$', line)
        if m:
            fl = (1 if 'BASE' in m.group(1) else 0) | (2 if 'WEAK' in m.group(1) else 0)
            defs.append([int(m.group(2)), fl, m.group(4), []])
            continue
        m = re.match(r'^\s+(?:0x)?[0-9a-f]+: Parent \d+: (.*)$', line)
        if m:
            defs[-1][3].append(m.group(1))
            continue
        m = re.match(r'^\s+(?:0x)?[0-9a-f]+: Version: 1\s+File: (.*?)\s+Cnt: (\d+)$', line)
        if m:
            needs.append((m.group(1), []))
            continue
        m = re.match(r'^\s+(?:0x)?[0-9a-f]+:\s+Name: (.*?)\s+Flags: (.*?)\s+Version: (\d+)$', line)
        if m:
            fl = 2 if 'WEAK' in m.group(2) else 0
            needs[-1][1].append((int(m.group(3)), m.group(1), fl))
            continue
        if re.match(r'^  [0-9a-f]{3}:', line):
            for num, h in re.findall(r'\s+([0-9a-f]+)(h| )\(', line[6:]):
                versym.append(int(num, 16) | (0x8000 if h == 'h' else 0))
    eq([list(d) for d in e.verdefs()], defs, path + ' verdefs')
    eq(e.verneeds(), needs, path + ' verneeds')
    eq(e.versym(), versym, path + ' versym')
    return len(defs), sum(len(i) for _, i in needs)


def cmp_image(e, path):
    """vaddr_to_offset / read_vaddr agree with section contents; bss reads as zeros."""
    n = 0
    for s in e.sections:
        if not s.sh_flags & E.SHF_ALLOC or not s.sh_size or e.e_type == E.ET_REL:
            continue
        w = '%s %s' % (path, s.name)
        if s.sh_type == E.SHT_NOBITS:
            if not s.sh_flags & E.SHF_TLS:
                eq(e.read_vaddr(s.sh_addr + s.sh_size - 1, 1), b'\0', w + ' bss tail reads zero')
                eq(e.vaddr_to_offset(s.sh_addr + s.sh_size - 1), None, w + ' bss tail has no offset')
            continue
        eq(e.vaddr_to_offset(s.sh_addr), s.sh_offset, w + ' vaddr_to_offset')
        eq(e.read_vaddr(s.sh_addr, s.sh_size), s.data, w + ' read_vaddr')
        n += 1
    if n:
        lo = min(p.p_vaddr for p in e.segments if p.p_type == E.PT_LOAD)
        eq(e.read_vaddr(lo, 4), b'\x7fELF', path + ' image starts with the ELF header') \
            if e.vaddr_to_offset(lo) == 0 else None
        eq(e.read_u32(lo), struct.unpack('<I', e.read_vaddr(lo, 4))[0], path + ' read_u32')
        eq(e.vaddr_to_offset(lo - 1), None, path + ' address below the image')
        try:
            e.read_vaddr(lo - 1, 1)
            check(False, path + ' read below the image should raise ElfError')
        except E.ElfError:
            check(True, '')
    interp = e.section('.interp')
    if interp is not None and e.segments:
        eq(e.read_cstr(interp.sh_addr), interp.data.rstrip(b'\0').decode(), path + ' read_cstr')
        eq(e.interp(), interp.data.rstrip(b'\0').decode(), path + ' interp()')
    return n


def cmp_hash(e, path):
    """Every defined dynamic symbol is found by both lookups; absent names are rejected; the
    decoded tables agree with an independent recomputation of the hashes."""
    dyn = e.symbols('.dynsym')
    if not dyn:
        return 0
    g, t = e.gnu_hash(), e.sysv_hash()
    defined = [s for s in dyn if s.index and s.shndx != 0]
    names = {s.name for s in dyn}
    absent = ['absent_symbol_%d' % i for i in range(300)] + ['', 'x', 'main_', '_']
    absent = [a for a in absent if a not in {s.name for s in defined}]
    n = 0
    for lookup, tab, label in ((e.gnu_lookup, g, 'gnu'), (e.sysv_lookup, t, 'sysv')):
        if tab is None:
            eq(lookup('anything'), None, '%s %s_lookup without table' % (path, label))
            continue
        for s in defined:
            if s.value == 0 and s.shndx != 0xfff1 and s.type != E.STT_TLS:
                continue   # glibc skips these too
            idx = lookup(s.name)
            n += 1
            if check(idx is not None, '%s %s_lookup(%r) found nothing' % (path, label, s.name)):
                check(dyn[idx].name == s.name and dyn[idx].shndx != 0,
                      '%s %s_lookup(%r) -> %d (%r)' % (path, label, s.name, idx, dyn[idx].name))
                if sum(1 for d in defined if d.name == s.name) == 1:
                    eq(idx, s.index, '%s %s_lookup(%r) index' % (path, label, s.name))
        for a in absent:
            eq(lookup(a), None, '%s %s_lookup of absent %r' % (path, label, a))
        for s in dyn:
            if s.shndx == 0 and s.name and s.name not in {d.name for d in defined}:
                eq(lookup(s.name), None, '%s %s_lookup of undefined %r' % (path, label, s.name))
    if g is not None:
        if g.chains:
            eq(g.symoffset + len(g.chains), len(dyn), path + ' gnu hash chain count vs dynsym size')
        else:    # nothing hashed: symoffset is only a lower bound (GNU ld writes 1, lld the count)
            check(g.symoffset <= len(dyn) and not any(g.buckets), path + ' empty gnu hash')
        eq(len(g.bloom), g.bloom_size, path + ' bloom size')
        eq(len(g.buckets), g.nbuckets, path + ' bucket count')
        for s in dyn[g.symoffset:] if g.chains else []:
            h = E.dl_new_hash(s.name)
            eq(g.chains[s.index - g.symoffset] | 1, h | 1, '%s gnu chain value of %r' % (path, s.name))
            word = g.bloom[(h // 64) % g.bloom_size]
            check(word >> (h & 63) & 1 and word >> ((h >> g.bloom_shift) & 63) & 1,
                  '%s bloom bits of %r' % (path, s.name))
        sec = e.section('.gnu.hash')
        if sec is not None:
            raw = struct.pack('<4I', g.nbuckets, g.symoffset, g.bloom_size, g.bloom_shift) + \
                struct.pack('<%dQ' % len(g.bloom), *g.bloom) + \
                struct.pack('<%dI' % len(g.buckets), *g.buckets) + \
                struct.pack('<%dI' % len(g.chains), *g.chains)
            eq(raw, sec.data[:len(raw)], path + ' gnu hash re-serialises to .gnu.hash')
            check(len(sec.data) - len(raw) in (0, 4), path + ' .gnu.hash fully consumed')
    if t is not None:
        eq(t.nchain, len(dyn), path + ' sysv nchain vs dynsym size')
        sec = e.section('.hash')
        if sec is not None:
            raw = struct.pack('<%dI' % (2 + t.nbucket + t.nchain), t.nbucket, t.nchain,
                              *t.buckets, *t.chains)
            eq(raw, sec.data, path + ' sysv hash re-serialises to .hash')
    # Known-answer tests for the hash functions (values from the gABI / glibc test vectors).
    eq(E.dl_new_hash(''), 5381, 'dl_new_hash("")')
    eq(E.dl_new_hash('printf'), 0x156b2bb8, 'dl_new_hash("printf")')
    eq(E.elf_hash('printf'), 0x077905a6, 'elf_hash("printf")')
    eq(E.elf_hash(''), 0, 'elf_hash("")')
    return n


def cmp_eh_frame(e, path, need_hdr=True):
    recs = e.eh_frame()
    sec = e.section('.eh_frame')
    if sec is None:
        eq(recs, [], path + ' no .eh_frame')
        return 0, 0
    out, _ = readelf('--debug-dump=frames', path)
    rows = re.findall(r'^([0-9a-f]{8}) ([0-9a-f]{16}) ([0-9a-f]{8}) (CIE|FDE)'
                      r'(?: cie=([0-9a-f]{8}) pc=([0-9a-f]+)\.\.([0-9a-f]+))?', out, re.M)
    # readelf dumps every frame section; keep the rows of .eh_frame only.
    first = out.find('Contents of the .eh_frame section')
    nxt = out.find('Contents of the', first + 10)
    seg = out[first:nxt if nxt > 0 else len(out)]
    rows = re.findall(r'^([0-9a-f]{8}) ([0-9a-f]{16}) ([0-9a-f]{8}) (CIE|FDE)'
                      r'(?: cie=([0-9a-f]{8}) pc=([0-9a-f]+)\.\.([0-9a-f]+))?', seg, re.M)
    eq(len(recs), len(rows), path + ' .eh_frame record count vs readelf')
    for r, row in zip(recs, rows):
        w = '%s .eh_frame+%#x' % (path, r.offset)
        off, length, _id, kind, cie, lo, hi = row
        eq((r.offset, type(r).__name__, r.length), (int(off, 16), kind, int(length, 16) + 4), w)
        eq(r.vaddr, sec.sh_addr + r.offset, w + ' vaddr')
        if kind == 'FDE':
            eq(r.cie_offset, int(cie, 16), w + ' cie offset')
            check(isinstance(r.cie, E.CIE) and r.cie.offset == r.cie_offset, w + ' cie link')
            eq(r.pc_range, int(hi, 16) - int(lo, 16), w + ' pc range')
            if e.e_type != E.ET_REL:
                eq(r.pc_begin, int(lo, 16), w + ' pc begin')
    for m in re.finditer(r'Augmentation:\s+"(.*?)"\s+Code alignment factor: (\d+)\s+'
                         r'Data alignment factor: (-?\d+)\s+Return address column: (\d+)', seg):
        check(any(isinstance(r, E.CIE) and (r.augmentation, r.code_align, r.data_align, r.ra_reg)
                  == (m.group(1), int(m.group(2)), int(m.group(3)), int(m.group(4))) for r in recs),
              '%s CIE %r not matched' % (path, m.groups()))
    fdes = [r for r in recs if isinstance(r, E.FDE)]
    hdr = e.eh_frame_hdr()
    if hdr is None:
        check(not need_hdr, path + ' has no .eh_frame_hdr')
        return len(fdes), 0
    eq(hdr.version, 1, path + ' eh_frame_hdr version')
    eq(hdr.eh_frame_ptr, sec.sh_addr, path + ' eh_frame_ptr')
    eq(hdr.fde_count, len(fdes), path + ' fde_count vs FDEs in .eh_frame')
    eq(len(hdr.table), hdr.fde_count, path + ' table length')
    byaddr = {f.vaddr: f for f in fdes}
    for loc, addr in hdr.table:
        f = byaddr.get(addr)
        if check(f is not None, '%s hdr entry %#x -> %#x is not an FDE' % (path, loc, addr)):
            eq(f.pc_begin, loc, '%s hdr entry for FDE at %#x' % (path, addr))
    eq([l for l, _ in hdr.table], sorted(l for l, _ in hdr.table), path + ' hdr table sorted')
    # LSDA and personality ground truth: inside .gcc_except_table / the DW.ref slot.
    gx = e.section('.gcc_except_table')
    for f in fdes:
        if f.lsda is not None and gx is not None:
            check(gx.sh_addr <= f.lsda < gx.sh_addr + gx.sh_size,
                  '%s LSDA %#x outside .gcc_except_table' % (path, f.lsda))
    pers = {s.value for s in e.symbols('.symtab') if s.name == 'DW.ref.__gxx_personality_v0'}
    for c in recs:
        if isinstance(c, E.CIE) and 'P' in c.augmentation and pers and \
                c.personality_encoding & 0x80:
            check(c.personality in pers, '%s personality %#x not the DW.ref slot %r'
                  % (path, c.personality, pers))
    return len(fdes), len(hdr.table)


def cmp_dyn_relocs(e, path, relr_readelf):
    """dyn_relocs() (located via DT_* tags) must equal the section-based view."""
    if not e.dynamic():
        return 0
    d = e.dyn_relocs()
    bysec = {}
    for r in e.relocations():
        bysec.setdefault(r.section_name, []).append((r.offset, r.type, r.sym_index, r.addend))
    dd = e.dynamic_dict()
    n = 0
    for key, tag in (('rela', E.DT_RELA), ('jmprel', E.DT_JMPREL)):
        if tag not in dd:
            eq(d[key], [], '%s dyn_relocs[%s] without tag' % (path, key))
            continue
        sec = [s for s in e.sections if s.sh_type == E.SHT_RELA and s.sh_addr == dd[tag]
               and s.sh_size]
        if check(len(sec) >= 1, '%s no section at DT_%s' % (path, E.DT[tag])):
            exp = bysec.get(sec[0].name, [])
            if key == 'rela' and dd.get(E.DT_RELASZ, 0) > sec[0].sh_size:
                nxt = [s for s in e.sections if s.sh_addr == sec[0].sh_addr + sec[0].sh_size
                       and s.sh_type == E.SHT_RELA]
                exp = exp + (bysec.get(nxt[0].name, []) if nxt else [])
            eq(d[key], exp, '%s dyn_relocs[%s] vs %s' % (path, key, sec[0].name))
            n += len(exp)
    want = [a for lst in relr_readelf.values() for a in lst]
    eq(d['relr'], want, path + ' RELR decode vs readelf')
    if want:
        sec = e.section('.relr.dyn')
        eq(e.relr_raw(), [v for (v,) in struct.iter_unpack('<Q', sec.data)], path + ' relr_raw')
        eq(E.decode_relr(e.relr_raw()), want, path + ' decode_relr(relr_raw())')
    return n + len(want)


def cmp_stripped(e, path):
    """The same file without section headers: everything DT-based must still work and agree."""
    if not e.dynamic():
        return 0
    data = bytearray(e.data)
    struct.pack_into('<Q', data, 0x28, 0)        # e_shoff
    struct.pack_into('<HHH', data, 0x3a, 0, 0, 0)  # e_shentsize, e_shnum, e_shstrndx
    x = E.Elf(data=bytes(data))
    eq(x.sections, [], path + ' stripped: no sections')
    eq(x.dynamic(), e.dynamic(), path + ' stripped: dynamic')
    eq(x.needed(), e.needed(), path + ' stripped: needed')
    eq(x.dyn_relocs(), e.dyn_relocs(), path + ' stripped: dyn_relocs')
    eq(x.relr_raw(), e.relr_raw(), path + ' stripped: relr_raw')
    eq(x.gnu_hash(), e.gnu_hash(), path + ' stripped: gnu_hash')
    eq(x.sysv_hash(), e.sysv_hash(), path + ' stripped: sysv_hash')
    eq(x.versym(), e.versym(), path + ' stripped: versym')
    eq(x.verdefs(), e.verdefs(), path + ' stripped: verdefs')
    eq(x.verneeds(), e.verneeds(), path + ' stripped: verneeds')
    eq(x.symbols('.dynsym'), e.symbols('.dynsym'), path + ' stripped: dynsym via DT_SYMTAB')
    eq(x.symbols('.symtab'), [], path + ' stripped: no .symtab')
    eq(x.relocations(), [], path + ' stripped: no relocation sections')
    eq([n[1:] for n in x.notes()], [n[1:] for n in e.notes() if e.section(n[0]).sh_flags & 2],
       path + ' stripped: notes via PT_NOTE')
    eq(x.build_id(), e.build_id(), path + ' stripped: build id')
    eq(x.eh_frame_hdr(), e.eh_frame_hdr(), path + ' stripped: eh_frame_hdr via PT_GNU_EH_FRAME')
    eq([r[:7] for r in x.eh_frame()], [r[:7] for r in e.eh_frame()], path + ' stripped: eh_frame')
    for s in e.symbols('.dynsym'):
        if s.shndx:
            eq(x.gnu_lookup(s.name), e.gnu_lookup(s.name), path + ' stripped: gnu_lookup')
            eq(x.sysv_lookup(s.name), e.sysv_lookup(s.name), path + ' stripped: sysv_lookup')
    return 1


def full_compare(path, hexdump=('.rodata', '.text', '.dynstr', '.data', '.eh_frame'),
                 need_hdr=True):
    e = E.Elf(os.path.join(WORK, path))
    stats = {}
    cmp_header(e, path)
    cmp_sections(e, path)
    cmp_segments(e, path)
    stats['symtab'], stats['dynsym'] = cmp_symbols(e, path)
    stats['dynamic'] = cmp_dynamic(e, path)
    stats['relocs'], relr = cmp_relocations(e, path)
    stats['notes'] = cmp_notes(e, path)
    stats['hexdumps'] = sum(cmp_hexdump(e, path, s) for s in hexdump)
    stats['verdef'], stats['vernaux'] = cmp_versions(e, path)
    stats['image_sections'] = cmp_image(e, path)
    stats['lookups'] = cmp_hash(e, path)
    stats['fdes'], stats['hdr_entries'] = cmp_eh_frame(e, path, need_hdr)
    stats['dyn_relocs'] = cmp_dyn_relocs(e, path, relr)
    stats['relr'] = sum(len(v) for v in relr.values())
    stats['stripped'] = cmp_stripped(e, path)
    for name in ('.init_array', '.fini_array'):
        s = e.section(name)
        if s is not None:
            eq(e.pointer_array(name), [v for (v,) in struct.iter_unpack('<Q', s.data)],
               '%s pointer_array(%s)' % (path, name))
            if e.e_type == E.ET_EXEC:
                funcs = {y.value for y in e.symbols('.symtab') if y.type == E.STT_FUNC}
                check(all(p in funcs for p in e.pointer_array(name)),
                      '%s %s entries are functions' % (path, name))
    eq(e.pointer_array('.no.such'), [], path + ' pointer_array of absent section')
    print('  %-14s %s' % (path, ' '.join('%s=%s' % kv for kv in stats.items())))
    return e, stats


# ------------------------------------------------------------------------------- part (a)
SRC_HELLO = r'''
#include <stdio.h>
int g = 3; int *p = &g; __thread int t = 4; static int zeros[1000];
__attribute__((constructor)) static void ctor(void) { g++; }
__attribute__((destructor)) static void dtor(void) { g--; }
int main(int argc, char **argv) { printf("%d %d %d\n", *p, t, zeros[argc]); return 0; }
'''
SRC_CXX = r'''
#include <stdexcept>
#include <string>
#include <cstdio>
struct D { ~D() { std::puts("d"); } };
template <class T> inline T twice(T v) { return v + v; }
int thrower(int x) { D d; if (x > 1) throw std::runtime_error("boom"); return twice(x); }
int main(int argc, char **) {
  try { return thrower(argc); } catch (const std::exception &e) { std::puts(e.what()); }
  try { D d; throw std::string("s"); } catch (...) { return twice(2); }
  return 0;
}
'''
SRC_V = r'''
__asm__(".symver foo_v1,foo@V1");
__asm__(".symver foo_v2,foo@@V2");
int foo_v1(void) { return 1; }
int foo_v2(void) { return 2; }
int bar(void) { return 3; }
int baz = 7;
__thread int tv = 5;
static int hid(void) { return baz; }
int localsym(void) { return hid(); }
int newer(void) { return tv + localsym(); }
int unversioned_ref(void);
int weakref(void) __attribute__((weak));
int caller(void) { return weakref ? weakref() : 0; }
'''
MAP_V = 'V1 { global: foo; bar; local: *; };\nV2 { global: baz; tv; newer; caller; } V1;\n'
SRC_USEV = r'''
extern int foo(void), bar(void), newer(void); extern int baz;
int exported_from_exe = 1;
int main(void) { return foo() + bar() + baz + newer() == 0; }
'''
SRC_RELR = r'''
int a, b, c; char odd;
struct S { int *p; long n; };
struct S arr[150] = { [0 ... 149] = { &a, 1 } };
int *dense[200] = { [0 ... 199] = &b };
int *sparse[300] = { [3] = &c, [70] = &c, [71] = &c, [200] = &a, [299] = &b };
void *fp = (void *)&arr;
int main(void) { return arr[3].p == dense[5] || sparse[3] == fp; }
'''
SRC_A64 = r'''
int counter = 5; int *ptrs[40] = { [0 ... 39] = &counter }; __thread int tl = 1;
extern int ext(int);
static int helper(int x) { return x * 3 + tl; }
int fn(int x) { return helper(x) + *ptrs[x & 31] + ext(x); }
int (*fnp)(int) = fn;
void other(void) { counter++; }
'''


def build_inputs():
    w = write
    w('hello.c', SRC_HELLO), w('cxx.cc', SRC_CXX), w('v.c', SRC_V), w('v.map', MAP_V)
    w('usev.c', SRC_USEV), w('relr.c', SRC_RELR), w('a64.c', SRC_A64)
    both = '-Wl,--hash-style=both'
    jobs = [
        ('hello.static', ['gcc', '-O1', '-static', 'hello.c', '-o', 'hello.static']),
        ('hello.nopie', ['gcc', '-O1', '-no-pie', 'hello.c', '-o', 'hello.nopie', both]),
        ('hello.pie', ['gcc', '-O1', '-pie', '-fPIE', 'hello.c', '-o', 'hello.pie', both,
                       '-Wl,-z,now']),
        ('hello.spie', ['gcc', '-O1', '-static-pie', 'hello.c', '-o', 'hello.spie', both]),
        ('cxx.pie', ['g++', '-O1', 'cxx.cc', '-o', 'cxx.pie', both]),
        ('cxx.o', ['g++', '-O1', '-c', 'cxx.cc', '-o', 'cxx.o']),
        ('libv.so', ['gcc', '-O1', '-shared', '-fPIC', 'v.c', '-o', 'libv.so',
                     '-Wl,--version-script=v.map', '-Wl,-soname,libv.so.1', both,
                     '-Wl,-rpath,/opt/x:$ORIGIN', '-Wl,--enable-new-dtags']),
        ('usev.sysv', ['gcc', '-O1', 'usev.c', './libv.so', '-o', 'usev.sysv',
                       '-Wl,--hash-style=sysv', '-rdynamic', '-Wl,--disable-new-dtags',
                       '-Wl,-rpath,/opt/y']),
        ('usev.gnu', ['gcc', '-O1', 'usev.c', './libv.so', '-o', 'usev.gnu',
                      '-Wl,--hash-style=gnu', '-rdynamic']),
        ('relr.ld', ['gcc', '-O1', 'relr.c', '-o', 'relr.ld', '-Wl,-z,pack-relative-relocs', both]),
        ('relr.lld', ['gcc', '-O1', 'relr.c', '-o', 'relr.lld', '-fuse-ld=lld',
                      '-Wl,--pack-dyn-relocs=relr', both]),
        ('librelr.so', ['gcc', '-O1', '-shared', '-fPIC', 'relr.c', '-o', 'librelr.so',
                        '-Wl,-z,pack-relative-relocs']),
        ('a64.o', ['clang', '--target=aarch64-linux-gnu', '-O1', '-fPIC', '-c', 'a64.c',
                   '-mbranch-protection=standard', '-o', 'a64.o']),
        ('liba64.so', ['ld.lld', '-shared', 'a64.o', '-o', 'liba64.so', '--hash-style=both',
                       '--pack-dyn-relocs=relr', '--eh-frame-hdr', '-z', 'now', '-soname', 'liba64.so',
                       '--build-id']),
    ]
    built, skipped = [], []
    for name, cmd in jobs:
        _o, err, rc = sh(cmd, ok=None)
        if rc == 0:
            built.append(name)
        else:
            skipped.append((name, err.strip().splitlines()[-1][:160] if err.strip() else 'rc=%d' % rc))
    return built, skipped


def part_a():
    print('== part (a): elfread vs readelf ==')
    built, skipped = build_inputs()
    for name, why in skipped:
        print('  SKIPPED build of %s: %s' % (name, why))
    required = {'hello.static', 'hello.pie', 'libv.so', 'cxx.pie', 'cxx.o', 'a64.o', 'usev.sysv',
                'usev.gnu'}
    check(required <= set(built), 'required inputs not built: %r' % sorted(required - set(built)))
    ld_relr = '-z pack-relative-relocs' in sh(['ld', '--help'])[0]
    if ld_relr:
        check('relr.ld' in built, 'ld supports pack-relative-relocs but relr.ld was not built')
    agg = {}
    for name in built:
        # gcc passes --eh-frame-hdr only to dynamic links
        e, stats = full_compare(name, need_hdr=not name.endswith('.o') and name != 'hello.static')
        for k, v in stats.items():
            agg[k] = agg.get(k, 0) + v
        agg.setdefault('files', []).append(name)
    # expectations that make sure the interesting paths were really exercised
    e = E.Elf(os.path.join(WORK, 'libv.so'))
    eq(e.soname(), 'libv.so.1', 'libv.so soname')
    eq(e.runpath(), '/opt/x:$ORIGIN', 'libv.so runpath')
    eq([(i, f, n, p) for i, f, n, p in e.verdefs()],
       [(1, 1, 'libv.so.1', []), (2, 0, 'V1', []), (3, 0, 'V2', ['V1'])], 'libv.so verdefs')
    vers = {(s.name, s.version, s.version_hidden) for s in e.symbols('.dynsym') if s.shndx}
    eq(vers, {('foo', 'V1', True), ('foo', 'V2', False), ('bar', 'V1', False), ('baz', 'V2', False),
              ('tv', 'V2', False), ('newer', 'V2', False), ('caller', 'V2', False),
              ('V1', 'V1', False), ('V2', 'V2', False)}, 'libv.so defined dynamic symbols')
    e = E.Elf(os.path.join(WORK, 'usev.sysv'))
    eq(e.gnu_hash(), None, 'usev.sysv has no gnu hash')
    eq(e.rpath(), '/opt/y', 'usev.sysv rpath')
    eq(e.needed()[0], 'libv.so.1', 'usev.sysv first DT_NEEDED')
    need = dict(e.verneeds())
    eq(sorted(n for _i, n, _f in need.get('libv.so.1', [])), ['V1', 'V2'], 'usev.sysv verneed libv')
    eq({s.version for s in e.symbols('.dynsym') if s.name in ('foo', 'newer')}, {'V2'},
       'usev.sysv versions of foo/newer')
    eq(E.Elf(os.path.join(WORK, 'usev.gnu')).sysv_hash(), None, 'usev.gnu has no sysv hash')
    e = E.Elf(os.path.join(WORK, 'cxx.pie'))
    check(any(isinstance(r, E.CIE) and r.augmentation == 'zPLR' and r.personality
              for r in e.eh_frame()), 'cxx.pie has a zPLR CIE with personality')
    check(sum(1 for r in e.eh_frame() if isinstance(r, E.FDE) and r.lsda) >= 2, 'cxx.pie LSDAs')
    e = E.Elf(os.path.join(WORK, 'cxx.o'))
    check(len(e.sections_named('.group')) >= 2, 'cxx.o has several .group sections')
    check(len([r for r in e.eh_frame() if isinstance(r, E.FDE)]) >= 2, 'cxx.o FDEs parsed')
    e = E.Elf(os.path.join(WORK, 'a64.o'))
    eq(e.e_machine, E.EM_AARCH64, 'a64.o machine')
    check({'R_AARCH64_ADR_GOT_PAGE', 'R_AARCH64_LD64_GOT_LO12_NC', 'R_AARCH64_ABS64'} <=
          {E.R_AARCH64.get(r.type) for r in e.relocations()}, 'a64.o relocation types')
    check(agg.get('relr', 0) > 300, 'RELR decoding exercised (%d addresses)' % agg.get('relr', 0))
    check(agg.get('lookups', 0) > 50, 'hash lookups exercised')
    check(agg.get('hdr_entries', 0) > 50, 'eh_frame_hdr entries exercised')
    check(agg.get('hexdumps', 0) > 20, 'hex dumps compared')
    # malformed inputs raise ElfError, nothing else
    good = open(os.path.join(WORK, 'hello.pie'), 'rb').read()
    bads = {'empty': b'', 'short': good[:40], 'magic': b'\x7fELG' + good[4:],
            'class32': good[:4] + b'\x01' + good[5:], 'big-endian': good[:5] + b'\x02' + good[6:],
            'truncated-shdrs': good[:-100], 'truncated-phdrs': good[:100]}
    for label, data in bads.items():
        try:
            E.Elf(data=data)
            check(False, 'malformed input %s was accepted' % label)
        except E.ElfError:
            check(True, '')
    agg['files'] = len(agg['files'])
    return agg


# ------------------------------------------------------------------------------- part (b)
def exercise(e):
    """Call every elfread accessor; returns the number of calls that raised ElfError. Any other
    exception propagates (that is the failure being tested for)."""
    calls = [lambda: [s.data for s in e.sections], lambda: [p.data for p in e.segments],
             e.symbols, lambda: e.symbols('.dynsym'), e.relocations, e.dynamic, e.needed, e.soname,
             e.runpath, e.dyn_relocs, e.relr_raw, e.gnu_hash, e.sysv_hash, e.verdefs, e.verneeds,
             e.versym, e.notes, e.gnu_properties, e.build_id, e.eh_frame, e.eh_frame_hdr,
             lambda: e.pointer_array('.init_array'), lambda: e.gnu_lookup('foo'),
             lambda: e.sysv_lookup('foo'), lambda: e.gnu_lookup('absent'),
             lambda: e.sysv_lookup('absent'), e.interp]
    n = 0
    for c in calls:
        try:
            c()
        except E.ElfError:
            n += 1
    return n


def mutate_all(data, ranges, label):
    """Every (offset, size) field in ranges x a fixed set of replacement values."""
    evals = rejected = 0
    for off, size in ranges:
        old = int.from_bytes(data[off:off + size], 'little')
        top = (1 << 8 * size) - 1
        news = {0, top, (old + 1) & top, (old - 1) & top, old ^ (1 << 8 * size - 1)}
        if size > 1:
            news |= {1, top >> 1, (old << 8 | 0xff) & top, 0x41414141 & top}
        for new in news - {old}:
            m = bytearray(data)
            m[off:off + size] = new.to_bytes(size, 'little')
            evals += 1
            try:
                x = E.Elf(data=bytes(m))
                rejected += 1 if exercise(x) else 0
            except E.ElfError:
                rejected += 1
            except Exception as ex:   # noqa: BLE001
                check(False, '%s: mutation %#x:%d=%#x raised %s: %s'
                      % (label, off, size, new, type(ex).__name__, ex))
    return evals, rejected


def readelf_clean(path, what):
    out, err, rc = sh(['readelf', '-a', '-W', path], ok=None)
    bad = [l for l in (out + err).splitlines() if re.search(r'warning|error|corrupt|bad ', l, re.I)]
    check(rc == 0 and not err.strip() and not bad,
          '%s: readelf -a not clean: rc=%d %r %r' % (what, rc, err[:300], bad[:3]))


def link_and_run(objs, out, linker, expect_rc=None, extra=()):
    _o, err, rc = sh([linker, *objs, '-o', out, *extra], ok=None)
    if not check(rc == 0, '%s failed on %s: %s' % (linker, objs, err[:300])):
        return None
    if expect_rc is not None:
        p = subprocess.run([os.path.join(WORK, out)], cwd=WORK)
        eq(p.returncode, expect_rc, '%s-linked %s exit status' % (linker, out))
    return E.Elf(os.path.join(WORK, out))


def gen_exit42():
    """_start: edi = abs40 (R_X86_64_32 against an SHN_ABS symbol) + [common] + [val] ; exit."""
    o = G.ElfObject('x86_64')
    code = bytes.fromhex('bf00000000' '033d00000000' '033d00000000' 'b83c000000' '0f05')
    t = o.section('.text.start', flags=G.SHF_ALLOC | G.SHF_EXECINSTR, align=16, data=code)
    d = o.section('.data.val', flags=G.SHF_ALLOC | G.SHF_WRITE, align=4,
                  data=struct.pack('<I', 2))
    bss = o.section('.bss.z', type=G.SHT_NOBITS, flags=G.SHF_ALLOC | G.SHF_WRITE, align=32,
                    size=64)
    o.symbol('file.c', section='abs', bind=G.STB_LOCAL, type=G.STT_FILE)
    start = o.symbol('_start', section=t, size=len(code), type=G.STT_FUNC)
    val = o.symbol('val', section=d, size=4, bind=G.STB_LOCAL, type=G.STT_OBJECT)
    abs40 = o.symbol('abs40', section='abs', value=40)
    com = o.symbol('com', section='common', value=8, size=8, type=G.STT_OBJECT)
    o.symbol('hid', section=bss, value=4, size=4, vis=G.STV_HIDDEN, type=G.STT_OBJECT)
    weak = o.symbol('weak_undef', bind=G.STB_WEAK)
    o.reloc(t, 1, 10, abs40, 0)          # R_X86_64_32
    o.reloc(t, 7, 2, com, -4)            # R_X86_64_PC32
    o.reloc(t, 13, 2, val, -4)
    o.reloc(d, 0, 0, weak, 0)            # R_X86_64_NONE against an undefined weak
    o.note_gnu_stack()
    o.gnu_property([(G.GNU_PROPERTY_X86_FEATURE_1_AND, struct.pack('<I', 3))])
    g1 = o.section('.text.grp', flags=G.SHF_ALLOC | G.SHF_EXECINSTR, align=1, data=b'\xc3')
    gs = o.symbol('grpfn', section=g1, size=1, bind=G.STB_WEAK, type=G.STT_FUNC)
    o.reloc(g1, 0, 0, o.section_symbol(d), 0)
    o.group(gs, [g1])
    ia = o.section('.init_array', type=G.SHT_INIT_ARRAY, flags=G.SHF_ALLOC | G.SHF_WRITE, align=8,
                   data=bytes(8), entsize=8)
    o.reloc(ia, 0, 1, start, 0)          # R_X86_64_64
    return o, dict(t=t, d=d, bss=bss, start=start, val=val, g1=g1, ia=ia)


def part_b():
    print('== part (b): elfgen ==')
    stats = {}
    o, h = gen_exit42()
    data, fmap = o.to_bytes_with_map()
    o.write(os.path.join(WORK, 'gen42.o'))
    eq(open(os.path.join(WORK, 'gen42.o'), 'rb').read(), data, 'write() == to_bytes()')
    eq(o.to_bytes(), data, 'to_bytes() is deterministic')
    readelf_clean('gen42.o', 'gen42.o')
    e, _ = full_compare('gen42.o', need_hdr=False)
    # read-back of what was specified
    names = [s.name for s in e.sections]
    eq(names, ['', '.group', '.text.start', '.data.val', '.bss.z', '.rela.text.start',
               '.rela.data.val', '.note.GNU-stack', '.note.gnu.property', '.text.grp',
               '.rela.text.grp', '.init_array', '.rela.init_array', '.symtab', '.strtab',
               '.shstrtab'], 'gen42.o section order')
    syms = e.symbols()
    nlocal = e.section('.symtab').sh_info
    check(all(s.bind == 0 for s in syms[:nlocal]) and all(s.bind != 0 for s in syms[nlocal:]),
          'gen42.o locals precede globals, sh_info is the first non-local')
    eq([s.name for s in syms], ['', 'file.c', 'val', '', '_start', 'abs40', 'com', 'hid',
                                'weak_undef', 'grpfn'], 'gen42.o symbol order')
    by = {s.name: s for s in syms}
    eq((by['com'].shndx, by['com'].value, by['abs40'].shndx, by['abs40'].value, by['hid'].visibility,
        by['weak_undef'].shndx, by['weak_undef'].bind), (0xfff2, 8, 0xfff1, 40, 2, 0, 2),
       'gen42.o special symbols')
    eq([(r.section_name, r.offset, r.type, r.sym_name, r.addend) for r in e.relocations()],
       [('.rela.text.start', 1, 10, 'abs40', 0), ('.rela.text.start', 7, 2, 'com', -4),
        ('.rela.text.start', 13, 2, 'val', -4), ('.rela.data.val', 0, 0, 'weak_undef', 0),
        ('.rela.text.grp', 0, 0, '.data.val', 0), ('.rela.init_array', 0, 1, '_start', 0)],
       'gen42.o relocations')
    grp = e.section('.group')
    eq(struct.unpack('<3I', grp.data), (1, e.section('.text.grp').index,
                                        e.section('.rela.text.grp').index), 'gen42.o group body')
    eq((grp.sh_link, grp.sh_info), (e.section('.symtab').index, by['grpfn'].index), 'group link/info')
    check(e.section('.text.grp').sh_flags & E.SHF_GROUP and
          e.section('.rela.text.grp').sh_flags & E.SHF_GROUP, 'SHF_GROUP on members')
    eq(e.gnu_properties(), [(0xc0000002, struct.pack('<I', 3))], 'gen42.o gnu property')
    eq((h['t'].index, h['start'].index), (e.section('.text.start').index, by['_start'].index),
       'Sec.index / Sym.index after layout')
    for linker in ('ld', 'ld.lld'):
        x = link_and_run(['gen42.o'], 'gen42.' + linker, linker, 42)
        if x is not None:
            full_compare('gen42.' + linker, need_hdr=False)
            st = {s.name: s for s in x.symbols()}
            eq(x.pointer_array('.init_array'), [st['_start'].value], linker + ' init_array reloc')
            eq(x.e_entry, st['_start'].value, linker + ' entry')
            eq(x.read_u32(st['_start'].value + 1), 40, linker + ' R_X86_64_32 of abs symbol')
    # field map: complete and consistent with what elfread sees
    secs = e.sections
    exp_keys = {('ehdr', f) for f, _ in G.EHDR_FIELDS}
    exp_keys |= {('shdr', s.index, f) for s in secs for f, _ in G.SHDR_FIELDS}
    exp_keys |= {('sym', s.index, f) for s in syms for f, _ in G.SYM_FIELDS}
    for s in secs:
        if s.sh_type == E.SHT_RELA:
            exp_keys |= {('rela', s.index, k, f) for k in range(s.sh_size // 24)
                         for f, _ in G.RELA_FIELDS}
        if s.sh_type == E.SHT_GROUP:
            exp_keys |= {('group', s.index, k) for k in range(s.sh_size // 4)}
    eq(set(fmap), exp_keys, 'field map key set')
    covered = bytearray(len(data))
    for (off, size) in fmap.values():
        check(not any(covered[off:off + size]), 'field map ranges overlap at %#x' % off)
        covered[off:off + size] = b'\1' * size
    structural = [(0, 64), (e.e_shoff, 64 * e.e_shnum)] + \
        [(s.sh_offset, s.sh_size) for s in secs if s.sh_type in (E.SHT_SYMTAB, E.SHT_RELA,
                                                                   E.SHT_GROUP)]
    eq(sum(covered), sum(n for _, n in structural), 'field map covers exactly the structures')
    check(all(all(covered[o:o + n]) for o, n in structural), 'field map covers every structure byte')
    fld = lambda key: int.from_bytes(data[fmap[key][0]:fmap[key][0] + fmap[key][1]], 'little')  # noqa
    for s in secs:
        for f, _ in G.SHDR_FIELDS:
            eq(fld(('shdr', s.index, f)), getattr(s, f), 'fmap shdr %d %s' % (s.index, f))
    for s in syms:
        eq((fld(('sym', s.index, 'st_value')), fld(('sym', s.index, 'st_size')),
            fld(('sym', s.index, 'st_shndx')), fld(('sym', s.index, 'st_info')),
            fld(('sym', s.index, 'st_other'))),
           (s.value, s.size, s.shndx, s.bind << 4 | s.type, s.other), 'fmap sym %d' % s.index)
    for f in ('e_type', 'e_machine', 'e_shoff', 'e_flags', 'e_shentsize', 'e_shnum', 'e_shstrndx'):
        eq(fld(('ehdr', f)), getattr(e, f), 'fmap ehdr ' + f)
    rs = e.section('.rela.text.start')
    eq(fld(('rela', rs.index, 1, 'r_info')), by['com'].index << 32 | 2, 'fmap rela r_info')
    stats['fmap_fields'] = len(fmap)
    # patches
    o.patch_section_header(h['t'], 'sh_size', 0xffffffff)
    o.patch_symbol(h['val'], 'st_value', 0x1234)
    o.patch_rela(h['t'], 0, 'r_info', 0xdeadbeef)
    o.patch_ehdr('e_flags', 7)
    o.patch(('group', h['g1'].index - h['g1'].index + 1, 0), 0)   # group flags word of section 1
    p = E.Elf(data=o.to_bytes())
    eq((p.section('.text.start').sh_size, p.symbols()[by['val'].index].value, p.e_flags,
        struct.unpack('<I', p.section('.group').data[:4])[0]), (0xffffffff, 0x1234, 7, 0), 'patches')
    try:
        p.section('.text.start').data
        check(False, 'oversized sh_size must raise ElfError')
    except E.ElfError:
        check(True, '')
    r0 = p.relocations()[0]
    eq((r0.type, r0.sym_index), (0xdeadbeef, 0), 'patched r_info')
    o.patches.clear()
    eq(o.to_bytes(), data, 'clearing patches restores the original bytes')
    # C22-style mutation of every structural field: elfread must only ever raise ElfError
    ev, rej = mutate_all(data, sorted(set(fmap.values())), 'gen42.o')
    stats['obj_mutations'], stats['obj_rejected'] = ev, rej
    check(rej > 50, 'object mutations: some must be rejected with ElfError (%d)' % rej)
    so = open(os.path.join(WORK, 'libv.so'), 'rb').read()
    v = E.Elf(data=so)
    regions = [(0, 64), (v.e_phoff, 56 * v.e_phnum), (v.e_shoff, 64 * v.e_shnum)]
    regions += [(s.sh_offset, s.sh_size) for s in v.sections if s.sh_flags & 2 and s.sh_type not in
                (E.SHT_NOBITS, E.SHT_PROGBITS, E.SHT_INIT_ARRAY, E.SHT_FINI_ARRAY)]
    regions += [(s.sh_offset, s.sh_size) for s in v.sections
                if s.name in ('.eh_frame', '.eh_frame_hdr', '.symtab')]
    cells = sorted({(o_ + i, 1) for o_, n in regions for i in range(n)})
    cells += sorted({(o_ + i, 4) for o_, n in regions for i in range(0, n - 3, 4)})
    ev, rej = mutate_all(so, cells, 'libv.so')
    stats['so_mutations'], stats['so_rejected'] = ev, rej

    # arbitrary relocation type / odd flags and alignment: readable, and linkers fail cleanly
    o2 = G.ElfObject('x86_64')
    t2 = o2.section('.text', flags=G.SHF_ALLOC | G.SHF_EXECINSTR, align=16, data=bytes(16))
    o2.symbol('_start', section=t2)
    o2.reloc(t2, 4, 0x7fffffff, o2.symbol('undef_sym'), 1 << 62)
    o2.section('.odd', flags=G.SHF_ALLOC | 0x0ff00000, align=3, data=b'abc', entsize=7)
    o2.write(os.path.join(WORK, 'odd.o'))
    e2 = E.Elf(os.path.join(WORK, 'odd.o'))
    r = e2.relocations()[0]
    eq((r.type, r.sym_name, r.addend), (0x7fffffff, 'undef_sym', 1 << 62), 'odd.o relocation')
    eq((e2.section('.odd').sh_addralign, e2.section('.odd').sh_entsize,
        e2.section('.odd').sh_flags), (3, 7, 2 | 0x0ff00000), 'odd.o section header')
    for linker in ('ld', 'ld.lld'):
        _o, err, rc = sh([linker, 'odd.o', '-o', 'odd.out'], ok=None)
        check(rc == 1, '%s on an unknown relocation type: rc=%d (%s)' % (linker, rc, err[:200]))

    # aarch64 object: links with ld.lld, relocations applied as specified
    a = G.ElfObject('aarch64')
    insns = [0xd2800000, 0xd2800ba8, 0xd4000001]      # mov x0,#0 ; mov x8,#93 ; svc #0
    ta = a.section('.text', flags=G.SHF_ALLOC | G.SHF_EXECINSTR, align=4,
                   data=struct.pack('<3I', *insns))
    da = a.section('.data', flags=G.SHF_ALLOC | G.SHF_WRITE, align=8, data=bytes(16))
    sa = a.symbol('_start', section=ta, size=12, type=G.STT_FUNC)
    a.symbol('$x', section=ta, bind=G.STB_LOCAL)
    a.reloc(da, 0, 257, sa, 4)                         # R_AARCH64_ABS64
    a.reloc(da, 8, 261, a.section_symbol(da), 8)       # R_AARCH64_PREL32: S+A-P = 0
    a.note_gnu_stack()
    a.gnu_property([(G.GNU_PROPERTY_AARCH64_FEATURE_1_AND, struct.pack('<I', 1))])
    a.write(os.path.join(WORK, 'gena64.o'))
    readelf_clean('gena64.o', 'gena64.o')
    full_compare('gena64.o', need_hdr=False)
    x = link_and_run(['gena64.o'], 'gena64.out', 'ld.lld', extra=('--no-gc-sections',))
    if x is not None:
        full_compare('gena64.out', need_hdr=False)
        st = {s.name: s for s in x.symbols()}
        d_addr = x.section('.data').sh_addr
        eq(x.read_u64(d_addr), st['_start'].value + 4, 'aarch64 ABS64 applied')
        eq(x.read_u32(d_addr + 8), 0, 'aarch64 PREL32 applied')
        eq(x.read_vaddr(st['_start'].value, 12), struct.pack('<3I', *insns), 'aarch64 code bytes')

    # extended section numbering (>= SHN_LORESERVE sections, SHN_XINDEX symbols)
    big = G.ElfObject('x86_64')
    for i in range(0xff10):
        big.section('.d%d' % i, flags=G.SHF_ALLOC, align=1, data=b'\0')
    code = bytes.fromhex('bf2b000000' 'b83c000000' '0f05')        # exit(43)
    tb = big.section('.text.hi', flags=G.SHF_ALLOC | G.SHF_EXECINSTR, align=16, data=code)
    big.symbol('_start', section=tb, size=len(code), type=G.STT_FUNC)
    big.symbol('lo', section=big.sections[0], bind=G.STB_LOCAL)
    big.write(os.path.join(WORK, 'big.o'))
    eb = E.Elf(os.path.join(WORK, 'big.o'))
    cmp_header(eb, 'big.o')
    eq((eb.e_shnum_raw, eb.e_shstrndx_raw, eb.e_shnum), (0, 0xffff, 0xff10 + 6), 'big.o numbering')
    cmp_symbols(eb, 'big.o')
    sb = {s.name: s for s in eb.symbols()}
    eq(eb.sections[sb['_start'].shndx].name, '.text.hi', 'big.o SHN_XINDEX symbol resolves')
    eq(eb.sections[sb['lo'].shndx].name, '.d0', 'big.o low symbol')
    _o, err, _rc = sh(['readelf', '-W', '-h', '-s', 'big.o'])
    check(not err.strip(), 'readelf on big.o: ' + err[:200])
    for linker in ('ld', 'ld.lld'):
        link_and_run(['big.o'], 'big.' + linker, linker, 43)
    stats['big_sections'] = eb.e_shnum
    return stats


# ------------------------------------------------------------------------------- unit vectors
def enc_uleb(v):
    out = bytearray()
    while True:
        b, v = v & 0x7f, v >> 7
        out.append(b | (0x80 if v else 0))
        if not v:
            return bytes(out)


def enc_sleb(v):
    out = bytearray()
    while True:
        b, v = v & 0x7f, v >> 7
        done = (v == 0 and not b & 0x40) or (v == -1 and b & 0x40)
        out.append(b | (0 if done else 0x80))
        if done:
            return bytes(out)


def enc_crel(relocs, has_addend, shift):
    """Encoder written from the CREL proposal (independent of elfread.decode_crel)."""
    out = bytearray(enc_uleb(len(relocs) * 8 + (4 if has_addend else 0) + shift))
    fb = 3 if has_addend else 2
    off = sym = typ = add = 0
    for o, t, s_, a in relocs:
        delta = ((o >> shift) - off) & 0xffffffffffffffff
        b = (delta & ((1 << (7 - fb)) - 1)) << fb | (s_ != sym) | (t != typ) << 1
        if has_addend and a != add:
            b |= 4
        big = delta >> (7 - fb)
        out.append(b | (0x80 if big else 0))
        if big:
            out += enc_uleb(big)
        if s_ != sym:
            out += enc_sleb(s_ - sym)
        if t != typ:
            out += enc_sleb(t - typ)
        if has_addend and a != add:
            out += enc_sleb(a - add)
        off, sym, typ, add = o >> shift, s_, t, a
    return bytes(out)


def part_c():
    print('== part (c): unit vectors ==')
    for v in (0, 1, 127, 128, 300, 624485, (1 << 64) - 1):
        eq(E.uleb(enc_uleb(v) + b'\xff', 0), (v, len(enc_uleb(v))), 'uleb %d' % v)
    eq(E.uleb(bytes.fromhex('e58e26'), 0)[0], 624485, 'uleb DWARF example')
    eq(E.sleb(bytes.fromhex('c0bb78'), 0)[0], -123456, 'sleb DWARF example')
    for v in (0, 1, -1, 63, 64, -64, -65, 1 << 40, -(1 << 62)):
        eq(E.sleb(enc_sleb(v) + b'\x00', 0), (v, len(enc_sleb(v))), 'sleb %d' % v)
    # RELR: address, bitmap, bitmap continuation (63 words each), new address
    raw = [0x1000, (0b1011 << 1) | 1, (1 << 63) | 1, 0x9000, 3]
    exp = [0x1000, 0x1008, 0x1010, 0x1020, 0x1008 + 63 * 8 + 62 * 8, 0x9000, 0x9008]
    eq(E.decode_relr(raw), exp, 'decode_relr vector')
    try:
        E.decode_relr([3])
        check(False, 'RELR starting with a bitmap must raise')
    except E.ElfError:
        check(True, '')
    # CREL round trips, with and without addends, shifts 0..3
    n = 0
    for has_addend in (False, True):
        for shift in range(4):
            relocs = [(0x10 << shift, 2, 1, -4 if has_addend else None),
                      (0x14 << shift, 2, 1, -4 if has_addend else None),
                      (0x1000 << shift, 4, 70000, 0 if has_addend else None),
                      (0x1001 << shift, 42, 3, (1 << 40) if has_addend else None),
                      ((1 << 40) << shift, 1, 2, -(1 << 50) if has_addend else None)]
            eq(E.decode_crel(enc_crel(relocs, has_addend, shift)), relocs,
               'CREL round trip addend=%s shift=%d' % (has_addend, shift))
            n += 1
    eq(E.decode_crel(bytes([0x08, 0x04])), [(1, 0, 0, None)], 'CREL minimal vector')
    # SHT_REL and SHT_CREL sections inside an object
    o = G.ElfObject('x86_64')
    t = o.section('.text', flags=6, align=4, data=bytes(32))
    sym = o.symbol('f', section=t)
    und = o.symbol('u')
    o.to_bytes()    # assigns indices
    o.section('.rel.text', type=G.SHT_REL, flags=G.SHF_INFO_LINK, align=8, entsize=16,
              link='symtab', info=t, data=struct.pack('<QQQQ', 4, und.index << 32 | 2, 8,
                                                      sym.index << 32 | 1))
    o.section('.crel.text', type=E.SHT_CREL, align=1, link='symtab', info=t,
              data=enc_crel([(12, 2, und.index, -4), (20, 1, sym.index, 7)], True, 0))
    e = E.Elf(data=o.to_bytes())
    eq([tuple(r) for r in e.relocations()],
       [('.rel.text', t.index, 4, 2, und.index, 'u', None),
        ('.rel.text', t.index, 8, 1, sym.index, 'f', None),
        ('.crel.text', t.index, 12, 2, und.index, 'u', -4),
        ('.crel.text', t.index, 20, 1, sym.index, 'f', 7)], 'SHT_REL / SHT_CREL sections')
    # pointer encodings
    x = E.Elf(data=o.to_bytes())
    buf = struct.pack('<hiqHIQ', -2, -3, -4, 5, 6, 7) + enc_uleb(300) + enc_sleb(-300)
    pos, got = 0, []
    for enc in (0x0a, 0x0b, 0x0c, 0x02, 0x03, 0x04, 0x01, 0x09):
        v, pos = x._read_encoded(buf, pos, enc, 0)
        got.append(v if v < 1 << 63 else v - (1 << 64))
    eq(got, [-2, -3, -4, 5, 6, 7, 300, -300], 'DW_EH_PE formats')
    eq(x._read_encoded(struct.pack('<i', -16), 0, 0x1b, 0x1000)[0], 0xff0, 'pcrel|sdata4')
    eq(x._read_encoded(struct.pack('<i', 16), 0, 0x3b, 0x1000, 0x4000)[0], 0x4010, 'datarel|sdata4')
    eq(x._read_encoded(struct.pack('<i', 0), 0, 0x1b, 0x1000)[0], 0, 'pcrel of 0 stays 0 (libgcc)')
    eq(x._read_encoded(b'', 0, 0xff, 0), (None, 0), 'DW_EH_PE_omit')
    return {'crel_roundtrips': n}


def main():
    shutil.rmtree(WORK, ignore_errors=True)
    os.makedirs(WORK)
    try:
        a = part_a()
        b = part_b()
        c = part_c()
    finally:
        if not os.environ.get('KEEP'):
            shutil.rmtree(WORK, ignore_errors=True)
    print('part (a) totals:', a)
    print('part (b) totals:', b)
    print('part (c) totals:', c)
    print('%d checks, %d failures' % (NCHECKS[0], len(FAILS)))
    sys.exit(1 if FAILS else 0)


if __name__ == '__main__':
    main()
